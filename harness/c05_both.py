"""C05 family `both_frameworks`: the consumer's compute_framework_rule ADMITS SEVERAL frameworks.

Two sources R0 (on ca) and R1 (on cb) over all 3 x 3 framework pairs, Link(jt, R0, R1) with jt in INNER / LEFT / OUTER on equally
or differently named single-column keys, tables whose key sets overlap PARTLY (matched, left-only and right-only keys on every
request, so that exchanging the roles of a LEFT join or dropping the preserved side of an OUTER join changes the rows), and a
consumer D1 with  cfws = the two sources' frameworks (for ca = cb: that framework and another one)  or  all three frameworks.

Three judgements per request:
  rows     the rows handed to the consumer's calculation = rel_join of the Link (Spec/Rel.v, vm_compute), with harness/c05's
           recorded domains (kf_domain on the request with the consumer's framework = the left source's) exactly as the base family;
  plan     the real prepare() observed stage by stage (harness/planner_l.observe) = Model/PlannerLM.v prepare_LM with the rule of the
           code and cm0 = the admitted sets (chk_planner_LM: trekker data, queues, ResolveComputeFrameworks.links incl. the narrowed
           compute_frameworks of every feature, the plan step by step, the outcome);
  theorem  Props/C05both.v PlannerL_two_root_both_frameworks on the OBSERVED plan (chk_left_kept): the consumer class is planned on
           the left source's framework and every JoinStep's LEFT / RIGHT uuids belong to the Link's left / right class; plus, from
           the run itself, the native table type the consumer's calculation was handed is the left framework's.
plan / theorem are demanded for every request (no recorded domain excuses them).
"""
from __future__ import annotations

import json
import random
from typing import Any, Dict, List, Optional, Tuple

from lib import vlib
from lib.vlib import cq_list, cq_nat

CF = ["PyArrowTable", "PandasDataFrame", "PythonDictFramework"]
DTYPE = {"PyArrowTable": "Table", "PandasDataFrame": "DataFrame", "PythonDictFramework": "list"}
REQ_M = ["MV.Model.Orch", "MV.Model.OrchCheck", "MV.Model.PlannerA", "MV.Model.LinkSel", "MV.Model.PlannerL", "MV.Model.PlannerLM"]
CHECKS = ["chk_stagesM", "chk_planM", "chk_outcomeM", "chk_left_kept"]
WHAT = {"chk_stagesM": "the link trekker / queues / ResolveComputeFrameworks.links (trekker keys after inversion, the narrowed compute_frameworks) "
                       "differ from Model/PlannerLM.v",
        "chk_planM": "the execution plan differs from the plan of Model/PlannerLM.v (rule of the code: keep the left framework if admitted)",
        "chk_outcomeM": "prepare() accepted / rejected differently from Model/PlannerLM.v",
        "chk_left_kept": "the consumer is not planned on the LEFT source's framework or a JoinStep's left / right tables are not the Link's "
                         "left / right sources (Props/C05both.v PlannerL_two_root_both_frameworks)"}


def partial_keys(rng: random.Random) -> Tuple[List[Tuple[int]], List[Tuple[int]]]:
    """unique single-column keys with at least one matched, one left-only and one right-only key"""
    dom = list(range(1, 9))
    ns, nl, nr = rng.randrange(1, 3), rng.randrange(1, 3), rng.randrange(1, 3)
    ks = rng.sample(dom, ns + nl + nr)
    ka = [(k,) for k in ks[:ns + nl]]
    kb = [(k,) for k in ks[:ns] + ks[ns + nl:]]
    rng.shuffle(ka)
    rng.shuffle(kb)
    return ka, kb


def family(rng: random.Random, big: bool) -> List[Dict[str, Any]]:
    from harness import c05
    out = []
    for _ in range(4 if big else 1):
        for jt in ("INNER", "LEFT", "OUTER"):
            for same in (True, False):
                for ca in CF:
                    for cb in CF:
                        for variant in ("both", "all"):
                            ka, kb = partial_keys(rng)
                            s = c05.two_way(rng, jt, ["k"], ["k" if same else "j"], ka, kb, ca, cb)
                            if variant == "all":
                                cfws = list(CF)
                            elif ca != cb:
                                cfws = [ca, cb]
                            else:
                                cfws = [ca, rng.choice([c for c in CF if c != ca])]
                            rng.shuffle(cfws)
                            s["groups"][2]["cfw"] = ca          # where the theorem says the consumer is planned
                            s["groups"][2]["cfws"] = cfws
                            s["dims_b"] = {"jt": jt, "names": "equal" if same else "different", "pair": f"{ca}/{cb}", "admits": variant}
                            out.append(s)
    return out


def cm0_term(spec: Dict[str, Any], o: Dict[str, Any]) -> str:
    from harness import planner_l
    t = planner_l.Tables(spec)
    multi = {t.group_idx[g["name"]]: [t.cfw_idx[c] for c in g["cfws"]] for g in spec["groups"] if g.get("cfws")}
    return cq_list(f"({cq_nat(n[0])}, {cq_list(cq_nat(c) for c in multi[n[1]])})" for n in o["g"] if n[1] in multi)


def plan_term(spec: Dict[str, Any], o: Dict[str, Any]) -> str:
    from harness import planner_l
    return f"({planner_l.cq_case(o)}, {cm0_term(spec, o)})"


def judge_rows(spec: Dict[str, Any], rec: Dict[str, Any], bad: bool, model_ok: bool) -> Tuple[Optional[str], Optional[str]]:
    """(what is wrong or None, recorded domain the failure is attributed to or None) - the rule of the base family (c05.run)"""
    from harness import c05
    dom = c05.kf_domain(spec)
    wrong = None
    if rec["status"] == "ok" and (rec["rows"] is None or bad):
        wrong = "the rows received by the consumer are not the join described by the Link"
    elif rec["status"] == "raised":
        wrong = f"the accepted request raised at run time: {rec['exc']}"
    elif rec["status"] == "hang":
        wrong = "the run did not terminate"
    elif rec["status"] == "rejected":
        wrong = f"request rejected at prepare: {rec['exc']}"
    if wrong is None:
        return None, None
    if c05.strict_model(spec, dom):
        return (None, dom) if model_ok else (wrong + f" (request in domain {dom}, but the observation is neither the recorded defect nor the specified join)", None)
    if dom in c05.RAISE_PAT:
        ok = rec["status"] == "raised" and c05.RAISE_PAT[dom] in str(rec.get("exc"))
        return (None, dom) if ok else (wrong + f" (request in domain {dom}, but the failure is not the recorded one)", None)
    if dom:
        return None, dom
    return wrong, None


def run_family(rep: vlib.Reporter, rng: random.Random, big: bool) -> Tuple[int, bool, Dict[str, Any]]:
    from harness import c05, planner_l
    specs = family(rng, big)
    found = False
    pending: List[Tuple[int, str, str, Dict[str, Any]]] = []      # violations; those with WRONG ROWS are reported first (at most 6 in all)
    dist: Dict[str, Any] = {"requests": len(specs), "status": {}, "by_jt": {}, "by_names": {}, "by_pair": {}, "by_admits": {},
                            "consumer_on_left_framework": 0, "attributed_to_recorded_domains": {}, "rows_equal_to_spec": 0}
    recs = [c05.one({k: v for k, v in s.items() if k != "dims_b"}) for s in specs]
    obs = [planner_l.observe({k: v for k, v in s.items() if k != "dims_b"}) for s in specs]
    # rows against rel_join
    terms, idx = [], []
    for i, r in enumerate(recs):
        dist["status"][r["status"]] = dist["status"].get(r["status"], 0) + 1
        if r["status"] == "ok" and r["rows"] is not None:
            idx.append(i)
            terms.append(c05.term(specs[i], r["rows"]))
    bad, info = vlib.run_cases("C05", "both_join", c05.REQ, "chk_join", terms, extra_defs=c05.EXTRA, case_type=c05.CASE_TY, shard=60) if terms else ([], {})
    bad_set = {idx[k] for k in bad}
    model_ok: set = set()
    chk_of = {k: c05.strict_model(specs[idx[k]], c05.kf_domain(specs[idx[k]])) for k in bad}
    for chk in sorted({c for c in chk_of.values() if c}):
        sel = [k for k in bad if chk_of[k] == chk]
        still, _ = vlib.run_cases("C05", "both_kf_" + chk, c05.REQ, chk, [terms[k] for k in sel], extra_defs=c05.EXTRA, case_type=c05.CASE_TY, shard=60)
        model_ok |= {idx[k] for j, k in enumerate(sel) if j not in set(still)}
    # plans against Model/PlannerLM.v and the theorem's statement on the observed plan
    pterms, pidx = [], []
    problems: Dict[int, List[str]] = {}
    for i, o in enumerate(obs):
        if "error" in o or o.get("g") is None:
            problems.setdefault(i, []).append(f"the preparation could not be observed: {o.get('error') or o.get('exc')}")
            continue
        pidx.append(i)
        pterms.append(plan_term(specs[i], o))
    pbad, pinfo = vlib.run_cases("C05", "both_plan", REQ_M, "chk_both", pterms, case_type="lcaseM", shard=40,
                                 extra_defs="Definition chk_both (c : lcaseM) : bool := chk_planner_LM c && chk_left_kept c.") if pterms else ([], {})
    if pbad:
        sub = [pterms[k] for k in pbad]
        for chk in CHECKS:
            for j in vlib.run_cases("C05", "both_diag", REQ_M, chk, sub, case_type="lcaseM", shard=40)[0]:
                problems.setdefault(pidx[pbad[j]], []).append(WHAT[chk])
        for k in pbad:
            problems.setdefault(pidx[k], []).append("chk_planner_LM / chk_left_kept") if pidx[k] not in problems else None
    for i, s in enumerate(specs):
        d = s["dims_b"]
        for k, v in (("by_jt", d["jt"]), ("by_names", d["names"]), ("by_pair", d["pair"]), ("by_admits", d["admits"])):
            dist[k][v] = dist[k].get(v, 0) + 1
        rep.nontrivial(("both", s["links"], [g.get("cfw") for g in s["groups"]], s["groups"][2]["cfws"], [g.get("cols") for g in s["groups"] if g["kind"] == "root"]))
        r = recs[i]
        left = s["groups"][0]["cfw"]
        if r["status"] in ("ok", "raised", "hang"):
            if r.get("consumer_cfw") == [left]:
                dist["consumer_on_left_framework"] += 1
            else:
                problems.setdefault(i, []).append(f"the consumer was planned on {r.get('consumer_cfw')}, the Link's left source lives on {left}")
            if r.get("consumer_dtype") is not None and r["consumer_dtype"] != DTYPE[left]:
                problems.setdefault(i, []).append(f"the consumer's calculation was handed a {r['consumer_dtype']}, not a table of {left}")
        wrong, dom = judge_rows(s, r, i in bad_set, i in model_ok)
        if wrong is None and dom is None and r["status"] == "ok":
            dist["rows_equal_to_spec"] += 1
        if dom:
            dist["attributed_to_recorded_domains"][dom] = dist["attributed_to_recorded_domains"].get(dom, 0) + 1
            rep.finding(dom, f"consumer admitting {s['groups'][2]['cfws']}: failure inside the recorded domain",
                        {"kind": "both", "spec": s, "status": r["status"], "exc": r.get("exc"), "rows": r.get("rows")})
        if wrong:
            problems.setdefault(i, []).insert(0, wrong)
        if i not in problems:
            continue
        l = s["links"][0]
        what = (f"consumer admitting the frameworks {s['groups'][2]['cfws']} over Link.{l['jt'].lower()}(R0[{s['groups'][0]['cfw']}].{l['li']}, "
                f"R1[{s['groups'][1]['cfw']}].{l['ri']}), R0 = {json.dumps(s['groups'][0]['cols'])}, R1 = {json.dumps(s['groups'][1]['cols'])}: "
                + "; ".join(problems[i][:4]) + f"; consumer planned on {r.get('consumer_cfw')}, JoinSteps {json.dumps(r.get('joins'))}, "
                f"rows received {json.dumps(r.get('rows'))[:400]}")
        pending.append((0 if wrong else 1, f"both-frameworks:{json.dumps(s, sort_keys=True)}", what,
                        {"kind": "both", "spec": s, "status": r["status"], "exc": r.get("exc"), "rows": r.get("rows"), "problems": problems[i]}))
        found = True
    for _prio, key, what, replay_obj in sorted(pending, key=lambda x: x[0])[:6]:
        rep.finding(key, what, replay_obj)
    dist["rows_compared"] = len(terms)
    dist["rows_disagreements"] = len(bad)
    dist["rows_disagreements_equal_to_defect_model"] = len(model_ok)
    dist["plans_compared"] = len(pterms)
    dist["plan_disagreements"] = len(pbad)
    dist["coq_eval_s"] = {"rows": info.get("coq_eval_s"), "plans": pinfo.get("coq_eval_s")}
    dist["violations"] = len(pending)
    return len(specs), found, dist


def replay(r: Dict[str, Any]) -> int:
    from harness import c05, planner_l
    spec = {k: v for k, v in r["spec"].items() if k != "dims_b"}
    rec = c05.one(spec)
    print(json.dumps({k: rec.get(k) for k in ("status", "exc", "rows", "consumer_cfw", "consumer_dtype", "joins")}, indent=1, default=str))
    print("admitted frameworks:", spec["groups"][2]["cfws"], "left source on:", spec["groups"][0]["cfw"], "kf domain:", c05.kf_domain(spec))
    if rec["status"] == "ok" and rec.get("rows") is not None:
        bad, _ = vlib.run_cases("C05", "replay", c05.REQ, "chk_join", [c05.term(spec, rec["rows"])], extra_defs=c05.EXTRA, case_type=c05.CASE_TY)
        print("rows received = rel_join of the Link:", not bad)
    o = planner_l.observe(spec)
    if "error" not in o and o.get("g") is not None:
        t = [plan_term(spec, o)]
        for chk in ["chk_planner_LM"] + CHECKS:
            b, _ = vlib.run_cases("C05", "replay_plan", REQ_M, chk, t, case_type="lcaseM")
            print(f"{chk}:", not b)
    return 0
