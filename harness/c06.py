"""C06 — results do not depend on the execution mode.

Theorems: coq/Props/C06.v (the SET of result tables by producing step, and 'every step exactly once', are mode- and
schedule-independent for every plan).  Table CONTENTS: compared on the real mloda across
  SYNC  vs  THREADING under the gating scheduler (PRNG release orders; histories replayed in Coq by chk_gated)
        vs  MULTIPROCESSING with a long-lived Arrow Flight server (repeated sampling).
A plan is classified in Coq by conflict_free (two steps not ordered by the wait-for relation touching one object), narrowed by
conflict_free_ip && ip_cols_ok (Props/C06inplace.v: unordered steps that are BOTH observed to compute in place on one object and touch
different columns are no hazard): only plans that fail both, or lie in one of the planner-defect domains, may diverge as known findings.
"""
from __future__ import annotations

import json
import logging
import random
from typing import Any, Dict, List

from lib import vlib
from lib.vlib import cq_bool, cq_list, cq_nat
from harness.universe import Universe, export_plan, kf_tfs_partial_requirement, kf_framework_roundtrip, kf_tfs_missing
from harness.orch import GateListener, run_observed, cq_plan, install, flight_server, stop_flight_server
from harness.c01 import gen_specs, one_spec, canon_result, cq_foot, cq_status, EXTRA, cfip_term, CFIP_TYPE

LEVEL = "proof"
logging.disable(logging.CRITICAL)
REQ = ["MV.Model.Orch", "MV.Model.OrchCheck"]


def kf_mp_transform_non_arrow(plan: Dict[str, Any]) -> bool:
    return any(s["kind"] == "TFS" and s["from_cfw"] != "PyArrowTable" for s in plan["steps"])


def run(rep: vlib.Reporter, tier: str, seed: int) -> None:
    from mloda.user import ParallelizationMode
    rng = random.Random(seed * 1031 + 6)
    install()
    pr = vlib.build_props("C06", extra_targets=["Model/OrchCheck.vo"])
    rep.proof(pr)
    pr2 = vlib.build_props("C06conf")     # data plane: independent steps commute, linearisations agree, conflict_free => confluent
    rep.proof(pr2)
    pr3 = vlib.build_props("C06inplace")  # in-place calculations: conflict_free may be weakened to conflict_free_ip
    rep.proof(pr3)
    pr4 = vlib.build_props("C06store")    # MULTIPROCESSING store protocol of one object: a reader is never served a staler table
    rep.proof(pr4)                        # than the one of the last finished uploading step (Model/MpStore.v)
    pr.ok = pr.ok and pr2.ok and pr3.ok and pr4.ok
    pr.failed_files += pr2.failed_files + pr3.failed_files + pr4.failed_files
    rep.coverage["trusted_base"] += [
        "Model/Orch.v (orchestrator) is proved mode-independent at the level of WHICH steps run and WHICH results are collected; "
        "the data plane is modelled for merge-free plans (Model/DataPlane.v, DataPlaneConc.v: replacing steps; DataPlaneInPlace.v: "
        "in-place steps on a heap of mutable frames - one atomic event per inserted column); the Flight store is modelled for ONE "
        "compute-framework object (Model/MpStore.v: calc step / upload after the calculation of every need_to_upload step / read by "
        "another worker; observed uploads and downloads of the family two_uploads are replayed by MpStore.chk_replay), not for merged "
        "objects, join re-uploads, result collection and the dropping of datasets: there contents are compared on the implementation; conflict_free / conflict_free_ip (Model/OrchCheck.v) classify plans from "
        "footprints and result styles OBSERVED on the SYNC run and the written/read columns of the generated spec",
        "gating scheduler at calculation/transform/merge entry; MULTIPROCESSING schedules are sampled, not controlled",
        "Arrow Flight is treated as a reliable key-value store"]
    big = tier == "thorough"
    from harness import daggen
    # MULTIPROCESSING witness "a step result taken and put back during a drop-acknowledgement wait that then times out" (three
    # unordered steps on one worker, 2 s and 7 s long): observed in its own interpreter while the rest of the check runs; the run
    # must end with the tables of the SYNC run and its history must be a trace of Model/Worker.v (Worker_requeued_survive_timeout)
    from harness import worker_proto
    pr_w = vlib.build_props("Worker")
    rep.proof(pr_w)
    requeue_procs = worker_proto.spawn_requeue_case("C06")
    specs, gstats = gen_specs(rng, 250 if big else 30)
    # siblings on one framework with slow calculations: result collection overlaps later uploads in MULTIPROCESSING
    specs += [daggen.gen_siblings(rng) for _ in range(30 if big else 5)]
    # a requested column produced by a step whose table another worker still has to read (framework change / join)
    specs += [daggen.gen_partial_request(rng) for _ in range(40 if big else 8)]
    # one uploaded table read by several other workers, the last of them late (transform steps + the join with a slow source)
    specs += [daggen.gen_shared_upload(rng) for _ in range(12 if big else 3)]
    # a two-column root read partly by its own framework, partly by another one (upload marking; regression input of 3a3ea33)
    specs += [daggen.gen_partial_reader(rng) for _ in range(8 if big else 2)]
    # unordered IN-PLACE siblings (pandas mutate / Series, python-dict rows) on one object + a consumer of all of them: every
    # finish order of the siblings is run; one family in four has a replacing sibling (the recorded hazard)
    specs += [daggen.gen_inplace_siblings(rng, all_inplace=(k % 4 != 3)) for k in range(32 if big else 6)]
    n_sched = 8 if big else 4
    n_mp = 3 if big else 1
    recs = [one_spec(s, rng, n_sched) for s in specs]
    cf_terms = [f"({cq_plan(r['plan'])}, {cq_foot(r['sync']['foot'])})" for r in recs]
    conflicted = set(vlib.run_cases("C06", "cf", REQ, "chk_cf", cf_terms, extra_defs=EXTRA, case_type="plan * foot", shard=60)[0])
    # conflicts that remain when pairs of steps that are both (observed) in place on one object and touch different columns
    # are exempted (Props/C06inplace.v: such plans are confluent under THREADING)
    not_ip = set(vlib.run_cases("C06", "cfip", REQ, "chk_cfip", [cfip_term(r) for r in recs], extra_defs=EXTRA, case_type=CFIP_TYPE, shard=60)[0])
    conflicted_mp = set(vlib.run_cases("C06", "cfx", REQ, "chk_cfx", cf_terms,
                                       extra_defs=EXTRA + "\nDefinition chk_cfx (c : plan * foot) := conflict_free_x (fst c) (snd c).\n",
                                       case_type="plan * foot", shard=60)[0])
    gated_terms, gated_idx = [], []
    for i, r in enumerate(recs):
        for j, g in enumerate(r["gated"]):
            if g["problem"] is None and all("released" in rd and rd.get("ok") is not None for rd in g["rounds"]):
                rounds = cq_list(f"({cq_list(cq_nat(x) for x in rd['blocked'])}, {cq_nat(rd['released'])}, {cq_bool(bool(rd['ok']))})"
                                 for rd in g["rounds"])
                gated_idx.append((i, j))
                gated_terms.append(f"({cq_plan(g['plan'])}, ({rounds}, {cq_status(g['status'])}))")
    bad_gated, ginfo = vlib.run_cases("C06", "gated", REQ, "chk_gated", gated_terms,
                                      case_type="plan * (list (list nat * nat * bool) * ostatus)", shard=60) if gated_terms else ([], {})
    found = False
    dist: Dict[str, Any] = {"specs": len(recs), "generator": gstats, "conflicted_plans": len(conflicted), "conflicted_plans_in_place_only (conflict_free_ip)": len(conflicted - not_ip),
                            "observed_in_place_steps": sum(1 for r in recs for v in (r["sync"].get("style") or {}).values() if v),
                            "conflicted_across_objects": len(conflicted_mp), "sync_ok": 0,
                            "threading_runs": 0, "threading_diverged": 0, "mp_runs": 0, "mp_diverged": 0, "mp_same": 0,
                            "in_planner_kf": 0, "mp_kf_transform": 0}
    fs = flight_server()
    n_eval = 0
    # planner-defect domains decided in Coq on the exported plan (Model/PlanDefects.v); the Python predicates are only counted
    from harness import planner_b
    coq_cls = planner_b.classify([r["plan"] for r in recs], rep_prefix="C06")
    dist["in_python_predicates_only"] = 0
    for i, r in enumerate(recs):
        plan = r["plan"]
        key = json.dumps(r["spec"], sort_keys=True)
        # the plan predicates describe link-free plans; in a joined plan both sources list the consumer as child by design (the run-time
        # lookup follows the merge relation, Model/RoutingJ.v): the shared-upload family lies outside every recorded domain
        py_kf = bool(kf_tfs_partial_requirement(plan) or kf_framework_roundtrip(plan) or kf_tfs_missing(plan))
        planner_kf = False if r["spec"].get("family") == "shared_upload" else bool(coq_cls[i])
        dist["in_python_predicates_only"] += int(py_kf and not planner_kf)
        dist["in_planner_kf"] += planner_kf
        n_eval += 1
        if r["sync"]["status"] != "ok":
            continue                      # no reference result (C01/C02 report these)
        dist["sync_ok"] += 1
        uni = Universe(r["spec"], GateListener())
        sess = uni.prepare()
        o_ref = run_observed(sess)
        if o_ref["status"] != "ok":       # the reference run is repeated once; a SYNC run that fails after it succeeded is reported with its input
            o_ref = run_observed(sess)
        if o_ref["status"] != "ok":
            rep.finding(f"sync-rerun:{key}", f"a second SYNC run of the prepared session ended with {o_ref['status']}: "
                        f"{' '.join(str(o_ref.get('exc')).split())[-200:]} (the first SYNC run returned tables)", {"kind": "mp", "spec": r["spec"]})
            found = True
            continue
        base = canon_result(o_ref["result"])
        # THREADING (gated)
        for j, g in enumerate(r["gated"]):
            dist["threading_runs"] += 1
            n_eval += 1
            if len([rd for rd in g["rounds"] if len(rd["blocked"]) > 1]):
                rep.nontrivial(("t", r["spec"], [rd.get("released") for rd in g["rounds"]]))
            diverged = g["problem"] is None and (g["status"] != "ok" or g["same_as_sync"] is False)
            if g["problem"]:
                rep.finding(f"sched:{key}:{j}", f"gating scheduler: {g['problem']}", {"kind": "gated", "spec": r["spec"], **g})
                found = True
            elif diverged:
                dist["threading_diverged"] += 1
                sched = [rd.get("released") for rd in g["rounds"]]
                what = f"THREADING release order {sched}: " + ("result differs from SYNC" if g["status"] == "ok" else f"run {g['status']}: {g['exc']}")
                replay = {"kind": "gated", "spec": r["spec"], "schedule": sched}
                if planner_kf:
                    rep.finding("C06-planner-defect-domains", what, replay)
                elif i in conflicted and i in not_ip:
                    rep.finding("C06-unordered-conflicting-steps", what, replay)
                else:
                    if i in conflicted:
                        what += " [the unordered steps sharing an object were all observed to compute IN PLACE on different columns: conflict_free_ip holds, Props/C06inplace.v says every schedule must give the SYNC tables]"
                    rep.finding(f"threading:{key}:{sched}", what, replay)
                    found = True
        # MULTIPROCESSING (sampled)
        for k in range(max(n_mp, r["spec"].get("mp_runs", 0)) + (2 if r["spec"].get("delay_ms") else 0)):
            dist["mp_runs"] += 1
            n_eval += 1
            m = run_observed(sess, modes={ParallelizationMode.MULTIPROCESSING}, flight_server=fs, timeout=40)
            same = m["status"] == "ok" and canon_result(m["result"]) == base
            if same:
                dist["mp_same"] += 1
                if len(plan["steps"]) > 2:
                    rep.nontrivial(("m", r["spec"], k))
                continue
            dist["mp_diverged"] += 1
            what = "MULTIPROCESSING: " + ("result differs from SYNC" if m["status"] == "ok" else f"run {m['status']}: {str(m.get('exc'))[-160:]}")
            replay = {"kind": "mp", "spec": r["spec"]}
            if kf_mp_transform_non_arrow(plan):
                dist["mp_kf_transform"] += 1      # counted only: the finding is repaired (3c9d46c), the domain suppresses nothing
            if planner_kf:
                rep.finding("C06-planner-defect-domains", what, replay)
            elif i in conflicted_mp:
                rep.finding("C06-unordered-conflicting-steps", what, replay)
            else:
                rep.finding(f"mp:{key}", what, replay)
                found = True
    # ONE compute-framework object that publishes its table twice, a reader in another worker behind each upload (all pairs of
    # different frameworks): SYNC vs MULTIPROCESSING on fresh sessions + the observed uploads / downloads of the object's key replayed
    # against the store protocol model (harness/c06store.py, Props/C06store.v)
    from harness import c06store
    st_found, st_n, st_dist = c06store.check(rep, big, rng, fs)
    found |= st_found
    n_eval += st_n
    dist["two_uploads_store_protocol"] = st_dist
    # the Flight store as MULTIPROCESSING uses it: replacing a key is atomic for concurrent readers (harness/flight_atomic.py)
    from harness import flight_atomic
    fa = flight_atomic.check(40 if big else 12)
    for p_ in fa:
        rep.finding(f"flight-atomic:{p_[:100]}", "Flight store: " + p_, {"kind": "flight-atomic", "problem": p_})
        found = True
    dist["flight_store_atomicity"] = {"problems": len(fa), **getattr(flight_atomic.check, "stats", {})}
    n_eval += getattr(flight_atomic.check, "stats", {}).get("gets", 0)
    # WIDE requests: many independent sources, i.e. many compute-framework objects / worker processes at once (more than twice the
    # number of CPUs): every mode must end and return the same tables (termination for every plan: C04_no_deadlock)
    import os as _os
    for n_wide in ([max(40, 2 * (_os.cpu_count() or 8) + 8), 72] if big else [max(40, 2 * (_os.cpu_count() or 8) + 8)]):
        wspec = {"groups": [{"name": f"R{i}", "kind": "root", "cfw": ["PyArrowTable", "PandasDataFrame", "PythonDictFramework"][i % 3],
                             "cols": {f"w{i}": [i, i + 1, 2 * i]}} for i in range(n_wide)],
                 "request": [f"w{i}" for i in range(n_wide)], "family": "wide"}
        wres: Dict[str, Any] = {}
        for mname, mode in (("SYNC", ParallelizationMode.SYNC), ("THREADING", ParallelizationMode.THREADING),
                            ("MULTIPROCESSING", ParallelizationMode.MULTIPROCESSING)):
            wuni = Universe(wspec, GateListener())
            kw_ = {"flight_server": fs} if mname == "MULTIPROCESSING" else {}
            wo = run_observed(wuni.prepare(), modes={mode}, timeout=90, **kw_)
            n_eval += 1
            wres[mname] = (wo["status"], canon_result(wo["result"]) if wo["status"] == "ok" else str(wo.get("exc"))[-160:])
            wuni.dispose()
        rep.nontrivial(("wide", n_wide))
        dist.setdefault("wide_requests", []).append({"sources": n_wide, **{k: v[0] for k, v in wres.items()}})
        for mname in ("THREADING", "MULTIPROCESSING"):
            if wres["SYNC"][0] == "ok" and wres[mname] != wres["SYNC"]:
                rep.finding(f"wide:{n_wide}:{mname}", f"request over {n_wide} independent sources ({n_wide} compute-framework objects): {mname} "
                            f"{'did not return within 90 s' if wres[mname][0] == 'hang' else 'ended with ' + wres[mname][0]}"
                            f"{'' if wres[mname][0] != 'ok' else ' and other tables than SYNC'} (SYNC returned {n_wide} tables)",
                            {"kind": "wide", "spec": wspec, "mode": mname, "outcome": wres[mname][0]})
                found = True
        if wres["SYNC"][0] != "ok":
            rep.finding(f"wide:{n_wide}:SYNC", f"request over {n_wide} independent sources: SYNC run {wres['SYNC']}", {"kind": "wide", "spec": wspec})
            found = True
    # one polymorphic Link used by two concrete pairs: SYNC vs gated THREADING (harness/polylink.py; recorded finding)
    from harness import polylink
    found |= polylink.check(rep, "C06")
    n_eval += 2
    stop_flight_server()
    rq_probs, rq_case = worker_proto.requeue_case_result(requeue_procs, "C06")
    for p_ in rq_probs:
        rep.finding(f"requeue-timeout:{p_[:100]}", "MULTIPROCESSING, three unordered steps on one worker (a result put back during a drop-"
                    "acknowledgement wait that times out): " + p_, rq_case)
        found = True
    dist["requeue_timeout_witness"] = {"problems": len(rq_probs), "exercised": rq_case.get("exercised")}
    n_eval += 1
    for k in bad_gated[:5]:
        i, j = gated_idx[k]
        rep.finding(f"gated-model:{json.dumps(recs[i]['spec'], sort_keys=True)}:{j}",
                    "gated THREADING history is not a history of the orchestrator model", {"kind": "gated", "spec": recs[i]["spec"], **recs[i]["gated"][j]})
        found = True
    rep.count(n_eval)
    rep.add("distribution", dist)
    rep.add("gated_model", {**ginfo, "histories": len(gated_terms), "disagreements": len(bad_gated)})
    rep.add("traces_validated_against_impl", len(gated_terms))
    rep.add("rule", "request DAGs as in C01; per spec: SYNC reference, n gated THREADING runs with PRNG release order, k "
                    "MULTIPROCESSING runs against one long-lived Flight server; multisets of result tables compared. non-trivial = "
                    "a gated run with >= 2 concurrently enabled steps, or an MP run of a plan with > 2 steps. Families of unordered in-place "
                    "siblings (styles inplace / series, on Pandas or PythonDict) under one consumer: EVERY finish order of the siblings")
    if recs:
        rep.sample({"spec": recs[0]["spec"], "gated": [[rd.get("released") for rd in g["rounds"]] for g in recs[0]["gated"]]})
    if not pr.ok and not found:
        rep.finding("proof-broken", "Props/C06.v no longer checks",
                    {"failed_files": pr.failed_files, "forbidden": pr.forbidden, "log_tail": pr.log[-3000:]}, found_input=False)


def replay(path: str) -> int:
    from harness import c01
    r = json.load(open(path))["replay"]
    if r.get("kind") == "worker_proto":
        from harness import worker_proto
        return worker_proto.replay_main(r, "C06")
    if r.get("kind") == "polylink":
        from harness import polylink
        return polylink.replay(r)
    if r.get("kind") == "flight-atomic":
        from harness import flight_atomic
        print(flight_atomic.check(20))
        stop_flight_server()
        return 0
    if r.get("kind") == "two_uploads":
        from harness import c06store
        return c06store.replay(r)
    if r.get("kind") == "gated":
        return c01.replay(path)
    from mloda.user import ParallelizationMode
    install()
    uni = Universe(r["spec"], GateListener())
    sess = uni.prepare()
    base = run_observed(sess)
    m = run_observed(sess, modes={ParallelizationMode.MULTIPROCESSING}, flight_server=flight_server(), timeout=40)
    print("SYNC:", base["status"], "MP:", m["status"], str(m.get("exc"))[-300:] if m["status"] == "raised" else "",
          "same:", m["status"] == "ok" and base["status"] == "ok" and canon_result(m["result"]) == canon_result(base["result"]))
    stop_flight_server()
    return 0
