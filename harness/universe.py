"""Generated plug-in universes shared by the orchestrator-level properties (C01, C02, C04, C05, C06, C08, C09, C13).

A *spec* is plain JSON (so that replays are self-contained):
  {"groups": [
      {"name": "R0", "kind": "root", "cfw": "PyArrowTable", "cols": {"a": [1,2,3], "k": [1,2,3]}, "index": ["k"]?},
      {"name": "D0", "kind": "derived", "cfw": "PyArrowTable" | null, "cfws": ["PyArrowTable", "PandasDataFrame"]?,   (cfws: the group admits several frameworks)
       "features": {"f": {"inputs": ["a", "b"], "c0": 1, "coefs": [1, 2], "opt": {"g": 1}?}},
       "style": "copy" | "inplace" | "series"?}],        (result style of the group; default: spec["inplace"] ? "inplace" : "copy")
   "request": [{"name": "f", "opt": {..}?, "type": "INT64"?}, ...],
   "links": [{"jt": "INNER", "l": "R0", "r": "R1", "li": ["k"], "ri": ["k"]}]}

Derived features are integer functions  c0 + sum(coef_i * input_i)  of their input columns, so that a reference
evaluation is trivial and deterministic.  Every calculation is reported to the Universe's listener (trace, gating,
fault injection).  Classes are registered in the module harness.dynclasses so that worker processes can unpickle them.
"""
from __future__ import annotations

import sys
import threading
import types
from typing import Any, Callable, Dict, List, Optional, Set, Tuple

_dyn = sys.modules.get("harness.dynclasses")
if _dyn is None:
    _dyn = types.ModuleType("harness.dynclasses")
    sys.modules["harness.dynclasses"] = _dyn

_counter = [0]


def cfw_class(name: str) -> Any:
    if name == "PyArrowTable":
        from mloda_plugins.compute_framework.base_implementations.pyarrow.table import PyArrowTable
        return PyArrowTable
    if name == "PandasDataFrame":
        from mloda_plugins.compute_framework.base_implementations.pandas.dataframe import PandasDataFrame
        return PandasDataFrame
    if name == "PythonDictFramework":
        from mloda_plugins.compute_framework.base_implementations.python_dict.python_dict_framework import PythonDictFramework
        return PythonDictFramework
    raise KeyError(name)


def load_transformers() -> None:
    import mloda_plugins.compute_framework.base_implementations.python_dict.python_dict_pyarrow_transformer  # noqa: F401
    import mloda_plugins.compute_framework.base_implementations.pandas.pandaspyarrowtransformer  # noqa: F401


def columns_of(data: Any) -> List[str]:
    if hasattr(data, "column_names"):
        return list(data.column_names)
    if hasattr(data, "columns"):
        return [str(c) for c in data.columns]
    if isinstance(data, list):
        return list(data[0].keys()) if data else []
    if isinstance(data, dict):
        return list(data.keys())
    return []


def column_values(data: Any, name: str, tolerant: bool = False) -> List[Any]:
    """tolerant: python-dict rows that do not bind `name` count as null (appended rows of the other source); never used for
    the join families, where a missing column must surface as a failure"""
    if tolerant and isinstance(data, list):
        return [r.get(name) for r in data]
    if hasattr(data, "column_names"):
        return data.column(name).to_pylist()
    if hasattr(data, "columns"):
        return [None if (v != v) else (v.item() if hasattr(v, "item") else v) for v in data[name].tolist()]
    if isinstance(data, list):
        return [r[name] for r in data]
    raise TypeError(type(data))


def nrows(data: Any) -> int:
    if hasattr(data, "num_rows"):
        return int(data.num_rows)
    if hasattr(data, "shape"):
        return int(data.shape[0])
    return len(data)


def with_columns(data: Any, new: Dict[str, List[Any]], inplace: bool = False) -> Any:
    """data (native) + new columns, in the same native type.  inplace: the incoming pandas frame / list of row dicts is
    extended in place and returned (what mloda's built-in pandas and python-dict feature groups do); pyarrow tables are
    immutable."""
    if inplace and hasattr(data, "columns") and not hasattr(data, "column_names"):
        for k, v in new.items():
            data[k] = v
        return data
    if inplace and isinstance(data, list):
        for i, r in enumerate(data):
            for k, v in new.items():
                r[k] = v[i]
        return data
    if hasattr(data, "column_names"):
        import pyarrow as pa
        for k, v in new.items():
            data = data.append_column(k, pa.array(v))
        return data
    if hasattr(data, "columns"):
        d = data.copy()
        for k, v in new.items():
            d[k] = v
        return d
    if isinstance(data, list):
        out = []
        for i, r in enumerate(data):
            rr = dict(r)
            for k, v in new.items():
                rr[k] = v[i]
            out.append(rr)
        return out
    raise TypeError(type(data))


def native_table(cfw: str, cols: Dict[str, List[Any]]) -> Any:
    if cfw == "PyArrowTable":
        import pyarrow as pa
        return pa.table({k: pa.array(v) for k, v in cols.items()})
    if cfw == "PandasDataFrame":
        import pandas as pd
        return pd.DataFrame(cols)
    n = len(next(iter(cols.values()))) if cols else 0
    return [{k: v[i] for k, v in cols.items()} for i in range(n)]


def table_rows(data: Any) -> List[Dict[str, Any]]:
    if isinstance(data, list):
        return [dict(r) for r in data]       # python-dict rows as they are (a row need not bind every column; null = absent downstream)
    cols = columns_of(data)
    vals = {c: column_values(data, c) for c in cols}
    return [{c: vals[c][i] for c in cols} for i in range(nrows(data))]


class Listener:
    """Receives every calculation: on_enter(group, names, incoming_columns) / on_exit(group, names)."""

    def on_enter(self, group: str, names: List[str], cols: List[str], data: Any, features: Any = None) -> None:  # pragma: no cover
        pass

    def on_exit(self, group: str, names: List[str]) -> None:  # pragma: no cover
        pass


class TraceListener(Listener):
    def __init__(self) -> None:
        self.events: List[Tuple[str, str, Tuple[str, ...], Tuple[str, ...]]] = []
        self._lock = threading.Lock()

    def on_enter(self, group: str, names: List[str], cols: List[str], data: Any, features: Any = None) -> None:
        with self._lock:
            self.events.append(("enter", group, tuple(sorted(names)), tuple(sorted(cols))))

    def on_exit(self, group: str, names: List[str]) -> None:
        with self._lock:
            self.events.append(("exit", group, tuple(sorted(names)), ()))


class Universe:
    def __init__(self, spec: Dict[str, Any], listener: Optional[Listener] = None) -> None:
        _counter[0] += 1
        self.tag = f"U{_counter[0]}"
        self.spec = spec
        self.listener: Listener = listener or Listener()
        self.classes: Dict[str, type] = {}
        self.feature_group_of: Dict[str, str] = {}
        self.fail: Set[Tuple[str, str]] = set()          # (group, feature) -> raise in calculate_feature
        self.fail_exc: Any = RuntimeError                # class of the injected calculation fault (ConnectionError, TimeoutError, ...)
        self.fail_once: Set[Tuple[str, str]] = set()     # transient fault: raise only the FIRST time that calculation is executed
        self.fail_once_hits: Dict[Tuple[str, str], int] = {}   # executions of a fail_once calculation that reached the fault point
        self.fail_validate_in: Set[str] = set()
        self.fail_validate_out: Set[str] = set()
        for g in spec["groups"]:
            self.classes[g["name"]] = self._make_group(g)
            for f in (g["cols"] if g["kind"] in ("root", "api") else g["features"]):
                self.feature_group_of.setdefault(f, g["name"])

    # -- class construction -------------------------------------------------------------------------------
    def _make_group(self, g: Dict[str, Any]) -> type:
        from mloda.provider import FeatureGroup, DataCreator
        from mloda.user import Feature, Index
        uni = self
        gname = g["name"]
        cfw = g.get("cfw")
        ns: Dict[str, Any] = {}

        if g.get("cfws"):
            # the group ADMITS several frameworks ("cfws"; "cfw" then only names the framework the spec expects it to be planned
            # on): the planner picks one; the generated calculations work on whatever native table they are handed
            def compute_framework_rule(cls: Any, _cs: Any = tuple(g["cfws"])) -> Any:
                return {cfw_class(c) for c in _cs}
            ns["compute_framework_rule"] = classmethod(compute_framework_rule)
        elif cfw:
            def compute_framework_rule(cls: Any, _c: str = cfw) -> Any:
                return {cfw_class(_c)}
            ns["compute_framework_rule"] = classmethod(compute_framework_rule)

        if g.get("index"):
            def index_columns(cls: Any, _i: Any = g["index"]) -> Any:
                return [Index(tuple(_i))]
            ns["index_columns"] = classmethod(index_columns)

        def validate_input_features(cls: Any, data: Any, features: Any) -> Any:
            if gname in uni.fail_validate_in:
                return False
            return None

        def validate_output_features(cls: Any, data: Any, features: Any) -> Any:
            if gname in uni.fail_validate_out:
                return False
            return None
        ns["validate_input_features"] = classmethod(validate_input_features)
        ns["validate_output_features"] = classmethod(validate_output_features)

        if g["kind"] == "api":
            from mloda.provider import ApiData as _ApiInputData
            cols = g["cols"]

            def input_data(cls: Any) -> Any:
                return _ApiInputData()

            def calculate_feature(cls: Any, data: Any, features: Any) -> Any:
                names = sorted(f.get_name() for f in features.features)
                uni.listener.on_enter(gname, names, [], None, features)
                for n in names:
                    if uni.should_fail(gname, n):
                        raise uni.fail_exc(f"VERIF-FAULT calc {gname}.{n}")
                out = native_table(uni._cfw_name_of(cls, features), {k: list(v) for k, v in data.items()})
                uni.listener.on_exit(gname, names)
                return out
            ns["input_data"] = classmethod(input_data)
            ns["calculate_feature"] = classmethod(calculate_feature)
        elif g["kind"] == "root":
            cols = g["cols"]

            def input_data(cls: Any, _cols: Any = cols) -> Any:
                return DataCreator(set(_cols.keys()))

            def calculate_feature(cls: Any, data: Any, features: Any, _cols: Any = cols) -> Any:
                names = sorted(f.get_name() for f in features.features)
                uni.listener.on_enter(gname, names, [], None, features)
                for n in names:
                    if uni.should_fail(gname, n):
                        raise uni.fail_exc(f"VERIF-FAULT calc {gname}.{n}")
                if g.get("delay_ms"):
                    import time as _t
                    _t.sleep(g["delay_ms"] / 1000.0)       # a slow source: everything that needs it is a LATE reader of the other data
                if g.get("cols_by_opt"):
                    # option-dependent source data: the option group of the step selects the table
                    val = next(iter(features.features)).options.get(g["opt_key"])
                    _cols = g["cols_by_opt"][str(val)]
                out = native_table(uni._cfw_name_of(cls, features), _cols)
                uni.listener.on_exit(gname, names)
                return out
            ns["input_data"] = classmethod(input_data)
            ns["calculate_feature"] = classmethod(calculate_feature)
        else:
            feats = g["features"]

            def match_feature_group_criteria(cls: Any, feature_name: Any, options: Any, data_access_collection: Any = None,
                                             _f: Any = feats) -> bool:
                n = feature_name.name if hasattr(feature_name, "name") else str(feature_name)
                return n in _f

            def input_features(self: Any, options: Any, feature_name: Any, _f: Any = feats) -> Any:
                n = feature_name.name if hasattr(feature_name, "name") else str(feature_name)
                res = set()
                for i in _f[n]["inputs"]:
                    iopt = _f[n].get("input_opt", {}).get(i)
                    iidx = _f[n].get("input_index", {}).get(i)        # APPEND / UNION links find their sides by the input features' index
                    kw = {"index": Index(tuple(iidx))} if iidx else {}
                    res.add(Feature(i, options=dict(iopt), **kw) if iopt else Feature(i, **kw))
                return res

            def calculate_feature(cls: Any, data: Any, features: Any, _f: Any = feats) -> Any:
                names = sorted(f.get_name() for f in features.features)
                uni.listener.on_enter(gname, names, columns_of(data), data, features)
                if uni.spec.get("delay_ms") or g.get("delay_ms"):
                    import time as _t
                    _t.sleep((g.get("delay_ms") or uni.spec["delay_ms"]) / 1000.0)
                new: Dict[str, List[Any]] = {}
                n_rows = nrows(data)
                for n in names:
                    if uni.should_fail(gname, n):
                        raise uni.fail_exc(f"VERIF-FAULT calc {gname}.{n}")
                    d = _f[n]
                    vals = [d["c0"]] * n_rows
                    for coef, inp in zip(d["coefs"], d["inputs"]):
                        col = column_values(data, inp, bool(uni.spec.get("tolerant")))
                        vals = [None if (a is None or b is None) else a + coef * b for a, b in zip(vals, col)]
                    new[n] = vals
                # result style of the group: "copy" (a new table: replacing), "inplace" (the incoming pandas frame / python-dict
                # rows are extended and returned), "series" (pandas, exactly one new column: a pd.Series named like the feature,
                # which PandasDataFrame.transform inserts into the frame the object holds; otherwise as "inplace")
                style = g.get("style") or ("inplace" if uni.spec.get("inplace") else "copy")
                if style == "series" and len(new) == 1 and hasattr(data, "columns") and not hasattr(data, "column_names"):
                    import pandas as _pd
                    (k1, v1), = new.items()
                    out = _pd.Series(v1, name=k1, index=data.index, dtype=(object if any(x is None for x in v1) else None))
                else:
                    out = with_columns(data, new, inplace=style in ("inplace", "series"))
                uni.listener.on_exit(gname, names)
                return out
            ns["match_feature_group_criteria"] = classmethod(match_feature_group_criteria)
            ns["input_features"] = input_features
            ns["calculate_feature"] = classmethod(calculate_feature)

        cname = f"{self.tag}_{gname}"
        cls = type(cname, (FeatureGroup,), ns)
        cls.__module__ = "harness.dynclasses"
        cls.__qualname__ = cname
        setattr(_dyn, cname, cls)
        return cls

    @staticmethod
    def _cfw_name_of(cls: Any, features: Any) -> str:
        f = next(iter(features.features))
        return f.get_compute_framework().__name__

    # -- request helpers ----------------------------------------------------------------------------------
    def features(self) -> List[Any]:
        from mloda.user import Feature
        from mloda.core.abstract_plugins.components.data_types import DataType
        out = []
        for r in self.spec["request"]:
            if isinstance(r, str):
                r = {"name": r}
            dt = DataType[r["type"]] if r.get("type") else None
            out.append(Feature(r["name"], options=dict(r.get("opt") or {}), data_type=dt))
        return out

    def links(self) -> Optional[Set[Any]]:
        from mloda.user import Link, JoinSpec
        from mloda.core.abstract_plugins.components.link import JoinType
        ls = self.spec.get("links") or []
        if not ls:
            return None
        return {Link(JoinType[l["jt"]], JoinSpec(self.classes[l["l"]], tuple(l["li"])),
                     JoinSpec(self.classes[l["r"]], tuple(l["ri"]))) for l in ls}

    def frameworks(self) -> Set[Any]:
        names = {g.get("cfw") for g in self.spec["groups"] if g.get("cfw")} | set(self.spec.get("api_frameworks") or [])
        names |= {c for g in self.spec["groups"] for c in (g.get("cfws") or [])}
        if not names:
            names = {"PyArrowTable"}
        return {cfw_class(n) for n in names}

    def collector(self) -> Any:
        from mloda.user import PluginCollector
        return PluginCollector.enabled_feature_groups(set(self.classes.values()))

    def group_display(self, cls: type) -> str:
        n = cls.__name__
        return n.split("_", 1)[1] if n.startswith(self.tag + "_") else n

    def should_fail(self, gname: str, n: str) -> bool:
        if (gname, n) in self.fail:
            return True
        if (gname, n) in self.fail_once:
            k = self.fail_once_hits.get((gname, n), 0)
            self.fail_once_hits[(gname, n)] = k + 1
            return k == 0
        return False

    def api_data(self) -> Optional[Dict[str, Dict[str, Any]]]:
        d = {g["key"]: {k: list(v) for k, v in g["cols"].items()} for g in self.spec["groups"] if g["kind"] == "api"}
        # decoy keys listed AFTER the real ones: further api data keys that repeat column names of a real key with other
        # values (the first key providing a column is the one mloda binds it to) and may add unrelated columns
        for dk in self.spec.get("api_decoys") or []:
            d[dk["key"]] = {k: list(v) for k, v in dk["cols"].items()}
        return d or None

    def prepare(self, **kw: Any) -> Any:
        from mloda.user import mloda
        load_transformers()
        if "api_data" not in kw and self.api_data() is not None:
            kw["api_data"] = self.api_data()
        return mloda.prepare(self.features(), compute_frameworks=self.frameworks(), links=self.links(),
                             plugin_collector=self.collector(), **kw)

    def run_all(self, modes: Optional[Set[Any]] = None, **kw: Any) -> Any:
        from mloda.user import mloda, ParallelizationMode
        load_transformers()
        if "api_data" not in kw and self.api_data() is not None:
            kw["api_data"] = self.api_data()
        return mloda.run_all(self.features(), compute_frameworks=self.frameworks(), links=self.links(),
                             plugin_collector=self.collector(),
                             parallelization_modes=modes or {ParallelizationMode.SYNC}, **kw)

    def dispose(self) -> None:
        for c in self.classes.values():
            try:
                delattr(_dyn, c.__name__)
            except AttributeError:
                pass


# ------------------------------------------------------------------------------------------------------------
# reference evaluation in Python (used for quick judging; the oracle of record is the Coq spec)
# ------------------------------------------------------------------------------------------------------------

def ref_eval_single_root(spec: Dict[str, Any]) -> Dict[str, List[Any]]:
    """All features reachable when every root has the same number of rows and no join is needed (Stage A)."""
    vals: Dict[str, List[Any]] = {}
    for g in spec["groups"]:
        if g["kind"] in ("root", "api"):
            for k, v in g["cols"].items():
                vals.setdefault(k, list(v))
    changed = True
    while changed:
        changed = False
        for g in spec["groups"]:
            if g["kind"] != "derived":
                continue
            for n, d in g["features"].items():
                if n in vals or any(i not in vals for i in d["inputs"]):
                    continue
                n_rows = len(vals[d["inputs"][0]])
                out = [d["c0"]] * n_rows
                for coef, inp in zip(d["coefs"], d["inputs"]):
                    out = [None if (a is None or b is None) else a + coef * b for a, b in zip(out, vals[inp])]
                vals[n] = out
                changed = True
    return vals


# ------------------------------------------------------------------------------------------------------------
# plan export (T3 / model input): steps with renamed uuids
# ------------------------------------------------------------------------------------------------------------

def export_plan(session: Any, uni: Optional[Universe] = None) -> Dict[str, Any]:
    from mloda.core.core.step.feature_group_step import FeatureGroupStep
    from mloda.core.core.step.join_step import JoinStep
    from mloda.core.core.step.transform_frame_work_step import TransformFrameworkStep
    ren: Dict[Any, int] = {}

    def r(u: Any) -> int:
        if u not in ren:
            ren[u] = len(ren) + 1
        return ren[u]

    steps = []
    plan = list(session.engine.execution_planner)
    # first pass: produced uuids get small numbers in plan order (stable naming)
    for st in plan:
        if isinstance(st, FeatureGroupStep):
            for f in sorted(st.features.features, key=lambda f: (f.get_name(), str(sorted(f.options.group.items(), key=str)), str(f.data_type))):
                r(f.uuid)
        elif isinstance(st, JoinStep):
            r(st.uuid)
            r(st.link.uuid)
        else:
            r(st.uuid)
    for i, st in enumerate(plan):
        # req_order / tfs_order: the iteration order of the real set objects (what `for x in step.required_uuids` sees)
        d: Dict[str, Any] = {"sid": i, "req": sorted(r(u) for u in st.required_uuids), "req_order": [r(u) for u in st.required_uuids]}
        if isinstance(st, FeatureGroupStep):
            feats = sorted(st.features.features, key=lambda f: r(f.uuid))
            d.update(kind="FG", uuids=[r(f.uuid) for f in feats],
                     group=(uni.group_display(st.feature_group) if uni else st.feature_group.__name__),
                     names=[f.get_name() for f in feats],
                     requested=any(f.initial_requested_data for f in feats),
                     cfw=st.compute_framework.__name__,
                     children_if_root=sorted(r(u) for u in st.children_if_root),
                     tfs_ids=sorted(r(u) for u in st.tfs_ids), tfs_order=[r(u) for u in st.tfs_ids],
                     any_uuid=r(st.features.any_uuid) if st.features.any_uuid else None,
                     opts=[sorted((str(k), str(v)) for k, v in f.options.group.items()) for f in feats],
                     types=[f.data_type.name if f.data_type else None for f in feats])
        elif isinstance(st, JoinStep):
            d.update(kind="JOIN", uuids=[r(st.uuid), r(st.link.uuid)], jt=st.link.jointype.name,
                     left_cfw=st.left_framework.__name__, right_cfw=st.right_framework.__name__,
                     left_order=[r(u) for u in st.left_framework_uuids], right_order=[r(u) for u in st.right_framework_uuids],
                     left_uuids=sorted(r(u) for u in st.left_framework_uuids),
                     right_uuids=sorted(r(u) for u in st.right_framework_uuids),
                     link=[(uni.group_display(st.link.left_feature_group) if uni else st.link.left_feature_group.__name__),
                           list(st.link.left_index.index),
                           (uni.group_display(st.link.right_feature_group) if uni else st.link.right_feature_group.__name__),
                           list(st.link.right_index.index)], requested=False)
        elif isinstance(st, TransformFrameworkStep):
            d.update(kind="TFS", uuids=[r(st.uuid)], from_cfw=st.from_framework.__name__, to_cfw=st.to_framework.__name__,
                     from_group=(uni.group_display(st.from_feature_group) if uni else st.from_feature_group.__name__),
                     to_group=(uni.group_display(st.to_feature_group) if uni else st.to_feature_group.__name__),
                     link_id=r(st.link_id) if st.link_id else None, requested=False,
                     right_uuid=r(st.right_framework_uuid) if st.right_framework_uuid else None)
        steps.append(d)
    return {"steps": steps, "n_uuids": len(ren), "_ren": ren}


def canon_plan(p: Dict[str, Any]) -> Any:
    """Canonical, uuid-free description of a plan: steps as (kind, content, required content), order-insensitive."""
    desc: Dict[int, str] = {}
    for s in p["steps"]:
        if s["kind"] == "FG":
            for u, n, o, t in zip(s["uuids"], s["names"], s["opts"], s["types"]):
                desc[u] = f"F:{s['group']}:{n}:{o}:{t}"
        elif s["kind"] == "JOIN":
            desc[s["uuids"][0]] = f"J:{s['jt']}:{s['link']}:{s['left_cfw']}:{s['right_cfw']}"
            desc[s["uuids"][1]] = f"L:{s['jt']}:{s['link']}"
        else:
            desc[s["uuids"][0]] = f"T:{s['from_cfw']}>{s['to_cfw']}:{s['link_id'] is not None}"
    out = []
    for s in p["steps"]:
        me = sorted(desc.get(u, "?") for u in s["uuids"])
        rq = sorted(desc.get(u, f"DANGLING") for u in s["req"])
        extra = ""
        if s["kind"] == "FG":
            extra = f"{s['cfw']}|{sorted(desc.get(u, '?') for u in s['tfs_ids'])}"
        if s["kind"] == "JOIN":
            extra = f"{sorted(desc.get(u, '?') for u in s['left_uuids'])}|{sorted(desc.get(u, '?') for u in s['right_uuids'])}"
        out.append((s["kind"], tuple(me), tuple(rq), extra))
    return sorted(out)


# ------------------------------------------------------------------------------------------------------------
# known-defect domains of the planner / data plane, as decidable predicates over an exported plan
# ------------------------------------------------------------------------------------------------------------

def _producers(p: Dict[str, Any]) -> Dict[int, Dict[str, Any]]:
    return {u: s for s in p["steps"] for u in s["uuids"]}


def _wait_closure(p: Dict[str, Any], s: Dict[str, Any]) -> Set[int]:
    prod = _producers(p)
    seen: Set[int] = set()
    todo = [s]
    while todo:
        x = todo.pop()
        for u in x["req"]:
            y = prod.get(u)
            if y is not None and y["sid"] not in seen:
                seen.add(y["sid"])
                todo.append(y)
    return seen


def kf_tfs_partial_requirement(p: Dict[str, Any]) -> List[Tuple[int, int, int]]:
    """(tfs sid, consumer sid, uuid): a consumer of the transform's target group needs a column produced on the
    transform's source framework/group which the transform step does not (transitively) wait for."""
    prod = _producers(p)
    out = []
    for t in p["steps"]:
        if t["kind"] != "TFS" or t.get("link_id") is not None:
            continue
        tw = _wait_closure(p, t)
        for c in p["steps"]:
            if c["kind"] != "FG" or c["cfw"] != t["to_cfw"] or c["group"] != t["to_group"]:
                continue
            for u in c["req"]:
                x = prod.get(u)
                if x is None or x["kind"] != "FG":
                    continue
                if x["cfw"] == t["from_cfw"] and x["sid"] not in tw and c["sid"] not in _wait_closure(p, x):
                    # x must be part of the data the transform copies: same source object lineage
                    out.append((t["sid"], c["sid"], u))
    return out


def kf_framework_roundtrip(p: Dict[str, Any]) -> List[Tuple[int, int]]:
    """(consumer sid, other sid): the registry lookup CfwManager.get_cfw_uuid(class name, feature uuid) is ambiguous for a
    consumer of a transform step: besides the object made by its transform step there is ANOTHER object of the same
    framework class whose children_if_root (copied from the common source) contain the consumer's lookup uuid - either an
    earlier feature-group object of that class (framework round trip A -> B -> A) or the object of a second transform step
    into the same class (two group pairs converting the same source).  The first registered object wins."""
    out = []
    for c in p["steps"]:
        if c["kind"] != "FG" or not c["tfs_ids"]:
            continue
        wc = _wait_closure(p, c)
        for r in p["steps"]:
            if r is c:
                continue
            if r["kind"] == "FG" and r["cfw"] == c["cfw"] and c["any_uuid"] in r["children_if_root"] and r["sid"] in wc:
                out.append((c["sid"], r["sid"]))
            if r["kind"] == "TFS" and r["to_cfw"] == c["cfw"] and r["uuids"][0] not in c["req"] and r.get("link_id") is None:
                # the object made by r copies the children of r's source object: ambiguous only if they contain c's lookup uuid
                prod = _producers(p)
                srcs = [prod[u] for u in r["req"] if u in prod and prod[u]["kind"] == "FG"]
                if any(c["any_uuid"] in x.get("children_if_root", []) for x in srcs):
                    out.append((c["sid"], r["sid"]))
    return out


def kf_tfs_missing(p: Dict[str, Any]) -> List[Tuple[int, int]]:
    """(consumer sid, uuid): an FG step requires a feature produced on another framework, but no transform step from that
    framework to its own is among its requirements (ExecutionPlan.add_tfs only inspects the parents of ONE feature of the
    step, features.any_uuid)."""
    prod = _producers(p)
    out = []
    for c in p["steps"]:
        if c["kind"] != "FG":
            continue
        tfs_from = {prod[u]["from_cfw"] for u in c["req"] if u in prod and prod[u]["kind"] == "TFS" and prod[u]["to_cfw"] == c["cfw"]}
        joined = any(u in prod and prod[u]["kind"] == "JOIN" for u in c["req"])
        for u in c["req"]:
            x = prod.get(u)
            if x is None or x["kind"] != "FG" or x["cfw"] == c["cfw"] or joined:
                continue
            if x["cfw"] not in tfs_from:
                out.append((c["sid"], u))
    return out
