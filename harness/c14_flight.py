"""C14 family "the Flight round trip of a compute framework's dataset follows the CURRENT data".

MULTIPROCESSING moves a dataset between frameworks as  ComputeFramework.upload_table (own format -> pa.Table -> Flight store)  ->
FlightServer.download_table  ->  convert_flyserver_data_back (pa.Table -> the reader's format).  One compute-framework OBJECT
uploads several times during a run (after every step with requested features) and its data changes between the uploads, in
place (a pd.Series feature inserted into the held frame; python-dict rows extended; nulls filled) or by replacement.

Histories of  mutate / upload+download  operations on ONE object per base framework; after every round trip the rows the
reader gets must be the rows the object holds NOW (conversion is a function of the current value, not of the object's identity or
of an earlier upload) - compared as canonical rows (null = NaN = absent) with the value model's `pres` convention of harness/c14_values.
The conversions themselves are modelled in coq/Model/ValueConv.v (Props/C14val.v: forward / round-trip theorems for every table);
this family ties the STATELESSNESS assumption of that model (a conversion has no memory) to upload_table.
"""
from __future__ import annotations

import math
import random
from typing import Any, Dict, List, Tuple


def _canon_cell(v: Any) -> Any:
    if v is None:
        return None
    try:
        if isinstance(v, float) and math.isnan(v):
            return None
        if v != v:
            return None
    except Exception:  # noqa: BLE001
        return None
    if isinstance(v, float) and v == int(v) and abs(v) < 2 ** 53:
        return int(v)
    if hasattr(v, "item"):
        try:
            return _canon_cell(v.item())
        except Exception:  # noqa: BLE001
            pass
    return v


def _rows(data: Any) -> List[Tuple[Tuple[str, Any], ...]]:
    from harness.universe import table_rows
    out = []
    for r in table_rows(data):
        out.append(tuple(sorted((k, _canon_cell(v)) for k, v in r.items() if _canon_cell(v) is not None)))
    return sorted(out, key=repr)


def _make(fw: str, cols: Dict[str, List[Any]]) -> Any:
    import pandas as pd
    import pyarrow as pa
    if fw == "PandasDataFrame":
        return pd.DataFrame({k: list(v) for k, v in cols.items()})
    if fw == "PyArrowTable":
        return pa.table({k: list(v) for k, v in cols.items()})
    n = len(next(iter(cols.values())))
    return [{k: cols[k][i] for k in cols} for i in range(n)]


def _mutate(fw: str, data: Any, op: Tuple[str, str, List[Any]]) -> Any:
    """op = (kind, column, values): 'add' a column / 'set' a column's values.  Pandas and PythonDict mutate IN PLACE (the object the
    framework holds stays the same object); PyArrow tables are immutable: the object gets a new table."""
    import pyarrow as pa
    kind, col, vals = op
    if fw == "PandasDataFrame":
        data[col] = list(vals)                                 # in place
        return data
    if fw == "PythonDictFramework":
        for r, v in zip(data, vals):
            r[col] = v                                         # in place
        return data
    if col in data.column_names:
        return data.set_column(data.column_names.index(col), col, pa.array(list(vals)))
    return data.append_column(col, pa.array(list(vals)))


def check(seed: int, n_hist: int) -> Tuple[List[Dict[str, Any]], Dict[str, Any]]:
    """Returns (problems, counters)."""
    from uuid import uuid4
    from mloda.user import ParallelizationMode
    from mloda.core.runtime.flight.flight_server import FlightServer
    from mloda.core.abstract_plugins.components.framework_transformer.cfw_transformer import ComputeFrameworkTransformer
    from mloda_plugins.compute_framework.base_implementations.pandas.dataframe import PandasDataFrame
    from mloda_plugins.compute_framework.base_implementations.pyarrow.table import PyArrowTable
    from mloda_plugins.compute_framework.base_implementations.python_dict.python_dict_framework import PythonDictFramework
    from harness.orch import flight_server
    from harness.universe import load_transformers
    load_transformers()
    loc = flight_server().get_location()
    rng = random.Random(seed * 77 + 14)
    classes = {"PandasDataFrame": PandasDataFrame, "PyArrowTable": PyArrowTable, "PythonDictFramework": PythonDictFramework}
    problems: List[Dict[str, Any]] = []
    info = {"histories": 0, "round_trips": 0, "in_place_mutations_between_uploads": 0, "by_framework": {}}
    for h in range(n_hist):
        fw = list(classes)[h % 3]
        reader = rng.choice(list(classes))
        n = rng.randrange(2, 5)
        cols: Dict[str, List[Any]] = {"a": [rng.randrange(-9, 99) for _ in range(n)]}
        if rng.random() < 0.5:
            cols["s"] = [rng.choice(["x", "y", "zz"]) for _ in range(n)]
        if rng.random() < 0.5 and fw != "PythonDictFramework":
            cols["nf"] = [rng.choice([None, 1.5, -2.25, 7.0]) for _ in range(n)]
            if all(v is None for v in cols["nf"]):
                cols["nf"][0] = 0.5
        cfw = classes[fw](ParallelizationMode.MULTIPROCESSING, frozenset(), uuid4())
        cfw.data = _make(fw, cols)
        hist: List[Any] = []
        key = None
        try:
            for step in range(rng.randrange(2, 5)):
                if step:
                    if rng.random() < 0.7:
                        op = ("add", f"c{step}", [rng.randrange(0, 50) for _ in range(n)])
                    else:
                        tgt = rng.choice([c for c in cols if c != "s"])
                        op = ("set", tgt, [rng.randrange(100, 150) for _ in range(n)])
                    cfw.data = _mutate(fw, cfw.data, op)
                    hist.append(op)
                    info["in_place_mutations_between_uploads"] += int(fw != "PyArrowTable")
                key = cfw.upload_table(loc, cfw.uuid)
                hist.append(("upload",))
                got = FlightServer.download_table(loc, key)
                back = classes[reader].convert_flyserver_data_back(got, ComputeFrameworkTransformer())
                info["round_trips"] += 1
                want_rows, got_rows = _rows(cfw.data), _rows(back)
                if want_rows != got_rows:
                    problems.append({"kind": "flight_roundtrip", "framework": fw, "reader": reader, "initial": cols, "history": hist[:],
                                     "held_now": want_rows, "reader_got": got_rows,
                                     "what": f"{fw} object, upload #{sum(1 for x in hist if x == ('upload',))} after {hist[:-1]}: the reader "
                                             f"({reader}) got {got_rows} but the object holds {want_rows}"})
                    break
        except Exception as e:  # noqa: BLE001
            problems.append({"kind": "flight_roundtrip", "framework": fw, "reader": reader, "initial": cols, "history": hist[:],
                             "what": f"{fw} object, history {hist}: {type(e).__name__}: {str(e)[-160:]}"})
        finally:
            if key is not None:
                try:
                    FlightServer.drop_tables(loc, {key})
                except Exception:  # noqa: BLE001
                    pass
        info["histories"] += 1
        info["by_framework"][fw] = info["by_framework"].get(fw, 0) + 1
    return problems, info
