"""C05 — a consumer of several sources sees exactly the join its Links describe.

Spec: coq/Spec/Rel.v (rel_join; shared with C12) and the join algebra in coq/Props/C05.v / C05alg.v.
End to end on the real mloda: generated root groups (one table each) + Links + a consumer group whose calculation records
the rows it receives.  Oracle: rel_join evaluated in Coq (vm_compute) on the same source tables with the Link's join type,
key columns and left/right roles; for several links every admissible application order is computed in Coq and the
observation must be one of them (for inner-join trees they coincide - theorem).
  two-way   all join types x equal / different key names x framework of each source and of the consumer x PRNG tables
            with unique non-null keys (overlapping / disjoint); duplicate and null keys are C12's subject
  n-way     chains and stars of 3-4 sources with inner links (order independence), same key name
Known-defect domains are decidable predicates on the request (join type, key names, framework relation); inside them
the observation must equal the recorded defect class or the spec, everything else is a violation.
"""
from __future__ import annotations

import itertools
import json
import logging
import random
from typing import Any, Dict, List, Optional, Tuple

from lib import vlib
from lib.vlib import cq_list, cq_nat, cq_str, cq_z
from harness.universe import Universe, table_rows, export_plan
from harness.orch import GateListener, run_observed, install

LEVEL = "proof"
logging.disable(logging.CRITICAL)
REQ = ["MV.Spec.Rel"]
CF = ["PyArrowTable", "PandasDataFrame", "PythonDictFramework"]

EXTRA = """
(* tables, links (jt, left table index, right table index, left keys, right keys), application orders, observed rows *)
Definition comp := (list nat * table)%type.
Definition find_comp (cs : list comp) (i : nat) : option comp := find (fun c => existsb (Nat.eqb i) (fst c)) cs.
Definition apply_link (cs : list comp) (l : jointype * nat * nat * list col * list col) : list comp :=
  match l with (jt, a, b, lk, rk) =>
    match find_comp cs a, find_comp cs b with
    | Some ca, Some cb =>
      if existsb (Nat.eqb b) (fst ca) then cs
      else (fst ca ++ fst cb, rel_join jt lk rk (snd ca) (snd cb))
           :: filter (fun c => negb (existsb (Nat.eqb a) (fst c)) && negb (existsb (Nat.eqb b) (fst c))) cs
    | _, _ => cs
    end end.
Fixpoint number {A} (n : nat) (l : list A) : list (nat * A) := match l with [] => [] | x :: t => (n, x) :: number (S n) t end.
Definition join_in_order (ts : list table) (ls : list (jointype * nat * nat * list col * list col)) (order : list nat) : table :=
  let cs0 := map (fun it => ([fst it], snd it)) (number 0 ts) in
  let cs := fold_left (fun cs i => match nth_error ls i with Some l => apply_link cs l | None => cs end) order cs0 in
  match cs with c :: _ => snd c | [] => [] end.
Definition chk_join (c : (list table * list (jointype * nat * nat * list col * list col) * list (list nat)) * table) : bool :=
  match c with ((ts, ls, orders), obs) => existsb (fun o => bag_eqb obs (join_in_order ts ls o)) orders end.
(* number of distinct results over the admissible orders (1 = order independent) *)
Fixpoint count_distinct (seen : list table) (l : list table) : nat :=
  match l with [] => List.length seen | t :: r => if existsb (bag_eqb t) seen then count_distinct seen r else count_distinct (t :: seen) r end.
Definition chk_order_independent (c : (list table * list (jointype * nat * nat * list col * list col) * list (list nat)) * table) : bool :=
  match c with ((ts, ls, orders), _) => Nat.eqb (count_distinct [] (map (join_in_order ts ls) orders)) 1 end.
"""
CASE_TY = "(list table * list (jointype * nat * nat * list col * list col) * list (list nat)) * table"
JT = {"INNER": "JInner", "LEFT": "JLeft", "RIGHT": "JRight", "OUTER": "JOuter", "APPEND": "JAppend", "UNION": "JUnion"}


class Cap(GateListener):
    def __init__(self) -> None:
        super().__init__()
        self.rows: Dict[str, List[Dict[str, Any]]] = {}

    def on_enter(self, group: str, names: List[str], cols: List[str], data: Any, features: Any = None) -> None:
        super().on_enter(group, names, cols, data, features)
        if data is not None:
            self.rows[group] = table_rows(data)


def norm(v: Any) -> Optional[int]:
    if v is None:
        return None
    if isinstance(v, float):
        return None if v != v else int(v)
    return int(v)


def cq_row(r: Dict[str, Any]) -> str:
    return cq_list(f"({cq_str(k)}, {'VNull' if norm(v) is None else 'VInt ' + cq_z(norm(v))})" for k, v in r.items())


def cq_table(rows: List[Dict[str, Any]]) -> str:
    return cq_list(cq_row(r) for r in rows)


def rows_of(cols: Dict[str, List[Any]]) -> List[Dict[str, Any]]:
    n = len(next(iter(cols.values())))
    return [{k: v[i] for k, v in cols.items()} for i in range(n)]


def gen_two_way(rng: random.Random, jt: str, same: bool, ca: str, cb: str, cc: str) -> Dict[str, Any]:
    na, nb = rng.randrange(1, 5), rng.randrange(1, 5)
    ka = rng.sample(range(1, 8), na)
    kb = rng.sample(range(1, 8), nb)
    kname = "k" if same else "j"
    return {"groups": [{"name": "R0", "kind": "root", "cfw": ca, "cols": {"a": [rng.randrange(0, 50) for _ in ka], "k": ka}},
                       {"name": "R1", "kind": "root", "cfw": cb, "cols": {"b": [rng.randrange(50, 99) for _ in kb], kname: kb}},
                       {"name": "D1", "kind": "derived", "cfw": cc, "features": {"f1": {"inputs": ["a", "b"], "c0": 0, "coefs": [1, 1]}}}],
            "request": ["f1"], "links": [{"jt": jt, "l": "R0", "r": "R1", "li": ["k"], "ri": [kname]}]}


def gen_inner_tree(rng: random.Random) -> Dict[str, Any]:
    n = rng.randrange(3, 5)
    cfws = [rng.choice(CF[:2]) for _ in range(n)]
    groups: List[Dict[str, Any]] = []
    for i in range(n):
        m = rng.randrange(2, 5)
        groups.append({"name": f"R{i}", "kind": "root", "cfw": cfws[i],
                       "cols": {f"v{i}": [rng.randrange(0, 30) for _ in range(m)], "k": rng.sample(range(1, 7), m)}})
    star = rng.random() < 0.5
    links = []
    for i in range(1, n):
        a = 0 if star else i - 1
        links.append({"jt": "INNER", "l": f"R{a}", "r": f"R{i}", "li": ["k"], "ri": ["k"]})
    groups.append({"name": "D1", "kind": "derived", "cfw": cfws[0],
                   "features": {"f1": {"inputs": [f"v{i}" for i in range(n)], "c0": 0, "coefs": [1] * n}}})
    return {"groups": groups, "request": ["f1"], "links": links}


def kf_domain(spec: Dict[str, Any]) -> Optional[str]:
    """Known-defect domain of a two-way request, decided on the request alone."""
    roots = [x for x in spec["groups"] if x["kind"] == "root"]
    if len(spec["links"]) != 1:
        if len({x["cfw"] for x in roots}) > 1:
            return "C05-multiway-join-across-frameworks"
        return None
    l = spec["links"][0]
    g = {x["name"]: x for x in spec["groups"]}
    ca, cb, cc = g[l["l"]]["cfw"], g[l["r"]]["cfw"], g["D1"]["cfw"]
    same = l["li"] == l["ri"]
    if l["jt"] == "RIGHT":
        return "C05-right-join-not-honoured"
    if l["jt"] == "INNER" and "PythonDictFramework" in (ca, cb, cc) and not (set(g[l["l"]]["cols"][l["li"][0]]) & set(g[l["r"]]["cols"][l["ri"][0]])):
        return "C05-pydict-empty-join-raises"
    if not same and (ca != cb and cc == cb):
        return "C05-different-key-names-consumer-on-right-framework"
    if l["jt"] == "LEFT" and ca != cb and cc == cb:
        return "C05-left-join-roles-flipped-for-right-consumer"
    if not same and ca == "PythonDictFramework" and l["jt"] in ("LEFT", "OUTER"):
        return "C05-pydict-left-outer-different-key-names"
    if not same and l["jt"] == "OUTER" and ca == "PyArrowTable":
        return "C05-pyarrow-outer-different-key-names"
    return None


def one(spec: Dict[str, Any]) -> Dict[str, Any]:
    cap = Cap()
    uni = Universe(spec, cap)
    rec: Dict[str, Any] = {"spec": spec}
    try:
        sess = uni.prepare()
    except Exception as e:  # noqa: BLE001
        rec["status"] = "rejected"
        rec["exc"] = f"{type(e).__name__}: {str(e)[:120]}"
        return rec
    o = run_observed(sess, timeout=20)
    rec["status"] = o["status"]
    rec["exc"] = str(o.get("exc"))[-160:] if o["status"] == "raised" else None
    rec["rows"] = cap.rows.get("D1")
    return rec


def term(spec: Dict[str, Any], rows: List[Dict[str, Any]]) -> str:
    roots = [g for g in spec["groups"] if g["kind"] == "root"]
    idx = {g["name"]: i for i, g in enumerate(roots)}
    ts = cq_list(cq_table(rows_of(g["cols"])) for g in roots)
    ls = cq_list(f"({JT[l['jt']]}, {cq_nat(idx[l['l']])}, {cq_nat(idx[l['r']])}, {cq_list(cq_str(c) for c in l['li'])}, "
                 f"{cq_list(cq_str(c) for c in l['ri'])})" for l in spec["links"])
    orders = cq_list(cq_list(cq_nat(i) for i in p) for p in itertools.permutations(range(len(spec["links"]))))
    return f"(({ts}, {ls}, {orders}), {cq_table(rows)})"


def run(rep: vlib.Reporter, tier: str, seed: int) -> None:
    rng = random.Random(seed * 1049 + 5)
    install()
    pr = vlib.build_props("C05")
    rep.proof(pr)
    pr2 = vlib.build_props("C05alg")          # associativity / order independence of inner-join trees, row-count bounds
    rep.proof(pr2)
    pr.ok = pr.ok and pr2.ok
    pr.failed_files += pr2.failed_files
    rep.coverage["trusted_base"] += [
        "Spec/Rel.v (rel_join) is the relational specification and the oracle of record (evaluated by vm_compute)",
        "the planner (run_link, resolve_trekked_links, invert_link, fill_tfs_by_joinstep) and JoinStep._merge_data are NOT modelled: "
        "this check is end-to-end correspondence against the proved-consistent spec; merge kernels are C12's subject",
        "generated consumer groups record the rows handed to their calculation; known-defect domains are Python predicates on "
        "the request (harness/c05.kf_domain)"]
    big = tier == "thorough"
    specs: List[Dict[str, Any]] = []
    reps = 4 if big else 1
    for jt in ("INNER", "LEFT", "RIGHT", "OUTER"):
        for same in (True, False):
            for ca, cb in itertools.product(CF, CF):
                for cc in sorted({ca, cb}):
                    for _ in range(reps):
                        specs.append(gen_two_way(rng, jt, same, ca, cb, cc))
    n_tree = 200 if big else 30
    trees = [gen_inner_tree(rng) for _ in range(n_tree)]
    recs = [one(s) for s in specs + trees]
    found = False
    dist: Dict[str, Any] = {"two_way": len(specs), "trees": len(trees), "status": {}, "kf_domains": {}, "correct": 0,
                            "correct_inside_kf": 0}
    terms, idx = [], []
    for i, r in enumerate(recs):
        dist["status"][r["status"]] = dist["status"].get(r["status"], 0) + 1
        if r["status"] == "ok" and r["rows"] is not None:
            idx.append(i)
            terms.append(term(r["spec"], r["rows"]))
    bad, info = vlib.run_cases("C05", "join", REQ, "chk_join", terms, extra_defs=EXTRA, case_type=CASE_TY, shard=60) if terms else ([], {})
    bad_set = {idx[k] for k in bad}
    # order independence of the SPEC on the generated inner trees (theorem C05alg; evaluated here as a sanity check)
    tree_terms = [term(r["spec"], []) for r in recs[len(specs):]]
    bad_oi, _ = vlib.run_cases("C05", "orderind", REQ, "chk_order_independent", tree_terms, extra_defs=EXTRA, case_type=CASE_TY, shard=60)
    for k in bad_oi[:3]:
        rep.finding(f"spec-order:{json.dumps(trees[k], sort_keys=True)}", "rel_join over an inner-link tree depends on the application order "
                    "(contradicts the associativity theorem)", {"kind": "spec", "spec": trees[k]})
        found = True
    for i, r in enumerate(recs):
        spec = r["spec"]
        dom = kf_domain(spec)
        if dom:
            dist["kf_domains"][dom] = dist["kf_domains"].get(dom, 0) + 1
        key = json.dumps(spec, sort_keys=True)
        rep.nontrivial(("spec", spec["links"], [g.get("cfw") for g in spec["groups"]], [g.get("cols") for g in spec["groups"] if g["kind"] == "root"]))
        wrong = None
        if r["status"] == "ok" and (r["rows"] is None or i in bad_set):
            wrong = "the rows received by the consumer are not the join described by the Links"
        elif r["status"] == "raised":
            wrong = f"the accepted request raised at run time: {r['exc']}"
        elif r["status"] == "hang":
            wrong = "the run did not terminate"
        elif r["status"] == "rejected" and not (spec["links"][0]["jt"] == "RIGHT" and len({g.get('cfw') for g in spec['groups']}) == 1):
            wrong = f"request rejected at prepare: {r['exc']}"
        if wrong is None:
            if r["status"] == "ok":
                dist["correct"] += 1
                dist["correct_inside_kf"] += bool(dom)
            continue
        replay = {"kind": "e2e", "spec": spec, "status": r["status"], "exc": r.get("exc"), "rows": r.get("rows")}
        if dom:
            rep.finding(dom, wrong, replay)
        else:
            rep.finding(f"join:{key}", wrong, replay)
            found = True
    rep.count(len(recs))
    rep.add("distribution", dist)
    rep.add("join_vs_spec", {**info, "cases": len(terms), "disagreements": len(bad)})
    rep.add("rule", "two-way: {INNER, LEFT, RIGHT, OUTER} x {equal, different key names} x framework of left source x framework of "
                    "right source x consumer framework (one of the two), PRNG tables of 1-4 rows with unique non-null integer keys; "
                    "n-way: chains/stars of 3-4 sources joined by inner links on k. Every case is distinct by tables and configuration")
    ok = [r for r in recs if r["status"] == "ok" and r.get("rows")]
    if ok:
        rep.sample({"spec": ok[0]["spec"], "rows_received": ok[0]["rows"]})
    if not pr.ok and not found:
        rep.finding("proof-broken", "Props/C05.v no longer checks",
                    {"failed_files": pr.failed_files, "forbidden": pr.forbidden, "log_tail": pr.log[-3000:]}, found_input=False)


def replay(path: str) -> int:
    r = json.load(open(path))["replay"]
    install()
    rec = one(r["spec"])
    print(json.dumps({k: rec.get(k) for k in ("status", "exc", "rows")}, indent=1, default=str), "kf domain:", kf_domain(r["spec"]))
    return 0
