"""C05 — a consumer of several sources sees exactly the join its Links describe.

Spec: coq/Spec/Rel.v (rel_join; shared with C12) and the join algebra in coq/Props/C05.v / C05alg.v.
End to end on the real mloda: generated root groups (one table each) + Links + a consumer group whose calculation records
the rows it receives.  Oracle: rel_join evaluated in Coq (vm_compute) on the same source tables with the Link's join type,
key columns and left/right roles; for several links every admissible application order is computed in Coq and the
observation must be one of them (for inner-join trees they coincide - theorem).
  two-way   base      all join types x equal / different key name x framework of each source and of the consumer x PRNG
                      tables with unique non-null single-column keys (overlapping / disjoint)
            multikey  2- and 3-column keys x name class (equal, all different / mixed, alphabetical order of the names
                      permuting both sides equally / differently) x INNER, LEFT, OUTER (RIGHT sampled) x frameworks;
                      key tuples over a 3-value domain with partial overlap, chosen so that EVERY positional mis-pairing
                      of the key columns changes the set of matching row pairs
            data      duplicate-key (1:n, n:m, duplicated unmatched rows) and null-key (null component present on both
                      sides) tables for PyArrow / Pandas sources, INNER / LEFT, equal key names, arity 1-2
            orient    the same two tables linked as Link(A,B) and as Link(B,A), consumer on each side's framework
  n-way     chains and stars of 3-4 sources with inner links (order independence), same key name;
            three-source stars anchored at the left table with INNER/LEFT link mixes (C05alg: inner_star_comm,
            left_star_comm; the mixed star is evaluated per instance), 1- and 2-column keys
            every pure-INNER tree / star: the premises of the n-ary order-independence theorem (Props/C05nary.v,
            nary_premises) are evaluated, every plan (link order x orientation) is compared with the comprehension
            all_matches; premises true + disagreement = violation nary-contradiction
  cross-over  (harness/c05_cross.py) differently named keys and each table ALSO has a column named like the other side's key,
            filled with other values: the consumer must see the join on the columns the Link declares (Props/C05keys.v)
Known-defect domains are decidable predicates on the request (join type, key names, key arity, framework relation, null
keys).  Where the recorded defect is a function of the spec result (MODEL_CHK: PyArrow key-column handling, Pandas null
keys, LEFT/RIGHT roles exchanged) or a specific error (RAISE_PAT) the observation must equal that defect model (evaluated
in Coq) or the spec, everything else is a violation; in the remaining domains (differently named keys with the consumer
on the right framework, PythonDict LEFT/OUTER on differently named keys, multi-way across frameworks) any failure counts
as the finding.
Not generated: duplicate / null keys on PythonDictFramework sources (engine deviations are C12's findings); null keys on
the Pandas side of a Pandas/PyArrow pair (a Pandas integer column with nulls is float64; Acero refuses int64 = double keys:
the run raises ArrowInvalid "Incompatible data types for corresponding join field keys").
"""
from __future__ import annotations

import itertools
import json
import logging
import random
from typing import Any, Dict, List, Optional, Sequence, Tuple

from lib import vlib
from lib.vlib import cq_list, cq_nat, cq_str, cq_z
from harness.universe import Universe, table_rows, export_plan
from harness.orch import GateListener, run_observed, install
from harness import routing_j, routing

LEVEL = "proof"
logging.disable(logging.CRITICAL)
REQ = ["MV.Spec.Rel"]
CF = ["PyArrowTable", "PandasDataFrame", "PythonDictFramework"]

EXTRA = """
(* tables, links (jt, left table index, right table index, left keys, right keys), application orders, observed rows.
   The join function is a parameter: rel_join (the specification) or one of the recorded engine deviations below. *)
Definition joinfn := jointype -> list col -> list col -> table -> table -> table.
Definition link := (jointype * nat * nat * list col * list col)%type.
Definition case := ((list table * list link * list (list nat)) * table)%type.
Definition comp := (list nat * table)%type.
Definition find_comp (cs : list comp) (i : nat) : option comp := find (fun c => existsb (Nat.eqb i) (fst c)) cs.
Definition apply_link (J : joinfn) (cs : list comp) (l : link) : list comp :=
  match l with (jt, a, b, lk, rk) =>
    match find_comp cs a, find_comp cs b with
    | Some ca, Some cb =>
      if existsb (Nat.eqb b) (fst ca) then cs
      else (fst ca ++ fst cb, J jt lk rk (snd ca) (snd cb))
           :: filter (fun c => negb (existsb (Nat.eqb a) (fst c)) && negb (existsb (Nat.eqb b) (fst c))) cs
    | _, _ => cs
    end end.
Fixpoint number {A} (n : nat) (l : list A) : list (nat * A) := match l with [] => [] | x :: t => (n, x) :: number (S n) t end.
Definition join_in_order_with (J : joinfn) (ts : list table) (ls : list link) (order : list nat) : table :=
  let cs0 := map (fun it => ([fst it], snd it)) (number 0 ts) in
  let cs := fold_left (fun cs i => match nth_error ls i with Some l => apply_link J cs l | None => cs end) order cs0 in
  match cs with c :: _ => snd c | [] => [] end.
Definition join_in_order := join_in_order_with rel_join.
Definition chk_join_with (J : joinfn) (c : case) : bool :=
  match c with ((ts, ls, orders), obs) => existsb (fun o => bag_eqb obs (join_in_order_with J ts ls o)) orders end.
Definition chk_join (c : case) : bool := chk_join_with rel_join c.
(* number of distinct results over the admissible orders (1 = order independent) *)
Fixpoint count_distinct (seen : list table) (l : list table) : nat :=
  match l with [] => List.length seen | t :: r => if existsb (bag_eqb t) seen then count_distinct seen r else count_distinct (t :: seen) r end.
Definition chk_order_independent (c : case) : bool :=
  match c with ((ts, ls, orders), _) => Nat.eqb (count_distinct [] (map (join_in_order ts ls) orders)) 1 end.

(* ---- recorded engine deviations as functions of the SPEC result ----
   (1) PyArrow engine, several key columns, names differing at a position (C12-pyarrow-multikey-diffnames-drops-keys):
       Acero keeps one key set - the differently named right key column is not retained and the left key column of a
       right-only row (full outer) is filled from it.  Single-column keys take another code path (mloda_right_index). *)
Definition drop_col (c : col) (r : row) : row := filter (fun cv => negb (String.eqb (fst cv) c)) r.
Definition coalesce_pair (r : row) (p : col * col) : row :=
  if String.eqb (fst p) (snd p) then r
  else (fst p, if is_null (get (fst p) r) then get (snd p) r else get (fst p) r) :: drop_col (fst p) (drop_col (snd p) r).
Definition arrow_multikey (lk rk : list col) (t : table) : table := map (fun r => fold_left coalesce_pair (combine lk rk) r) t.
(* (1b) PyArrow engine, ONE differently named key, full outer (C12-pyarrow-outer-diffkey-coalesce): the right key is
       copied to a helper column used as join key, so the right key column survives, but the left key column of a
       right-only row is filled from it. *)
Definition coalesce_keep (lc rc : col) (r : row) : row :=
  (lc, if is_null (get lc r) then get rc r else get lc r) :: drop_col lc r.
Definition arrow_join : joinfn := fun jt lk rk L R =>
  match lk, rk, jt with
  | _ :: _ :: _, _, _ => arrow_multikey lk rk (rel_join jt lk rk L R)
  | [lc], [rc], JOuter => if String.eqb lc rc then rel_join jt lk rk L R else map (coalesce_keep lc rc) (rel_join jt lk rk L R)
  | _, _, _ => rel_join jt lk rk L R
  end.
Definition chk_join_arrow_mk (c : case) : bool := chk_join c || chk_join_with arrow_join c.
(* (2) Pandas engine (C12-pandas-null-keys-match): pd.merge treats a null key component as an ordinary value that is
       equal to itself.  Model: nulls in key columns replaced by a sentinel outside the generated value range, joined by
       the spec, sentinel mapped back to null. *)
Definition sentinel : val := VInt (-999983)%Z.
Definition map_cols (f : val -> val) (ks : list col) (t : table) : table :=
  map (fun r => map (fun cv => if mem (fst cv) ks then (fst cv, f (snd cv)) else cv) r) t.
Definition to_sent (v : val) : val := if is_null v then sentinel else v.
Definition from_sent (v : val) : val := if val_eqb v sentinel then VNull else v.
Definition null_match_join : joinfn := fun jt lk rk L R =>
  map_cols from_sent (lk ++ rk) (rel_join jt lk rk (map_cols to_sent lk L) (map_cols to_sent rk R)).
Definition chk_join_null_match (c : case) : bool := chk_join c || chk_join_with null_match_join c.
(* (3) planner: LEFT executed as RIGHT / RIGHT executed as LEFT (C05-right-join-not-honoured,
       C05-left-join-roles-flipped-for-right-consumer): the preserved side is the other one. *)
Definition flip_jt (jt : jointype) : jointype := match jt with JLeft => JRight | JRight => JLeft | x => x end.
Definition flip_join : joinfn := fun jt => rel_join (flip_jt jt).
Definition chk_join_flipped (c : case) : bool := chk_join c || chk_join_with flip_join c.
"""
CASE_TY = "case"
# n-ary order independence (Props/C05nary.v: join_in_order_independent, nary_plan_all_matches).  The theorem's premises are
# EVALUATED on every generated inner tree / star (RelNary.nary_premises: uniform tables, INNER links with keys in the schemas,
# tree certified by cuts, n-ary overlap discipline), not assumed:
#   nary_prem        the premises hold for the request's tables and links
#   chk_same_fn      the executor the theorem is about (Spec/RelNary.v) computes the same tables as the copy above
#   chk_nary         premises => chk_order_independent, and every plan (link order x orientation) = the comprehension
# premises true and chk_nary false would contradict the theorem: violation `nary-contradiction`.
REQ_NARY = REQ + ["MV.Spec.RelNary"]
EXTRA_NARY = EXTRA + """
Fixpoint tbl_eqb (a b : table) : bool :=
  match a, b with [], [] => true | x :: a', y :: b' => row_eqb x y && tbl_eqb a' b' | _, _ => false end.
Definition nary_prem (c : case) : bool := match c with ((ts, ls, _), _) => RelNary.nary_premises ts ls end.
Definition chk_same_fn (c : case) : bool :=
  match c with ((ts, ls, orders), _) => forallb (fun o => tbl_eqb (join_in_order ts ls o) (RelNary.join_in_order ts ls o)) orders end.
Definition chk_all_plans (c : case) : bool :=
  match c with ((ts, ls, _), _) =>
    forallb (fun p => bag_eqb (RelNary.run_plan ts ls p) (RelNary.all_matches ts ls)) (RelNary.all_plans (List.length ls)) end.
Definition chk_nary (c : case) : bool := chk_same_fn c && (negb (nary_prem c) || (chk_order_independent c && chk_all_plans c)).
"""
JT = {"INNER": "JInner", "LEFT": "JLeft", "RIGHT": "JRight", "OUTER": "JOuter", "APPEND": "JAppend", "UNION": "JUnion"}

# known-defect domains whose recorded defect is a FUNCTION of the spec result: (checker that accepts the defect model or the
# spec, predicate on the request saying where that is required).  Where it is required a run that raises, is rejected, or
# hands the consumer anything else is a violation.  Outside (and in the domains not listed) any failure counts as the finding.
def _same_names(spec: Dict[str, Any]) -> bool:
    return all(l["li"] == l["ri"] for l in spec["links"])


MODEL_CHK = {"C05-pyarrow-multikey-different-names-drops-right-keys": ("chk_join_arrow_mk", lambda s: True),
             "C05-pyarrow-outer-different-key-names": ("chk_join_arrow_mk", lambda s: True),
             "C05-pandas-null-keys-match": ("chk_join_null_match", lambda s: True),
             "C05-right-join-not-honoured": ("chk_join_flipped", _same_names),
             "C05-left-join-roles-flipped-for-right-consumer": ("chk_join_flipped", lambda s: True)}
# known-defect domains whose recorded defect is a specific run-time error
RAISE_PAT = {"C05-pydict-empty-join-raises": "Data is empty or not in expected format"}


def strict_model(spec: Dict[str, Any], dom: Optional[str]) -> Optional[str]:
    if dom in MODEL_CHK and MODEL_CHK[dom][1](spec):
        return MODEL_CHK[dom][0]
    return None


class Cap(GateListener):
    def __init__(self) -> None:
        super().__init__()
        self.rows: Dict[str, List[Dict[str, Any]]] = {}
        self.dtype: Dict[str, str] = {}          # class name of the native table handed to the group's calculation

    def on_enter(self, group: str, names: List[str], cols: List[str], data: Any, features: Any = None) -> None:
        super().on_enter(group, names, cols, data, features)
        if data is not None:
            self.rows[group] = table_rows(data)
            self.dtype[group] = type(data).__name__


def norm(v: Any) -> Optional[int]:
    if v is None:
        return None
    if isinstance(v, float):
        return None if v != v else int(v)
    return int(v)


def cq_row(r: Dict[str, Any]) -> str:
    return cq_list(f"({cq_str(k)}, {'VNull' if norm(v) is None else 'VInt ' + cq_z(norm(v))})" for k, v in r.items())


def cq_table(rows: List[Dict[str, Any]]) -> str:
    return cq_list(cq_row(r) for r in rows)


def rows_of(cols: Dict[str, List[Any]]) -> List[Dict[str, Any]]:
    n = len(next(iter(cols.values())))
    return [{k: v[i] for k, v in cols.items()} for i in range(n)]


# ------------------------------------------------------------------------------------------------------------------
# key names
# ------------------------------------------------------------------------------------------------------------------
LPOOL = ["day", "region", "id", "ts", "k", "m", "zone", "code"]
RPOOL = ["area", "date", "ref", "rts", "j", "n", "loc", "tag"]
NAME_CLASSES = ["equal", "diff_same_perm", "diff_permuted", "mixed_same_perm", "mixed_permuted"]
Key = Tuple[Optional[int], ...]


def argsort(xs: Sequence[str]) -> List[int]:
    return sorted(range(len(xs)), key=lambda i: xs[i])


def name_class(li: Sequence[str], ri: Sequence[str]) -> str:
    """equal | diff | for arity >= 2: {diff, mixed}_{same_perm, permuted}: are the names different at every / at some
    position, and does sorting the names alphabetically permute the two sides in the same way."""
    li, ri = list(li), list(ri)
    if li == ri:
        return "equal"
    if len(li) == 1:
        return "diff"
    kind = "mixed" if any(x == y for x, y in zip(li, ri)) else "diff"
    return kind + ("_same_perm" if argsort(li) == argsort(ri) else "_permuted")


def gen_key_names(rng: random.Random, arity: int, cls: str) -> Tuple[List[str], List[str]]:
    if arity == 1:
        li = [rng.choice(LPOOL)]
        return (li, list(li)) if cls == "equal" else (li, [rng.choice(RPOOL)])
    for _ in range(5000):
        li = rng.sample(LPOOL, arity)
        if cls == "equal":
            return li, list(li)
        fresh = rng.sample(RPOOL, arity)
        keep = [cls.startswith("mixed") and rng.random() < 0.5 for _ in li]
        ri = [x if k else f for x, k, f in zip(li, keep, fresh)]
        if name_class(li, ri) == cls:
            return li, ri
    raise RuntimeError(f"no key names of class {cls} / arity {arity}")


# ------------------------------------------------------------------------------------------------------------------
# key data
# ------------------------------------------------------------------------------------------------------------------
def match_pairs(ka: Sequence[Key], kb: Sequence[Key], perm: Sequence[int]) -> set:
    """row pairs (i, j) whose keys are SQL-equal when left position p is paired with right position perm[p]."""
    return {(i, j) for i, x in enumerate(ka) for j, y in enumerate(kb)
            if all(x[p] is not None and x[p] == y[perm[p]] for p in range(len(perm)))}


def pairing_sensitive(ka: Sequence[Key], kb: Sequence[Key]) -> bool:
    n = len(ka[0])
    ident = list(range(n))
    good = match_pairs(ka, kb, ident)
    return all(match_pairs(ka, kb, p) != good for p in itertools.permutations(ident) if list(p) != ident)


def gen_key_data(rng: random.Random, arity: int, variant: str, null_sides: str = "ab") -> Tuple[List[Key], List[Key]]:
    """unique: distinct non-null key tuples per side, partial overlap (arity 1: possibly disjoint);
    dup: additionally a matched key repeated on the right (and possibly the left) and an unmatched left key repeated;
    null: additionally, on both sides (null_sides "ab"; "a" / "b": on that side only, the other side gets the same key with
          the null replaced by a value), a key with a null component and possibly an all-null key.
    For arity >= 2 every positional mis-pairing of the key columns changes the set of matching row pairs."""
    dom = list(range(1, 8)) if arity == 1 else [1, 2, 3]
    universe = [tuple(t) for t in itertools.product(dom, repeat=arity)]
    for _ in range(5000):
        na, nb = rng.randrange(2, 6), rng.randrange(2, 6)
        if arity == 1:
            na, nb = rng.randrange(1, 5), rng.randrange(1, 5)
            s = rng.randrange(0, min(na, nb) + 1)
            if variant != "unique":
                s = max(s, 1)
        else:
            s = rng.randrange(1, min(na, nb))
        if na + nb - s > len(universe):
            continue
        ts = rng.sample(universe, na + nb - s)
        shared, lo, ro = ts[:s], ts[s:na], ts[na:]
        ka: List[Key] = list(shared + lo)
        kb: List[Key] = list(shared + ro)
        if variant == "dup":
            kb.append(shared[0])
            if rng.random() < 0.5:
                ka.append(shared[0])
            if lo and rng.random() < 0.7:
                ka.append(lo[0])
            if ro and rng.random() < 0.3:
                kb.append(ro[0])
        if variant == "null":
            base = list(rng.choice(universe))
            base[rng.randrange(arity)] = None
            full = tuple(rng.choice(dom) if v is None else v for v in base)
            ka.append(tuple(base) if "a" in null_sides else full)
            kb.append(tuple(base) if "b" in null_sides else full)
            if "a" in null_sides and rng.random() < 0.5:
                ka.append(tuple([None] * arity))
            if "b" in null_sides and rng.random() < 0.5:
                kb.append(tuple([None] * arity))
        rng.shuffle(ka)
        rng.shuffle(kb)
        if arity >= 2 and not pairing_sensitive(ka, kb):
            continue
        return ka, kb
    raise RuntimeError("no key data")


def data_variant(spec: Dict[str, Any]) -> str:
    roots = [g for g in spec["groups"] if g["kind"] == "root"]
    g = {x["name"]: x for x in roots}
    has_null = has_dup = False
    for l in spec["links"]:
        for side, cols in ((l["l"], l["li"]), (l["r"], l["ri"])):
            ks = key_tuples(g[side], cols)
            has_null |= any(v is None for t in ks for v in t)
            has_dup |= len(set(ks)) < len(ks)
    return "null" if has_null else "dup" if has_dup else "unique"


def key_tuples(group: Dict[str, Any], cols: Sequence[str]) -> List[Key]:
    return list(zip(*[group["cols"][c] for c in cols]))


# ------------------------------------------------------------------------------------------------------------------
# request generators
# ------------------------------------------------------------------------------------------------------------------
def two_way(rng: random.Random, jt: str, li: List[str], ri: List[str], ka: List[Key], kb: List[Key], ca: str, cb: str,
            orient: str = "AB", consumer: str = "l") -> Dict[str, Any]:
    """Sources A = R0(a, key columns li) on ca and B = R1(b, key columns ri) on cb.  orient AB: Link(A, B); BA: Link(B, A)
    (B is then the left table, ri the left key).  The consumer lives on the framework of the link's `consumer` side."""
    va = rng.sample(range(0, 50), len(ka))
    vb = rng.sample(range(50, 99), len(kb))
    ga = {"name": "R0", "kind": "root", "cfw": ca, "cols": {"a": va, **{n: [t[i] for t in ka] for i, n in enumerate(li)}}}
    gb = {"name": "R1", "kind": "root", "cfw": cb, "cols": {"b": vb, **{n: [t[i] for t in kb] for i, n in enumerate(ri)}}}
    if orient == "AB":
        link = {"jt": jt, "l": "R0", "r": "R1", "li": list(li), "ri": list(ri)}
        cc = ca if consumer == "l" else cb
    else:
        link = {"jt": jt, "l": "R1", "r": "R0", "li": list(ri), "ri": list(li)}
        cc = cb if consumer == "l" else ca
    return {"groups": [ga, gb, {"name": "D1", "kind": "derived", "cfw": cc,
                                "features": {"f1": {"inputs": ["a", "b"], "c0": 0, "coefs": [1, 1]}}}],
            "request": ["f1"], "links": [link]}


def gen_two_way(rng: random.Random, jt: str, same: bool, ca: str, cb: str, cc: str) -> Dict[str, Any]:
    """base matrix: single-column key k / j, unique non-null keys."""
    ka, kb = gen_key_data(rng, 1, "unique")
    spec = two_way(rng, jt, ["k"], ["k" if same else "j"], ka, kb, ca, cb)
    spec["groups"][2]["cfw"] = cc
    return spec


def gen_multikey(rng: random.Random, jt: str, arity: int, cls: str, ca: str, cb: str, consumer: str,
                 variant: str = "unique", orient: str = "AB", names: Optional[Tuple[List[str], List[str]]] = None,
                 null_sides: str = "ab") -> Dict[str, Any]:
    li, ri = names if names else gen_key_names(rng, arity, cls)
    ka, kb = gen_key_data(rng, arity, variant, null_sides)
    return two_way(rng, jt, li, ri, ka, kb, ca, cb, orient, consumer)


def gen_orientation_family(rng: random.Random, jt: str, arity: int, cls: str, ca: str, cb: str) -> List[Dict[str, Any]]:
    """the SAME two tables linked as Link(A,B) and as Link(B,A), consumer on the framework of each side."""
    li, ri = gen_key_names(rng, arity, cls)
    ka, kb = gen_key_data(rng, arity, "unique")
    st = rng.getstate()
    out = []
    for orient in ("AB", "BA"):
        for consumer in (("l",) if ca == cb else ("l", "r")):
            rng.setstate(st)                      # same value columns in every member of the family
            out.append(two_way(rng, jt, li, ri, ka, kb, ca, cb, orient, consumer))
    return out


def gen_inner_tree(rng: random.Random) -> Dict[str, Any]:
    n = rng.randrange(3, 5)
    cfws = [rng.choice(CF[:2]) for _ in range(n)]
    groups: List[Dict[str, Any]] = []
    for i in range(n):
        m = rng.randrange(2, 5)
        groups.append({"name": f"R{i}", "kind": "root", "cfw": cfws[i],
                       "cols": {f"v{i}": [rng.randrange(0, 30) for _ in range(m)], "k": rng.sample(range(1, 7), m)}})
    star = rng.random() < 0.5
    links = []
    for i in range(1, n):
        a = 0 if star else i - 1
        links.append({"jt": "INNER", "l": f"R{a}", "r": f"R{i}", "li": ["k"], "ri": ["k"]})
    groups.append({"name": "D1", "kind": "derived", "cfw": cfws[0],
                   "features": {"f1": {"inputs": [f"v{i}" for i in range(n)], "c0": 0, "coefs": [1] * n}}})
    return {"groups": groups, "request": ["f1"], "links": links}


def gen_left_star(rng: random.Random, jt1: str, jt2: str, cfw: str, arity: int, same_names: bool) -> Dict[str, Any]:
    """star anchored at the left table: Link(jt1, A, B) on key 1, Link(jt2, A, C) on key 2, jt in {INNER, LEFT}; all three
    sources and the consumer on one framework.  A carries both keys; unique keys in B and C, partial overlap with A."""
    dom = list(range(1, 7)) if arity == 1 else [1, 2, 3]
    universe = [tuple(t) for t in itertools.product(dom, repeat=arity)]
    na = rng.randrange(3, 6)
    k1a = [rng.choice(universe) for _ in range(na)]
    k2a = [rng.choice(universe) for _ in range(na)]
    kb = rng.sample(universe, rng.randrange(2, 5))
    kc = rng.sample(universe, rng.randrange(2, 5))
    if k1a[0] not in kb:                           # row 0 of A has a partner in B and in C: no empty (intermediate) result
        kb[0] = k1a[0]
    if k2a[0] not in kc:
        kc[0] = k2a[0]
    if same_names:
        n1a = n1b = ["p0", "p1"][:arity]
        n2a = n2c = ["q0", "q1"][:arity]
    else:                                          # link 1: names permuted differently by sorting; link 2: equally
        n1a, n1b = ["zone", "day"][:arity], ["area", "date"][:arity]
        n2a, n2c = ["q0", "q1"][:arity], ["qc0", "qc1"][:arity]
    cols_a: Dict[str, List[Any]] = {"v0": rng.sample(range(0, 30), na)}
    for i, n in enumerate(n1a):
        cols_a[n] = [t[i] for t in k1a]
    for i, n in enumerate(n2a):
        cols_a[n] = [t[i] for t in k2a]
    cols_b: Dict[str, List[Any]] = {"v1": rng.sample(range(30, 60), len(kb))}
    for i, n in enumerate(n1b):
        cols_b[n] = [t[i] for t in kb]
    cols_c: Dict[str, List[Any]] = {"v2": rng.sample(range(60, 90), len(kc))}
    for i, n in enumerate(n2c):
        cols_c[n] = [t[i] for t in kc]
    groups = [{"name": "R0", "kind": "root", "cfw": cfw, "cols": cols_a},
              {"name": "R1", "kind": "root", "cfw": cfw, "cols": cols_b},
              {"name": "R2", "kind": "root", "cfw": cfw, "cols": cols_c},
              {"name": "D1", "kind": "derived", "cfw": cfw,
               "features": {"f1": {"inputs": ["v0", "v1", "v2"], "c0": 0, "coefs": [1, 1, 1]}}}]
    links = [{"jt": jt1, "l": "R0", "r": "R1", "li": n1a, "ri": n1b},
             {"jt": jt2, "l": "R0", "r": "R2", "li": n2a, "ri": n2c}]
    return {"groups": groups, "request": ["f1"], "links": links}


# ------------------------------------------------------------------------------------------------------------------
# classification of a request
# ------------------------------------------------------------------------------------------------------------------
def kf_domain(spec: Dict[str, Any]) -> Optional[str]:
    """Known-defect domain of a request, decided on the request alone."""
    roots = [x for x in spec["groups"] if x["kind"] == "root"]
    if len(spec["links"]) != 1:
        if len({x["cfw"] for x in roots}) > 1:
            return "C05-multiway-join-across-frameworks"
        cf = roots[0]["cfw"]
        diff = [x for x in spec["links"] if x["li"] != x["ri"]]
        if cf == "PythonDictFramework" and any(x["jt"] in ("LEFT", "OUTER") for x in diff):
            return "C05-pydict-left-outer-different-key-names"
        if cf == "PyArrowTable" and any(len(x["li"]) > 1 for x in diff):
            return "C05-pyarrow-multikey-different-names-drops-right-keys"
        return None
    l = spec["links"][0]
    g = {x["name"]: x for x in spec["groups"]}
    ca, cb, cc = g[l["l"]]["cfw"], g[l["r"]]["cfw"], g["D1"]["cfw"]
    same = l["li"] == l["ri"]
    multi = len(l["li"]) > 1
    kl, kr = key_tuples(g[l["l"]], l["li"]), key_tuples(g[l["r"]], l["ri"])
    if l["jt"] == "RIGHT":
        return "C05-right-join-not-honoured"
    if not same and (ca != cb and cc == cb):
        return "C05-different-key-names-consumer-on-right-framework"
    if l["jt"] == "INNER" and "PythonDictFramework" in (ca, cb, cc) and not match_pairs(kl, kr, list(range(len(l["li"])))):
        return "C05-pydict-empty-join-raises"
    if l["jt"] == "LEFT" and ca != cb and cc == cb:
        return "C05-left-join-roles-flipped-for-right-consumer"
    if not same and ca == "PythonDictFramework" and l["jt"] in ("LEFT", "OUTER"):
        return "C05-pydict-left-outer-different-key-names"
    if not same and not multi and l["jt"] == "OUTER" and ca == "PyArrowTable":
        return "C05-pyarrow-outer-different-key-names"
    if not same and multi and cc == "PyArrowTable":
        return "C05-pyarrow-multikey-different-names-drops-right-keys"
    if cc == "PandasDataFrame" and any(v is None for t in kl + kr for v in t):
        return "C05-pandas-null-keys-match"
    return None


def shape_of(spec: Dict[str, Any]) -> str:
    ls = spec["links"]
    if len(ls) == 1:
        return "two_way"
    jts = sorted({l["jt"] for l in ls})
    star = len({l["l"] for l in ls}) == 1
    return f"{'star' if star else 'chain'}{len(ls) + 1}:{'+'.join(jts)}"


def dims(spec: Dict[str, Any]) -> Dict[str, str]:
    """the coverage dimensions of a request (evidence counters)."""
    l = spec["links"][0]
    g = {x["name"]: x for x in spec["groups"]}
    cl, cr, cc = g[l["l"]]["cfw"], g[l["r"]]["cfw"], g["D1"]["cfw"]
    return {"shape": shape_of(spec), "join_type": "+".join(sorted({x["jt"] for x in spec["links"]})),
            "key_arity": str(max(len(x["li"]) for x in spec["links"])),
            "name_class": "/".join(sorted({name_class(x["li"], x["ri"]) for x in spec["links"]})),
            "data_variant": data_variant(spec),
            "orientation": "Link(A,B)" if l["l"] == "R0" else "Link(B,A)",
            "consumer_side": "one framework" if cl == cr else "left framework" if cc == cl else "right framework",
            "frameworks": "same" if len({x.get("cfw") for x in spec["groups"]}) == 1 else "cross"}


def one(spec: Dict[str, Any], cap: Optional[Cap] = None, modes: Any = None) -> Dict[str, Any]:
    cap = cap or Cap()
    uni = Universe(spec, cap)
    rec: Dict[str, Any] = {"spec": spec}
    try:
        sess = uni.prepare()
    except Exception as e:  # noqa: BLE001
        rec["status"] = "rejected"
        rec["exc"] = f"{type(e).__name__}: {str(e)[:120]}"
        return rec
    plan = export_plan(sess, uni)
    o = run_observed(sess, modes=modes, timeout=20, ren=plan["_ren"])
    plan = routing.with_run_orders(plan, o.get("orders"))
    rec["status"] = o["status"]
    rec["exc"] = str(o.get("exc"))[-160:] if o["status"] == "raised" else None
    rec["rows"] = cap.rows.get("D1")
    # the framework the consumer was planned on / the native table type it was handed / the JoinSteps' roles (family both_frameworks)
    rec["consumer_cfw"] = sorted({s["cfw"] for s in plan["steps"] if s["kind"] == "FG" and s["group"] == "D1"})
    rec["consumer_dtype"] = cap.dtype.get("D1")
    rec["joins"] = [{"jt": s["jt"], "left_cfw": s["left_cfw"], "right_cfw": s["right_cfw"], "link": s["link"]} for s in plan["steps"] if s["kind"] == "JOIN"]
    # routing model input (Model/RoutingJ.v): begun steps in begin order + observed footprints; consumer step id
    if o["status"] != "hang":
        rec["route"] = routing_j.terms_x(spec, plan, o["begin_order"], {int(k): v for k, v in o["foot"].items()})
        cs = [s["sid"] for s in plan["steps"] if s["kind"] == "FG" and s["group"] == "D1"]
        rec["consumer_sid"] = cs[0] if len(cs) == 1 and cs[0] in o["begin_order"] else None
    return rec


def term(spec: Dict[str, Any], rows: List[Dict[str, Any]]) -> str:
    roots = [g for g in spec["groups"] if g["kind"] == "root"]
    idx = {g["name"]: i for i, g in enumerate(roots)}
    ts = cq_list(cq_table(rows_of(g["cols"])) for g in roots)
    ls = cq_list(f"({JT[l['jt']]}, {cq_nat(idx[l['l']])}, {cq_nat(idx[l['r']])}, {cq_list(cq_str(c) for c in l['li'])}, "
                 f"{cq_list(cq_str(c) for c in l['ri'])})" for l in spec["links"])
    orders = cq_list(cq_list(cq_nat(i) for i in p) for p in itertools.permutations(range(len(spec["links"]))))
    return f"(({ts}, {ls}, {orders}), {cq_table(rows)})"


def build_specs(rng: random.Random, big: bool) -> Dict[str, List[Dict[str, Any]]]:
    out: Dict[str, List[Dict[str, Any]]] = {"base": [], "multikey": [], "data": [], "orient": [], "trees": [], "stars": []}
    reps = 6 if big else 1
    fw_combos = [(ca, cb, side) for ca, cb in itertools.product(CF, CF) for side in (("l",) if ca == cb else ("l", "r"))]
    # base matrix (single-column key)
    for jt in ("INNER", "LEFT", "RIGHT", "OUTER"):
        for same in (True, False):
            for ca, cb in itertools.product(CF, CF):
                for cc in sorted({ca, cb}):
                    for _ in range(reps):
                        out["base"].append(gen_two_way(rng, jt, same, ca, cb, cc))
    # multi-column keys.  consumer on the link's left framework: full product; right framework (mostly inside recorded
    # domains) and RIGHT links: sampled
    for jt in ("INNER", "LEFT", "OUTER"):
        for arity in (2, 3):
            for cls in NAME_CLASSES:
                for ca, cb, side in fw_combos:
                    if side == "r" and not big and rng.random() < 0.5:
                        continue
                    for _ in range(reps if big or side == "r" else 2):
                        out["multikey"].append(gen_multikey(rng, jt, arity, cls, ca, cb, side))
    for arity in (2, 3):
        for cls in NAME_CLASSES:
            for ca, cb, side in (fw_combos if big else rng.sample(fw_combos, 3)):
                out["multikey"].append(gen_multikey(rng, "RIGHT", arity, cls, ca, cb, side))
    # the documentation-style example of the permuted class, on every framework pair
    for jt in ("INNER", "LEFT", "OUTER"):
        for ca, cb in itertools.product(CF, CF):
            out["multikey"].append(gen_multikey(rng, jt, 2, "diff_permuted", ca, cb, "l", names=(["region", "day"], ["area", "date"])))
    # duplicate / null keys: PyArrow and Pandas sources, INNER / LEFT, equal key names
    for variant in ("dup", "null"):
        for jt in ("INNER", "LEFT"):
            for arity in (1, 2):
                for ca, cb in itertools.product(CF[:2], CF[:2]):
                    # a Pandas integer column with nulls is float64 and cannot be joined with an int64 Arrow key (the run
                    # raises: key types differ, which is not the join's business): across frameworks only the PyArrow
                    # source carries null keys
                    ns = "ab" if ca == cb else "a" if ca == "PyArrowTable" else "b"
                    for side in (("l",) if ca == cb else ("l", "r")):
                        for _ in range(3 * reps):
                            out["data"].append(gen_multikey(rng, jt, arity, "equal", ca, cb, side, variant=variant, null_sides=ns))
    # link orientation families
    for jt in ("INNER", "LEFT", "OUTER"):
        for arity, cls in ((1, "equal"), (1, "diff"), (2, "equal"), (2, "diff_permuted"), (2, "mixed_same_perm"), (3, "diff_same_perm")):
            pairs = list(itertools.product(CF, CF))
            for ca, cb in (pairs if big else rng.sample(pairs, 4)):
                out["orient"] += gen_orientation_family(rng, jt, arity, cls, ca, cb)
    out["trees"] = [gen_inner_tree(rng) for _ in range(200 if big else 30)]
    for _ in range(8 if big else 1):
        for jt1, jt2 in itertools.product(("INNER", "LEFT"), repeat=2):
            for cfw in CF:
                for arity, same_names in ((1, True), (1, False), (2, True), (2, False)):
                    out["stars"].append(gen_left_star(rng, jt1, jt2, cfw, arity, same_names))
    return out


def run(rep: vlib.Reporter, tier: str, seed: int) -> None:
    rng = random.Random(seed * 1049 + 5)
    install()
    pr = vlib.build_props("C05")
    rep.proof(pr)
    pr2 = vlib.build_props("C05alg")          # associativity / order independence of inner-join trees, row-count bounds
    rep.proof(pr2)
    pr3 = vlib.build_props("RoutingJ")        # registry lookups with the merge relation, JoinStep routing, find_leftmost terminates
    rep.proof(pr3)
    pr4 = vlib.build_props("C05nary")         # n-ary inner-join trees: every plan = the comprehension (order independence)
    rep.proof(pr4)
    pr5 = vlib.build_props("C05shared")       # several joins sharing a source: every JoinStep merges the converted source of its own link
    rep.proof(pr5)
    pr6 = vlib.build_props("C05keys")         # the JoinStep's merge call: keys follow the Link; frame theorem over rel_join
    rep.proof(pr6)
    pr7 = vlib.build_props("C05both")         # a consumer ADMITTING several frameworks: planned on the left source's framework, roles kept (Model/PlannerLM.v)
    rep.proof(pr7)
    pr.ok = pr.ok and pr2.ok and pr3.ok and pr4.ok and pr5.ok and pr6.ok and pr7.ok
    pr.failed_files += pr2.failed_files + pr3.failed_files + pr4.failed_files + pr5.failed_files + pr6.failed_files + pr7.failed_files
    rep.coverage["trusted_base"] += [
        "Spec/Rel.v (rel_join) is the relational specification and the oracle of record (evaluated by vm_compute)",
        "Model/RoutingJ.v is a hand-written model of the run-time side of joins (registry lookups with cfw_merge_relation / "
        "find_leftmost, the JoinStep branches of prepare_execute_step / prepare_tfs_and_joinstep, JoinStep.execute = rel_join on "
        "the left object); tied per run: computed footprints = observed footprints, computed consumer table = received rows",
        "Model/RoutingJS.v: the premises own_okb (every JoinStep has its own transform step ...) and the plan shape of k joins on one "
        "right source are hand-written; own_okb is evaluated on the steps of every run of the shared_source family (begin order, "
        "set-iteration orders of the step objects that ran); tkey_eqb mirrors TransformFrameworkStep.__eq__ (tied by C04's planner "
        "correspondence, Model/PlannerL.tfs_key_eqb, not here)",
        "the planner (run_link, resolve_trekked_links, invert_link, fill_tfs_by_joinstep) is modelled by Model/PlannerL.v (C04's planner "
        "correspondence) and, for consumers ADMITTING several frameworks, Model/PlannerLM.v (hand-written: the admitted sets are the initial map of "
        "ResolveComputeFrameworks.links; tied by the both_frameworks family: every stage of the real preparation = the model, observed plan "
        "satisfies the statement of PlannerL_two_root_both_frameworks); in the other families plans are exported; the merge kernels (the engines "
        "JoinStep._merge_data calls) are C12's subject",
        "Model/JoinCall.v (JoinStep._merge_data = engine(link.jointype, link.left_index, link.right_index) on (table of the object "
        "merged into, table read)) is hand-written; tied by the cross_over family: rows received (value columns) = merge_data rel_join "
        "(the Link) in Coq, = the rows received without the cross-over columns, = the table the run-time model computes",
        "generated consumer groups record the rows handed to their calculation; known-defect domains are Python predicates on "
        "the request (harness/c05.kf_domain); the recorded deviations arrow_join (PyArrow key-column handling), null_match_join "
        "(Pandas null keys) and flip_join (LEFT/RIGHT roles exchanged) are Gallina functions of the spec result defined in the "
        "harness (EXTRA), not theorems; in their domains the observation must equal them or the spec"]
    big = tier == "thorough"
    groups = build_specs(rng, big)
    specs = [s for k in ("base", "multikey", "data", "orient") for s in groups[k]]
    trees = groups["trees"] + groups["stars"]
    recs = [one(s) for s in specs + trees]
    found = False
    from harness import srctie      # source-text tie (Props/SrcTie.v): TransformFrameworkStep.__eq__ / __hash__ regenerated from the source text = the de-duplication key of transform steps
    found = (not srctie.check(rep)) or found
    dist: Dict[str, Any] = {"two_way": len(specs), "trees": len(trees), "generated": {k: len(v) for k, v in groups.items()},
                            "status": {}, "kf_domains": {}, "kf_outcome": {}, "correct": 0, "correct_inside_kf": 0}
    terms, idx = [], []
    for i, r in enumerate(recs):
        dist["status"][r["status"]] = dist["status"].get(r["status"], 0) + 1
        if r["status"] == "ok" and r["rows"] is not None:
            idx.append(i)
            terms.append(term(r["spec"], r["rows"]))
    bad, info = vlib.run_cases("C05", "join", REQ, "chk_join", terms, extra_defs=EXTRA, case_type=CASE_TY, shard=60) if terms else ([], {})
    bad_set = {idx[k] for k in bad}
    # disagreements inside a domain whose defect is a function of the spec result: defect model or spec, nothing else
    model_ok: set = set()
    chk_of = {k: strict_model(recs[idx[k]]["spec"], kf_domain(recs[idx[k]]["spec"])) for k in bad}
    for chk in sorted({c for c in chk_of.values() if c}):
        sel = [k for k in bad if chk_of[k] == chk]
        if sel:
            still, _ = vlib.run_cases("C05", "kf_" + chk, REQ, chk, [terms[k] for k in sel], extra_defs=EXTRA, case_type=CASE_TY, shard=60)
            model_ok |= {idx[k] for j, k in enumerate(sel) if j not in set(still)}
    # order independence of the SPEC on the generated inner trees and pure INNER / pure LEFT stars (theorems of C05alg;
    # evaluated here as a sanity check); mixed INNER+LEFT stars: counted, not a theorem
    tree_terms = [term(s, []) for s in trees]
    bad_oi, _ = vlib.run_cases("C05", "orderind", REQ, "chk_order_independent", tree_terms, extra_defs=EXTRA, case_type=CASE_TY, shard=60)
    dist["spec_order_dependent_mixed_stars"] = 0
    for k in bad_oi:
        if len({l["jt"] for l in trees[k]["links"]}) > 1:
            dist["spec_order_dependent_mixed_stars"] += 1
            continue
        if found:
            continue
        rep.finding(f"spec-order:{json.dumps(trees[k], sort_keys=True)}", "rel_join over an inner-link tree / a left star depends on the "
                    "application order (contradicts the associativity theorems)", {"kind": "spec", "spec": trees[k]})
        found = True
    # n-ary theorem (Props/C05nary.v): premises evaluated on every pure-INNER tree / star; premises + order dependence (or a
    # plan different from the comprehension, or the two executor copies disagreeing) contradicts the theorem
    inner_k = [k for k, s in enumerate(trees) if all(l["jt"] == "INNER" for l in s["links"])]
    nary_terms = [tree_terms[k] for k in inner_k]
    prem_false, _ = vlib.run_cases("C05", "nary_prem", REQ_NARY, "nary_prem", nary_terms, extra_defs=EXTRA_NARY, case_type=CASE_TY, shard=60) \
        if nary_terms else ([], {})
    bad_nary, info_nary = vlib.run_cases("C05", "nary", REQ_NARY, "chk_nary", nary_terms, extra_defs=EXTRA_NARY, case_type=CASE_TY, shard=60) \
        if nary_terms else ([], {})
    dist["nary"] = {"inner_trees_and_stars": len(inner_k), "premises_true": len(inner_k) - len(prem_false),
                    "premises_false": len(prem_false), "contradictions": len(bad_nary), "coq_eval_s": info_nary.get("coq_eval_s"),
                    "plans_per_tree": "all link orders x all orientations (n-1)! * 2^(n-1), each compared with all_matches"}
    for j in bad_nary[:3]:
        rep.finding(f"nary-contradiction:{json.dumps(trees[inner_k[j]], sort_keys=True)}",
                    "an inner-join tree satisfies nary_premises but its plans do not all compute all_matches / the link orders "
                    "disagree / the executor of Spec/RelNary.v differs from the harness copy (contradicts Props/C05nary.v)",
                    {"kind": "spec", "spec": trees[inner_k[j]]})
        found = True
    for j in prem_false[:3]:
        rep.finding(f"nary-premises-false:{json.dumps(trees[inner_k[j]], sort_keys=True)}",
                    "a generated pure-INNER tree / star does not satisfy nary_premises (uniform tables, keys in schemas, tree cuts, "
                    "overlap discipline): the order-independence theorem would be vacuous for it", {"kind": "spec", "spec": trees[inner_k[j]]})
        found = True
    # T2 routing with joins: footprints of every run (all domains); consumer table where the request is outside every defect domain
    rt_idx = [i for i, r in enumerate(recs) if r.get("route")]
    bad_rt, info_rt = routing_j.check_routes("C05", "routex", [recs[i]["route"] for i in rt_idx])
    seen_idx = [i for i in rt_idx if recs[i]["status"] == "ok" and recs[i]["rows"] is not None and recs[i].get("consumer_sid") is not None
                and kf_domain(recs[i]["spec"]) is None]
    bad_seen, info_seen = routing_j.check_seen("C05", "seenx", [(recs[i]["route"][0], recs[i]["consumer_sid"], cq_table(recs[i]["rows"]))
                                                                 for i in seen_idx])
    for k in bad_rt[:5]:
        i = rt_idx[k]
        rep.finding(f"routex:{json.dumps(recs[i]['spec'], sort_keys=True)}",
                    "the objects the steps (feature-group, transform and join steps) worked on are not the ones Model/RoutingJ.v computes "
                    "from the exported plan and the begin order", {"kind": "e2e", "spec": recs[i]["spec"], "status": recs[i]["status"]})
        found = True
    for k in bad_seen[:5]:
        i = seen_idx[k]
        rep.finding(f"seenx:{json.dumps(recs[i]['spec'], sort_keys=True)}",
                    "the rows the consumer received are not the table Model/RoutingJ.v computes for its object (rel_join applied by the "
                    "plan's join steps in begin order)", {"kind": "e2e", "spec": recs[i]["spec"], "rows": recs[i]["rows"]})
        found = True
    rep.add("routing_with_joins", {**info_rt, "runs": len(rt_idx), "footprint_disagreements": len(bad_rt),
                                   "consumer_tables_compared": len(seen_idx), "consumer_table_disagreements": len(bad_seen),
                                   "coq_eval_s_seen": info_seen.get("coq_eval_s")})
    counters: Dict[str, Dict[str, int]] = {}
    correct_by: Dict[str, Dict[str, int]] = {}
    for i, r in enumerate(recs):
        spec = r["spec"]
        dom = kf_domain(spec)
        if dom:
            dist["kf_domains"][dom] = dist["kf_domains"].get(dom, 0) + 1
        d = dims(spec)
        for k, v in d.items():
            counters.setdefault(k, {})
            counters[k][v] = counters[k].get(v, 0) + 1
        key = json.dumps(spec, sort_keys=True)
        rep.nontrivial(("spec", spec["links"], [g.get("cfw") for g in spec["groups"]], [g.get("cols") for g in spec["groups"] if g["kind"] == "root"]))
        wrong = None
        if r["status"] == "ok" and (r["rows"] is None or i in bad_set):
            wrong = "the rows received by the consumer are not the join described by the Links"
        elif r["status"] == "raised":
            wrong = f"the accepted request raised at run time: {r['exc']}"
        elif r["status"] == "hang":
            wrong = "the run did not terminate"
        elif r["status"] == "rejected" and not (spec["links"][0]["jt"] == "RIGHT" and len({g.get('cfw') for g in spec['groups']}) == 1):
            wrong = f"request rejected at prepare: {r['exc']}"
        if dom:
            oc = "equal to the specified join" if wrong is None and r["status"] == "ok" else "rejected (accepted rule)" if wrong is None \
                else "equal to the recorded defect model" if i in model_ok else "other failure (raise / wrong rows)"
            dist["kf_outcome"].setdefault(dom, {})
            dist["kf_outcome"][dom][oc] = dist["kf_outcome"][dom].get(oc, 0) + 1
        if wrong is None:
            if r["status"] == "ok":
                dist["correct"] += 1
                dist["correct_inside_kf"] += bool(dom)
                for k in ("key_arity", "name_class", "data_variant"):
                    correct_by.setdefault(k, {})
                    correct_by[k][d[k]] = correct_by[k].get(d[k], 0) + 1
            continue
        replay = {"kind": "e2e", "spec": spec, "status": r["status"], "exc": r.get("exc"), "rows": r.get("rows"), "dims": d}
        if strict_model(spec, dom) and i not in model_ok:
            rep.finding(f"join:{key}", wrong + f" (request in domain {dom}, but the observation is neither the recorded defect nor the "
                        "specified join)", replay)
            found = True
        elif dom in RAISE_PAT and not (r["status"] == "raised" and RAISE_PAT[dom] in str(r.get("exc"))):
            rep.finding(f"join:{key}", wrong + f" (request in domain {dom}, but the failure is not the recorded one)", replay)
            found = True
        elif dom:
            rep.finding(dom, wrong, replay)
        else:
            rep.finding(f"join:{key}", wrong, replay)
            found = True
    # family derived_side: the consumer also depends on a feature derived IN PLACE from one of the linked sources (a step between the
    # source and the transform / join steps); oracle = the Links' join of the source tables, the derived side extended by the column
    from harness import c05_derived
    fam = [(s, o) for s, o in c05_derived.family(rng, big) if kf_domain(o) is None]
    drecs = [one(s) for s, _o in fam]
    dterms, didx = [], []
    dstat: Dict[str, int] = {}
    for i, r in enumerate(drecs):
        dstat[r["status"]] = dstat.get(r["status"], 0) + 1
        if r["status"] == "ok" and r["rows"] is not None:
            didx.append(i)
            dterms.append(term(fam[i][1], r["rows"]))
        else:
            rep.finding(f"derived-side:{json.dumps(fam[i][0], sort_keys=True)}",
                        f"consumer over a linked source and a feature derived from it in place: the request did not run ({r['status']}: {r.get('exc')})",
                        {"kind": "derived", "spec": fam[i][0], "oracle": fam[i][1], "status": r["status"], "exc": r.get("exc")})
            found = True
    dbad = vlib.run_cases("C05", "derived", REQ, "chk_join", dterms, extra_defs=EXTRA, case_type=CASE_TY, shard=60)[0] if dterms else []
    for k in dbad[:6]:
        i = didx[k]
        rep.finding(f"derived-side:{json.dumps(fam[i][0], sort_keys=True)}",
                    "consumer over a linked source and a feature derived from it in place: the rows received are not the Links' join of the "
                    "source tables with the derived column (e.g. the other framework's copy was taken before the derived step ran)",
                    {"kind": "derived", "spec": fam[i][0], "oracle": fam[i][1], "rows": drecs[i]["rows"]})
        found = True
    dist["derived_side"] = {"requests": len(fam), "status": dstat, "compared": len(dterms), "disagreements": len(dbad)}
    # family append_union (harness/c05_append.py): APPEND / UNION links end to end against rel_append / rel_union
    from harness import c05_append
    afam = c05_append.family(rng, big)
    arecs = [one(s) for s in afam]
    aterms, aidx = [], []
    astat: Dict[str, int] = {}
    for i, r in enumerate(arecs):
        astat[r["status"]] = astat.get(r["status"], 0) + 1
        if r["status"] == "ok" and r["rows"] is not None:
            aidx.append(i)
            aterms.append(term(afam[i], r["rows"]))
    abad = set(aidx[k] for k in (vlib.run_cases("C05", "append_union", REQ, "chk_join", aterms, extra_defs=EXTRA, case_type=CASE_TY, shard=60)[0]
                                 if aterms else []))
    akf: Dict[str, int] = {}
    for i, r in enumerate(arecs):
        spec_a = afam[i]
        dom = c05_append.kf_of(spec_a)
        ok = r["status"] == "ok" and r["rows"] is not None and i not in abad
        if ok:
            continue
        what = (f"{spec_a['links'][0]['jt']} link: " + ("the rows received by the consumer are not the appended / united source tables" if r["status"] == "ok"
                else f"the request did not run ({r['status']}: {r.get('exc')})"))
        replay = {"kind": "append", "spec": spec_a, "status": r["status"], "exc": r.get("exc"), "rows": r.get("rows")}
        recorded = (dom in c05_append.RAISE and r["status"] == "raised" and c05_append.RAISE[dom] in str(r.get("exc"))) or \
                   (dom == c05_append.KF_UNION_PYDICT and r["status"] == "ok")
        if dom and recorded:
            akf[dom] = akf.get(dom, 0) + 1
            rep.finding(dom, what, replay)
        else:
            rep.finding(f"append-union:{json.dumps(spec_a, sort_keys=True)}", what + (f" (request in domain {dom}, but this is not the recorded failure)" if dom else ""), replay)
            found = True
    dist["append_union"] = {"requests": len(afam), "status": astat, "compared": len(aterms), "disagreements": len(abad), "in_recorded_domains": akf}
    # family shared_source (harness/c05_shared.py): k = 2..3 independent joins sharing ONE source, one consumer per join, every
    # consumer judged against rel_join of its own Link; premises of Props/C05shared.v evaluated on the steps of every run
    from harness import c05_shared
    n_sh, found_sh, dist["shared_source"] = c05_shared.run_family(rep, rng, big)
    found = found or found_sh
    # family cross_over (harness/c05_cross.py): differently named keys, each table also carrying a column named like the OTHER side's
    # key; the join must follow the Link's declaration (Props/C05keys.v), not the column names
    from harness import c05_cross
    n_x, found_x, dist["cross_over"] = c05_cross.run_family(rep, rng, big)
    found = found or found_x
    # family both_frameworks (harness/c05_both.py): the consumer ADMITS several frameworks (compute_framework_rule returns a set); rows
    # against rel_join, the real preparation against Model/PlannerLM.v, the observed plan against Props/C05both.v
    from harness import c05_both
    n_b, found_b, dist["both_frameworks"] = c05_both.run_family(rep, rng, big)
    found = found or found_b
    rep.count(len(recs) + len(drecs) + len(arecs) + n_sh + n_x + n_b)
    dist["dimensions"] = counters
    dist["equal_to_spec_by_dimension"] = correct_by
    rep.add("distribution", dist)
    rep.add("join_vs_spec", {**info, "cases": len(terms), "disagreements": len(bad), "disagreements_equal_to_defect_model": len(model_ok)})
    rep.add("rule", "two-way: {INNER, LEFT, RIGHT, OUTER} x key arity 1-3 x key-name class (equal / different / mixed; alphabetical "
                    "order of the names permuting the sides equally / differently) x data variant (unique overlapping or disjoint, "
                    "duplicate, null keys; multi-column tuples sensitive to every positional mis-pairing) x framework of left "
                    "source x framework of right source x consumer framework (one of the two) x link orientation (Link(A,B) / "
                    "Link(B,A) on the same tables); n-way: chains/stars of 3-4 sources joined by inner links on k, 3-source stars "
                    "with INNER/LEFT mixes anchored at the left table. Every case is distinct by tables and configuration")
    ok = [r for r in recs if r["status"] == "ok" and r.get("rows")]
    if ok:
        rep.sample({"spec": ok[0]["spec"], "rows_received": ok[0]["rows"]})
        for want in ("multikey", "stars"):
            for r in ok:
                if r["spec"] in groups[want] and kf_domain(r["spec"]) is None:
                    rep.sample({"spec": r["spec"], "rows_received": r["rows"]})
                    break
    if not pr.ok and not found:
        rep.finding("proof-broken", "Props/C05.v no longer checks",
                    {"failed_files": pr.failed_files, "forbidden": pr.forbidden, "log_tail": pr.log[-3000:]}, found_input=False)


def replay(path: str) -> int:
    r = json.load(open(path))["replay"]
    if r.get("kind") == "srctie":
        from harness import srctie
        srctie.replay(r, show=True)
        return 0
    install()
    spec = r["spec"]
    if r.get("kind") == "shared":
        from harness import c05_shared
        return c05_shared.replay(r)
    if r.get("kind") == "cross":
        from harness import c05_cross
        return c05_cross.replay(r)
    if r.get("kind") == "both":
        from harness import c05_both
        return c05_both.replay(r)
    if r.get("kind") == "append":
        rec = one(spec)
        print(json.dumps({k: rec.get(k) for k in ("status", "exc", "rows")}, indent=1, default=str))
        if rec["status"] == "ok" and rec.get("rows") is not None:
            bad, _ = vlib.run_cases("C05", "replay", REQ, "chk_join", [term(spec, rec["rows"])], extra_defs=EXTRA, case_type=CASE_TY)
            print("rows received = rel_append / rel_union of the source tables:", not bad)
        return 0
    if r.get("kind") == "derived":
        rec = one(spec)
        print(json.dumps({k: rec.get(k) for k in ("status", "exc", "rows")}, indent=1, default=str))
        if rec["status"] == "ok" and rec.get("rows") is not None:
            bad, _ = vlib.run_cases("C05", "replay", REQ, "chk_join", [term(r["oracle"], rec["rows"])], extra_defs=EXTRA, case_type=CASE_TY)
            print("rows received = rel_join of the Links over the source tables extended by the derived column:", not bad)
        return 0
    rec = one(spec)
    dom = kf_domain(spec)
    print(json.dumps({k: rec.get(k) for k in ("status", "exc", "rows")}, indent=1, default=str), "kf domain:", dom, "dims:", dims(spec))
    if rec["status"] == "ok" and rec.get("rows") is not None:
        t = [term(spec, rec["rows"])]
        bad, _ = vlib.run_cases("C05", "replay", REQ, "chk_join", t, extra_defs=EXTRA, case_type=CASE_TY)
        print("rows received = rel_join of the Links:", not bad)
        chk = strict_model(spec, dom)
        if bad and chk:
            bad2, _ = vlib.run_cases("C05", "replay_kf", REQ, chk, t, extra_defs=EXTRA, case_type=CASE_TY)
            print(f"rows received = recorded defect model ({chk}):", not bad2)
    return 0
