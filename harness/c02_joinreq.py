"""C02 family "requested SOURCE features next to a consumer that needs a join of that source".

Request = [f1 (needs R0.a and R1.b, joined by a Link), a and / or b].  The reference evaluation of a requested source feature is
its source column: the rows returned for `a` are R0's rows (a multiset of a-values) whatever the join does to R0's object
afterwards (an inner join drops rows, a left/outer join pads rows).  The result of a finished feature-group step must therefore be
collected from its object BEFORE a later step (the JoinStep) replaces the object's data - in SYNC mode the JoinStep runs inline in
the very pass in which it becomes ready (seed C02_r5 defers the collection to the end of the pass).

Keys are generated partly overlapping (harness/c05.gen_key_data "unique": the join changes the row set); requests inside the
recorded join-defect domains of C05 (harness/c05.kf_domain) are left out.  Judged directly; the expected column is also what
Spec/RefEval gives for a root feature (the source column), evaluated in Coq as `chk_src` on every case.
"""
from __future__ import annotations

import itertools
import json
import random
from typing import Any, Dict, List, Optional, Tuple

from lib import vlib
from lib.vlib import cq_list, cq_z
from harness.universe import Universe, Listener, table_rows

CF = ["PyArrowTable", "PandasDataFrame", "PythonDictFramework"]
REQ = ["MV.Spec.RefEval"]
EXTRA = """
(* a requested ROOT feature: the reference value is the source column itself (ref_eval of a feature without definition reads the
   source environment); the returned multiset must be a permutation of it *)
Fixpoint countZ (x : option Z) (l : list (option Z)) : nat :=
  match l with [] => 0 | y :: t => (if match x, y with Some a, Some b => Z.eqb a b | None, None => true | _, _ => false end then 1 else 0) + countZ x t end.
Definition chk_src (c : list (option Z) * list (option Z)) : bool :=
  Nat.eqb (List.length (fst c)) (List.length (snd c)) && forallb (fun x => Nat.eqb (countZ x (fst c)) (countZ x (snd c))) (fst c).
"""


def specs(rng: random.Random, big: bool) -> List[Dict[str, Any]]:
    from harness import c05
    out = []
    combos = [(ca, cb) for ca, cb in itertools.product(CF, CF)]
    for jt in ("INNER", "LEFT", "OUTER"):
        for ca, cb in combos:
            for extra in (["a"], ["b"], ["a", "b"]):
                if not big and rng.random() < 0.55:
                    continue
                ka, kb = c05.gen_key_data(rng, 1, "unique")
                if len(set(ka) & set(kb)) in (len(ka), 0) and len(ka) == len(kb):
                    ka, kb = c05.gen_key_data(rng, 1, "unique")
                spec = c05.two_way(rng, jt, ["k"], ["k"], ka, kb, ca, cb)
                if c05.kf_domain(spec):
                    continue
                req = ["f1"] + extra
                rng.shuffle(req)
                spec["request"] = req
                spec["family"] = "join_plus_requested_source"
                out.append(spec)
    return out


def one(spec: Dict[str, Any], mode: str = "SYNC") -> Dict[str, Any]:
    from mloda.user import ParallelizationMode
    uni = Universe(spec, Listener())
    rec: Dict[str, Any] = {"spec": spec, "mode": mode}
    try:
        res = uni.run_all({getattr(ParallelizationMode, mode)})
    except BaseException as e:  # noqa: BLE001
        rec["status"] = "raised"
        rec["exc"] = f"{type(e).__name__}: {' '.join(str(e).split())[-160:]}"
        uni.dispose()
        return rec
    uni.dispose()
    rec["status"] = "ok"
    cols: Dict[str, List[Any]] = {}
    for t in res:
        rows = table_rows(t)
        names = sorted({k for r in rows for k in r}) if rows else []
        for n in names:
            cols.setdefault(n, []).append([r.get(n) for r in rows])
    rec["cols"] = cols
    return rec


def _canon(v: Any) -> Any:
    """None / NaN / pd.NA -> None; integral floats (a null-padded pandas column is float) -> int."""
    if v is None:
        return None
    try:
        if v != v:
            return None
    except Exception:  # noqa: BLE001  (pd.NA)
        return None
    if isinstance(v, float) and v == int(v):
        return int(v)
    return v


def family(rep: Any, rng: random.Random, big: bool) -> bool:
    ss = specs(rng, big)
    found = False
    terms, idx = [], []
    n_change = 0
    info = {"requests": len(ss), "raised": 0, "columns_compared": 0, "joins_that_change_the_row_set": 0}
    for spec in ss:
        g = {x["name"]: x for x in spec["groups"]}
        for mode in (("SYNC", "THREADING") if big else ("SYNC",)):
            rec = one(spec, mode)
            rep.count(1)
            key = f"joinreq:{mode}:{json.dumps(spec, sort_keys=True)}"
            if rec["status"] != "ok":
                info["raised"] += 1
                rep.finding(key, f"request {spec['request']} (a join consumer and a source feature, {spec['links'][0]['jt']}, "
                                 f"{g['R0']['cfw']} / {g['R1']['cfw']}, {mode}) raised: {rec['exc']}", {"kind": "joinreq", **rec})
                found = True
                continue
            ka, kb = set(g["R0"]["cols"]["k"]), set(g["R1"]["cols"]["k"])
            if ka != kb:
                n_change += 1
            rep.nontrivial(("joinreq", spec["links"][0]["jt"], g["R0"]["cfw"], g["R1"]["cfw"], tuple(spec["request"]), ka != kb))
            for name, root in (("a", "R0"), ("b", "R1")):
                if name not in spec["request"]:
                    continue
                got = rec["cols"].get(name)
                want = list(g[root]["cols"][name])
                if not got or len(got) != 1:
                    rep.finding(key + ":" + name, f"requested source feature {name!r} occurs in {len(got or [])} returned table(s) "
                                                  f"(request {spec['request']}, {mode})", {"kind": "joinreq", **rec})
                    found = True
                    continue
                info["columns_compared"] += 1
                got = [[_canon(v) for v in got[0]]]
                if any(v is not None and not isinstance(v, int) for v in got[0]):
                    rep.finding(key + ":" + name, f"requested source feature {name!r} was returned with non-integer values {got[0]} "
                                                  f"(source rows {want}; request {spec['request']}, {mode})", {"kind": "joinreq", **rec})
                    found = True
                    continue
                terms.append(f"({cq_list('(Some ' + cq_z(v) + ')' if v is not None else 'None' for v in got[0])}, "
                             f"{cq_list('(Some ' + cq_z(v) + ')' if v is not None else 'None' for v in want)})")
                idx.append((key + ":" + name, name, got[0], want, rec))
    bad = vlib.run_cases("C02", "joinreq", REQ, "chk_src", terms, extra_defs=EXTRA, case_type="list (option Z) * list (option Z)", shard=200)[0] if terms else []
    for k in bad:
        key, name, got, want, rec = idx[k]
        spec = rec["spec"]
        rep.finding(key, f"requested source feature {name!r} was returned with the rows {sorted(got, key=str)} instead of its source rows "
                         f"{sorted(want, key=str)} (request {spec['request']} also needs the {spec['links'][0]['jt']} join of that source; "
                         f"{rec['mode']}): the step's result was taken from its object after the join had replaced the object's data",
                    {"kind": "joinreq", **rec})
        found = True
    info["joins_that_change_the_row_set"] = n_change
    rep.add("join_plus_requested_source_family", info)
    return found


def replay(r: Dict[str, Any]) -> int:
    rec = one(r["spec"], r.get("mode", "SYNC"))
    print({k: v for k, v in rec.items() if k != "spec"})
    return 0
