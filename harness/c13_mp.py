"""C13 under MULTIPROCESSING: streamed = batch, consumer behaviours (stop after k items for every k, exception in the
consumer), and what an abandoned / failed generator leaves behind (worker processes, datasets in the long-lived Flight
store) - the 'still releases the run's resources' clause of the property in the mode where resources outlive threads.

mp_family(specs, n) -> (list of (spec, problem text), info)
"""
from __future__ import annotations

import gc
import multiprocessing
import threading
import time
from typing import Any, Dict, List, Tuple

from harness.universe import Universe
from harness.orch import GateListener, flight_server, flight_keys
from harness.c01 import canon_result


def _left(base_procs: set, keys_before: set) -> Tuple[int, int]:
    gc.collect()
    deadline = time.time() + 3.0
    while time.time() < deadline:
        pr = [p for p in multiprocessing.active_children() if p.pid not in base_procs]
        if not pr:
            break
        time.sleep(0.02)
    pr = [p for p in multiprocessing.active_children() if p.pid not in base_procs]
    n = len(pr)
    for p in pr:                      # reported below; must not block later runs or the exit of the check
        try:
            p.terminate()
            p.join(2)
            if p.is_alive():
                p.kill()
        except Exception:  # noqa: BLE001
            pass
    return n, len(flight_keys() - keys_before)


def _call(fn: Any, timeout: float = 40.0) -> Tuple[str, Any]:
    box: Dict[str, Any] = {}

    def target() -> None:
        try:
            box["r"] = fn()
            box["s"] = "ok"
        except BaseException as e:  # noqa: BLE001
            box["s"], box["r"] = "raised", e
    th = threading.Thread(target=target, daemon=True)
    th.start()
    th.join(timeout)
    if th.is_alive():
        return "hang", None
    return box["s"], box["r"]


def one(spec: Dict[str, Any]) -> Tuple[List[str], Dict[str, int]]:
    from mloda.user import ParallelizationMode
    mode = {ParallelizationMode.MULTIPROCESSING}
    fs = flight_server()
    problems: List[str] = []
    cnt = {"runs": 0, "abandoned": 0}
    uni = Universe(spec, GateListener())
    sess = uni.prepare()
    base_procs = {p.pid for p in multiprocessing.active_children()}
    keys0 = flight_keys()
    st, batch = _call(lambda: canon_result(sess.run(parallelization_modes=mode, flight_server=fs)))
    cnt["runs"] += 1
    if st != "ok":
        return ([] if st == "raised" else ["MULTIPROCESSING: batch run did not end"]), cnt      # mode differences are C06's subject
    st, tables = _call(lambda: list(sess.stream_run(parallelization_modes=mode, flight_server=fs)))
    cnt["runs"] += 1
    if st != "ok":
        problems.append(f"MULTIPROCESSING: batch ok but streamed run {st}: {str(tables)[-120:]}")
        return problems, cnt
    if canon_result(tables) != batch:
        problems.append("MULTIPROCESSING: multiset of streamed tables differs from the batch result")
    p, k = _left(base_procs, keys0)
    if p or k:
        problems.append(f"MULTIPROCESSING: after a fully drained stream {p} worker process(es) alive, {k} dataset(s) left in the Flight store")
    n_items = len(tables)
    for stop in range(n_items + 1):
        def abandoned(stop: int = stop) -> None:
            g = sess.stream_run(parallelization_modes=mode, flight_server=fs)
            for _ in range(stop):
                try:
                    next(g)
                except StopIteration:
                    break
            g.close()
        st, r = _call(abandoned)
        cnt["runs"] += 1
        cnt["abandoned"] += 1
        if st != "ok":
            problems.append(f"MULTIPROCESSING: abandoning the stream after {stop} item(s): {st} {str(r)[-120:]}")
        p, k = _left(base_procs, keys0)
        if p or k:
            problems.append(f"MULTIPROCESSING: stream abandoned after {stop} of {n_items} item(s): {p} worker process(es) alive, "
                            f"{k} dataset(s) left in the Flight store")

    def consumer_error() -> None:
        try:
            for _ in sess.stream_run(parallelization_modes=mode, flight_server=fs):
                raise RuntimeError("consumer-error")
        except RuntimeError as e:
            if "consumer-error" not in str(e):
                raise
    st, r = _call(consumer_error)
    cnt["runs"] += 1
    p, k = _left(base_procs, keys0)
    if st != "ok" or p or k:
        problems.append(f"MULTIPROCESSING: exception in the consumer: {st}; {p} worker process(es) alive, {k} dataset(s) left")
    st, again = _call(lambda: canon_result(list(sess.stream_run(parallelization_modes=mode, flight_server=fs))))
    cnt["runs"] += 1
    if st != "ok" or again != batch:
        problems.append("MULTIPROCESSING: streamed run after abandoned generators differs from batch / did not succeed")
    return problems, cnt


def mp_family(specs: List[Dict[str, Any]], n: int) -> Tuple[List[Tuple[Dict[str, Any], str]], Dict[str, int]]:
    out: List[Tuple[Dict[str, Any], str]] = []
    info = {"specs": 0, "runs": 0, "abandoned": 0}
    for spec in specs[:n]:
        try:
            probs, cnt = one(spec)
        except Exception as e:  # noqa: BLE001
            probs, cnt = [f"MULTIPROCESSING family crashed: {type(e).__name__}: {str(e)[-150:]}"], {"runs": 0, "abandoned": 0}
        info["specs"] += 1
        info["runs"] += cnt["runs"]
        info["abandoned"] += cnt["abandoned"]
        out += [(spec, p) for p in probs]
    return out, info
