"""C14 value level: abstract tables, native builders per framework, normalisation to rows, comparison with the
tolerances the property names.  Pure Python (pandas / pyarrow); nothing here goes to Coq.

Abstract table (JSON-safe, used in replays):
    {"cols": [{"name": str, "kind": "int"|"float"|"str"|"bool", "vals": [v, ...]}, ...], "n": rows}
    v is None (null) or: int -> int, float -> float.hex() string ("nan", "-0x0.0p+0", ...), str -> str, bool -> bool.

Normalised observation ("rows"): {"names": [...], "rows": [[cell, ...], ...]} with cell one of
    ["null"], ["int", n], ["float", hex], ["str", s], ["bool", b], ["other", repr].
  None, NaN, pd.NA, pd.NaT -> ["null"]   (the tolerated representation difference #1)
"""
from __future__ import annotations

import math
import random
from typing import Any, Dict, List, Optional, Tuple

FWS = ["PyArrowTable", "PandasDataFrame", "PythonDictFramework"]

INTS = [0, 1, -1, 2, 7, -128, 255, 2**31, -(2**31) - 1, 2**53, 2**53 + 1, -(2**53 + 1), 2**62 + 1, 2**63 - 1, -(2**63)]
FLOATS = [0.0, -0.0, float("nan"), 1.0, -1.0, 0.5, -2.75, 3.0, 0.125, float(2**53), float(2**53 + 2), 2.0**1023,
          -1.7976931348623157e308, 5e-324, 2.0**-1022, float("inf"), float("-inf"), 1e300]
STRS = ["", "a", "abc", " ", "A b", "é", "日本語", "\U0001f600", "a\nb", "tab\there", "NULL", "nan", "None", "0",
        "True", "naïve", "a\x00b", "'q'", "\"dq\"", "ßΩ"]
NAMES = ["a", "b", "c", "d", "col 1", "é", "x~y", "0", "A", "index", "__x__", "日"]


# ------------------------------------------------------------------------------------------------------------
# generation
# ------------------------------------------------------------------------------------------------------------

def enc(kind: str, v: Any) -> Any:
    if v is None:
        return None
    return float(v).hex() if kind == "float" else v


def dec(kind: str, v: Any) -> Any:
    if v is None:
        return None
    return float.fromhex(v) if kind == "float" else v


def gen_value(rng: random.Random, kind: str) -> Any:
    if kind == "int":
        return rng.choice(INTS) if rng.random() < 0.55 else rng.randint(-1000, 1000)
    if kind == "float":
        if rng.random() < 0.6:
            return rng.choice(FLOATS)
        return rng.randint(-2**20, 2**20) / float(2 ** rng.randint(0, 12))          # dyadic
    if kind == "str":
        return rng.choice(STRS)
    return rng.random() < 0.5


def gen_table(rng: random.Random, max_rows: int = 5) -> Dict[str, Any]:
    n = rng.choice([0, 1, 1, 2, 2, 3, 3, 4, 5]) if max_rows >= 5 else rng.randint(0, max_rows)
    ncols = rng.choice([1, 1, 2, 2, 3, 4])
    names = rng.sample(NAMES, ncols)
    cols = []
    for name in names:
        kind = rng.choice(["int", "int", "float", "float", "str", "bool"])
        p_null = rng.choice([0.0, 0.0, 0.25, 0.5, 1.0 if rng.random() < 0.15 else 0.3])
        vals = [None if rng.random() < p_null else enc(kind, gen_value(rng, kind)) for _ in range(n)]
        cols.append({"name": name, "kind": kind, "vals": vals})
    return {"cols": cols, "n": n}


def fixed_tables() -> List[Dict[str, Any]]:
    """Deterministic corpus run first in every tier: each value class at least once, alone and with a null."""
    out: List[Dict[str, Any]] = [{"cols": [], "n": 0}]
    for kind, pool in (("int", INTS), ("float", FLOATS), ("str", STRS), ("bool", [True, False])):
        vals = [enc(kind, v) for v in pool]
        for chunk in range(0, len(vals), 5):
            part = vals[chunk:chunk + 5]
            out.append({"cols": [{"name": "a", "kind": kind, "vals": part}], "n": len(part)})
            withnull = part[:4] + [None]
            out.append({"cols": [{"name": "a", "kind": kind, "vals": withnull}], "n": len(withnull)})
        out.append({"cols": [{"name": "a", "kind": kind, "vals": []}], "n": 0})
        out.append({"cols": [{"name": "a", "kind": kind, "vals": [None, None]}], "n": 2})
    out.append({"cols": [{"name": nm, "kind": "int", "vals": [i]} for i, nm in enumerate(NAMES)], "n": 1})
    out.append({"cols": [{"name": "a", "kind": "int", "vals": []}, {"name": "b", "kind": "str", "vals": []}], "n": 0})
    return out


def variants(fw: str, t: Dict[str, Any]) -> List[str]:
    if fw == "PyArrowTable":
        return ["typed", "chunked"] if t["n"] >= 2 else ["typed"]
    if fw == "PandasDataFrame":
        return ["infer", "nullable", "infer+index", "nullable+index"]
    return ["plain", "shuffled"] if (t["n"] >= 2 and len(t["cols"]) >= 2) else ["plain"]


# ------------------------------------------------------------------------------------------------------------
# native builders
# ------------------------------------------------------------------------------------------------------------

def build(fw: str, t: Dict[str, Any], variant: str) -> Any:
    import pyarrow as pa
    import pandas as pd
    cols = [(c["name"], c["kind"], [dec(c["kind"], v) for v in c["vals"]]) for c in t["cols"]]
    n = t["n"]
    if fw == "PythonDictFramework":
        rows = [{name: vals[i] for name, _, vals in cols} for i in range(n)]
        if variant == "shuffled":
            rows = [rows[0]] + [dict(reversed(list(r.items()))) for r in rows[1:]]
        return rows
    if fw == "PyArrowTable":
        ty = {"int": pa.int64(), "float": pa.float64(), "str": pa.string(), "bool": pa.bool_()}
        arrays, names = [], []
        for name, kind, vals in cols:
            # from_pandas=False: NaN stays NaN, None is null
            arr = pa.array(vals, type=ty[kind], from_pandas=False)
            if variant == "chunked" and n >= 2:
                arr = pa.chunked_array([arr.slice(0, 1), arr.slice(1)])
            arrays.append(arr)
            names.append(name)
        return pa.Table.from_arrays(arrays, names=names) if names else pa.table({})
    # pandas
    base, _, idx = variant.partition("+")
    data = {}
    for name, kind, vals in cols:
        if base == "nullable":
            dt = {"int": "Int64", "float": "Float64", "str": "string", "bool": "boolean"}[kind]
            data[name] = pd.array([pd.NA if v is None else v for v in vals], dtype=dt)
        else:
            data[name] = list(vals)
    df = pd.DataFrame(data, index=pd.RangeIndex(n)) if data else pd.DataFrame(index=pd.RangeIndex(n))
    if idx:
        # what `df.sort_values(..)` / `df[mask]` leave behind: an integer Index that is not a RangeIndex
        df.index = pd.Index([3 * i + 1 + (i % 2) for i in range(n)], dtype="int64")
    return df


# ------------------------------------------------------------------------------------------------------------
# normalisation
# ------------------------------------------------------------------------------------------------------------

def norm_cell(v: Any) -> List[Any]:
    import numpy as np
    import pandas as pd
    if v is None or v is pd.NA or v is pd.NaT:
        return ["null"]
    if isinstance(v, (bool, np.bool_)):
        return ["bool", bool(v)]
    if isinstance(v, (int, np.integer)):
        return ["int", int(v)]
    if isinstance(v, (float, np.floating)):
        f = float(v)
        return ["null"] if math.isnan(f) else ["float", f.hex()]
    if isinstance(v, str):
        return ["str", v]
    return ["other", f"{type(v).__name__}:{v!r}"[:80]]


def to_rows(native: Any) -> Dict[str, Any]:
    """Observation of a native table, whatever its framework."""
    import pyarrow as pa
    import pandas as pd
    if isinstance(native, pa.Table):
        names = list(native.column_names)
        cols = [native.column(j).to_pylist() for j in range(native.num_columns)]
        n = native.num_rows
        kind = "pa.Table"
    elif isinstance(native, pd.DataFrame):
        names = [x if isinstance(x, str) else f"<{type(x).__name__}:{x!r}>" for x in native.columns]
        cols = [native.iloc[:, j].tolist() for j in range(native.shape[1])]
        n = int(native.shape[0])
        kind = "pd.DataFrame"
    elif isinstance(native, list):
        n = len(native)
        kind = "list"
        if any(not isinstance(r, dict) for r in native):
            return {"type": "list", "names": None, "rows": None, "n": n, "bad": "non-dict row"}
        names = list(native[0].keys()) if native else []
        for r in native:
            if set(r.keys()) != set(names):
                return {"type": "list", "names": names, "rows": None, "n": n, "bad": "ragged rows"}
        cols = [[r[nm] for r in native] for nm in names]
        names = [x if isinstance(x, str) else f"<{type(x).__name__}:{x!r}>" for x in names]
    else:
        return {"type": type(native).__name__, "names": None, "rows": None, "n": None, "bad": "not a table"}
    rows = [[norm_cell(cols[j][i]) for j in range(len(names))] for i in range(n)]
    return {"type": kind, "names": names, "rows": rows, "n": n}


def expected_rows(t: Dict[str, Any]) -> Dict[str, Any]:
    names = [c["name"] for c in t["cols"]]
    rows = []
    for i in range(t["n"]):
        row = []
        for c in t["cols"]:
            v = dec(c["kind"], c["vals"][i])
            row.append(norm_cell(v))
        rows.append(row)
    return {"names": names, "rows": rows, "n": t["n"]}


# ------------------------------------------------------------------------------------------------------------
# comparison
# ------------------------------------------------------------------------------------------------------------
# deviation kinds (everything except "ok" is a failure of the property; which of them are KNOWN findings is decided in
# c14.py by (kind, domain), never here):
#   names:index_leak        the target has the source's columns plus __index_level_N__ columns
#   names:lost_on_empty     zero rows and the target has no columns at all although the source had some
#   names                   any other difference of the column name lists (content or order)
#   nrows                   different number of rows
#   widen:precision         nullable int column widened to float and the integer is not representable: value changed
#   widen:unforced          int became float in a column without any null
#   value                   any other cell difference (sign of zero, bool vs int, string content, order of rows ...)
#   shape                   the output is not a table of the expected kind

def cell_ok(src: List[Any], out: List[Any], col_has_null: bool) -> str:
    if src == out:
        return "ok"
    if src[0] == "int" and out[0] == "float":
        f = float.fromhex(out[1])
        n = src[1]
        if not col_has_null:
            return "widen:unforced"
        if math.isfinite(f) and f == int(f) and int(f) == n:
            return "ok"                                   # tolerated representation difference #2
        if math.isfinite(f) and f == float(n):
            return "widen:precision"
        return "value"
    return "value"


def compare(src: Dict[str, Any], out: Dict[str, Any]) -> List[Dict[str, Any]]:
    """Deviations of `out` from `src` (both from to_rows / expected_rows). Empty list = preserved."""
    if out.get("rows") is None or out.get("names") is None:
        return [{"kind": "shape", "detail": out.get("bad") or out.get("type")}]
    devs: List[Dict[str, Any]] = []
    sn, on = src["names"], out["names"]
    if sn != on:
        extra = on[len(sn):]
        if on[:len(sn)] == sn and extra and all(x.startswith("__index_level_") and x.endswith("__") for x in extra):
            devs.append({"kind": "names:index_leak", "detail": extra})
            out = {"names": sn, "rows": [r[:len(sn)] for r in out["rows"]], "n": out["n"]}
        elif src["n"] == 0 and out["n"] == 0 and on == [] and sn:
            return [{"kind": "names:lost_on_empty", "detail": sn}]
        else:
            return [{"kind": "names", "detail": {"src": sn, "out": on}}]
    if src["n"] != out["n"]:
        devs.append({"kind": "nrows", "detail": {"src": src["n"], "out": out["n"]}})
        return devs
    for j in range(len(sn)):
        has_null = any(r[j] == ["null"] for r in src["rows"])
        for i in range(src["n"]):
            k = cell_ok(src["rows"][i][j], out["rows"][i][j], has_null)
            if k != "ok":
                devs.append({"kind": k, "detail": {"row": i, "col": sn[j], "src": src["rows"][i][j], "out": out["rows"][i][j]}})
    return devs


def source_faithful(t: Dict[str, Any], src: Dict[str, Any]) -> bool:
    """Does the native source table show the abstract table (up to the two tolerances)?  If not, the framework cannot
    represent it (e.g. list-of-dicts with 0 rows has no columns; pandas' constructor already widened the ints) and the
    observation of the source, not the abstract table, is what must be preserved."""
    return compare(expected_rows(t), src) == []
