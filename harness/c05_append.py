"""C05 family `append_union`: APPEND and UNION links end to end.

  R0 (left source), R1 (right source), both with index column k; Link.append / Link.union (R0.k, R1.k)
  D1 consumer over a value column of each source; its input features carry index=Index(("k",)) - that is how
  ExecutionPlan.create_joinstep_in_case_of_append_or_union finds the two sides
The table the consumer must receive is rel_append / rel_union of Spec/Rel.v: the rows of R0 followed by the rows of R1, columns
of the other source null (union: duplicate rows removed).  Tables have overlapping, duplicate and null keys and, for UNION,
repeated whole rows inside one source.
Domains recorded on the unchanged tree (decided on the request): on PyArrowTable APPEND raises "Schemas of the tables do not
match" for every two sources (two feature groups never produce the same column set) and UNION is not implemented; they are
reported as known findings only when the run raises exactly that.
"""
from __future__ import annotations

import random
from typing import Any, Dict, List, Optional, Tuple

CF = ["PyArrowTable", "PandasDataFrame", "PythonDictFramework"]
KF_APPEND_ARROW = "C05-append-link-on-pyarrow-raises-schema-mismatch"
KF_UNION_ARROW = "C05-union-link-on-pyarrow-not-implemented"
KF_UNION_PYDICT = "C05-union-link-on-pydict-dedups-on-key"
RAISE = {KF_APPEND_ARROW: "Schemas of the tables do not match", KF_UNION_ARROW: "union are not yet implemented"}


def gen(rng: random.Random, jt: str, ca: str, cb: str, cc: str) -> Dict[str, Any]:
    n0, n1 = rng.randrange(1, 4), rng.randrange(1, 4)
    k0 = [rng.choice([1, 2, 3]) for _ in range(n0)]
    k1 = [rng.choice([2, 3, 4]) for _ in range(n1)]
    a = [rng.randrange(0, 3) for _ in k0]
    b = [rng.randrange(0, 3) for _ in k1]
    if jt == "UNION" and rng.random() < 0.6:
        k0.append(k0[0]); a.append(a[0])          # a repeated whole row inside the left source
    groups: List[Dict[str, Any]] = [
        {"name": "R0", "kind": "root", "cfw": ca, "cols": {"a": a, "k": k0}, "index": ["k"]},
        {"name": "R1", "kind": "root", "cfw": cb, "cols": {"b": b, "k": k1}, "index": ["k"]},
        {"name": "D1", "kind": "derived", "cfw": cc,
         "features": {"f1": {"inputs": ["a", "b"], "c0": 0, "coefs": [1, 1], "input_index": {"a": ["k"], "b": ["k"]}}}}]
    return {"groups": groups, "request": ["f1"], "links": [{"jt": jt, "l": "R0", "r": "R1", "li": ["k"], "ri": ["k"]}], "tolerant": True}


def kf_of(spec: Dict[str, Any]) -> Optional[str]:
    g = {x["name"]: x for x in spec["groups"]}
    jt = spec["links"][0]["jt"]
    # the merge runs on the left source's framework (the consumer's, for one framework)
    if g["R0"]["cfw"] == "PyArrowTable" or g["D1"]["cfw"] == "PyArrowTable":
        return KF_APPEND_ARROW if jt == "APPEND" else KF_UNION_ARROW
    if jt == "UNION" and g["R0"]["cfw"] == "PythonDictFramework":
        # the python-dict engine removes duplicates by the key column only (C12-pydict-union-dedups-on-key): inside this domain
        # iff two rows of the appended table share a key value
        ks = list(g["R0"]["cols"]["k"]) + list(g["R1"]["cols"]["k"])
        if len(set(ks)) < len(ks):
            return KF_UNION_PYDICT
    return None


def family(rng: random.Random, big: bool) -> List[Dict[str, Any]]:
    out = []
    for jt in ("APPEND", "UNION"):
        for cf in CF:
            for _ in range(6 if big else 2):
                out.append(gen(rng, jt, cf, cf, cf))
        for ca, cb in (("PandasDataFrame", "PythonDictFramework"), ("PythonDictFramework", "PandasDataFrame"), ("PandasDataFrame", "PyArrowTable")):
            for _ in range(3 if big else 1):
                out.append(gen(rng, jt, ca, cb, ca))
    return out
