"""C09 family `artifacts`: the first statement of the finally block of ExecutionOrchestrator.compute()/compute_stream(),
`set_artifacts(cfw_register.get_artifacts())`, runs BEFORE join(): if the accessor raises, nothing is cleaned up.

Theorems: coq/Props/C09artifacts.v over Model/Artifacts.v (register of the run + Model/Worker.v protocol):
C09_artifacts_call_never_raises, C09_artifacts_crash_unreachable, C09_every_exit_path_cleans_up (+ _refuted for a guarded accessor).
T2 (unit level, vm_compute): PRNG sequences of the real CfwManager.set_artifact_to_save / set_error, then the real finally
statement (DataLifecycleManager.set_artifacts(CfwManager.get_artifacts())) vs Model/Artifacts.v chk_artifacts.
End to end: generated feature groups WITH an artifact (FeatureGroup.artifact() -> BaseArtifact subclass with custom_saver,
features.save_artifact set in calculate_feature), requests in which an artifact-saving step completes and a later (dependent or
independent) step raises while a slow independent step is still busy; SYNC / THREADING / MULTIPROCESSING x run / stream, one
long-lived Flight server.  Judged after the call: worker processes, threads (incl. QueueFeederThread), step threads alive at
return, new Flight keys, the exception carries the injected message and is the same as in the artifact-free twin request, and
the orchestrator's artifacts contain what the completed steps saved (all of them in the fault-free variant).
"""
from __future__ import annotations

import json
import logging
import multiprocessing
import random
import threading
import time
from typing import Any, Dict, List, Optional, Set, Tuple

from lib import vlib
from lib.vlib import cq_bool, cq_list, cq_nat
from harness.universe import _dyn
from harness.orch import flight_server, flight_keys

logging.disable(logging.CRITICAL)
REQ = ["MV.Model.Orch", "MV.Model.Worker", "MV.Model.Artifacts"]
_SEQ = [0]
SLOW = {"SYNC": 0.05, "THREADING": 0.5, "MULTIPROCESSING": 8.0}   # the slow bystander: processes are terminated, threads are waited for


# ------------------------------------------------------------------------------------------------------------------
# unit level: the real register and the real finally statement vs the model
# ------------------------------------------------------------------------------------------------------------------
def register_cases(rng: random.Random, n: int) -> List[Tuple[str, dict]]:
    from mloda.core.core.cfw_manager import CfwManager
    from mloda.core.runtime.data_lifecycle_manager import DataLifecycleManager
    from mloda.user import ParallelizationMode
    out = []
    for i in range(n):
        reg = CfwManager({ParallelizationMode.SYNC})
        ops: List[Tuple[str, int, int]] = []
        k = rng.randrange(0, 6)
        p_err = rng.choice([0.0, 0.3, 0.6])
        for _ in range(k):
            if rng.random() < p_err:
                m = rng.randrange(1, 9)
                reg.set_error(f"msg{m}", f"exc{m}")
                ops.append(("RErr", m, 0))
            else:
                nm, v = rng.randrange(0, 4), rng.randrange(0, 50)
                try:
                    reg.set_artifact_to_save(f"n{nm}", v)
                    ops.append(("RSave", nm, v))
                except ValueError:
                    ops.append(("RDup", nm, v))
        dlm = DataLifecycleManager()
        returned, exc = True, None
        try:
            dlm.set_artifacts(reg.get_artifacts())          # the statement of run.py:135 / 193
        except Exception as e:  # noqa: BLE001
            returned, exc = False, f"{type(e).__name__}: {e}"[:200]
        arts = [(int(kk[1:]), vv) for kk, vv in dlm.get_artifacts().items()] if returned else []
        t_ops = cq_list((f"{o} {cq_nat(a)} {cq_nat(b)}" if o != "RErr" else f"RErr {cq_nat(a)}") for o, a, b in ops)
        t_arts = cq_list(f"({cq_nat(a)}, {cq_nat(b)})" for a, b in arts)
        term = f"({t_ops}, ({cq_bool(returned)}, {t_arts}))"
        out.append((term, {"ops": ops, "returned": returned, "exc": exc, "artifacts": arts,
                           "failed": any(o == "RErr" for o, _, _ in ops), "saved": sum(1 for o, _, _ in ops if o == "RSave")}))
    return out


# ------------------------------------------------------------------------------------------------------------------
# end to end: generated feature groups with artifacts
# ------------------------------------------------------------------------------------------------------------------
def gen_spec(rng: random.Random, shape: str) -> Dict[str, Any]:
    """nodes: name, deps, art (declares + saves an artifact), fail ('calc' | 'nosave' | None), slow, pre (sleep before acting)"""
    def nd(name: str, deps: List[str] = [], art: bool = False, fail: Optional[str] = None, slow: bool = False, pre: float = 0.0) -> Dict[str, Any]:
        return {"name": name, "deps": list(deps), "art": art, "fail": fail, "slow": slow, "pre": pre}
    n_extra = rng.randrange(0, 2)
    nodes: List[Dict[str, Any]]
    if shape == "dep":                # artifact root -> failing child; slow bystander
        nodes = [nd("A", art=True), nd("F", ["A"], fail="calc", pre=0.3), nd("S", slow=True)]
    elif shape == "indep":            # artifact root, INDEPENDENT failing root (later), slow bystander
        nodes = [nd("A", art=True), nd("F", fail="calc", pre=0.6), nd("S", slow=True)]
    elif shape == "chain":            # two artifact steps in a row, then the failure
        nodes = [nd("A", art=True), nd("B", ["A"], art=True), nd("F", ["B"], fail="calc", pre=0.3), nd("S", slow=True)]
    elif shape == "nosave":           # the failing step is itself an artifact step that does not provide its artifact
        nodes = [nd("A", art=True), nd("F", ["A"], art=True, fail="nosave", pre=0.3), nd("S", slow=True)]
    elif shape == "noart":            # failure without any artifact (control)
        nodes = [nd("A"), nd("F", ["A"], fail="calc", pre=0.3), nd("S", slow=True)]
    else:                             # "ok": fault-free, every artifact is returned
        nodes = [nd("A", art=True), nd("B", ["A"], art=rng.random() < 0.7), nd("S", art=rng.random() < 0.5)]
    for i in range(n_extra):
        nodes.append(nd(f"X{i}", [rng.choice(["A"])], art=rng.random() < 0.5))
    return {"shape": shape, "nodes": nodes, "val": rng.randrange(100)}


def build(spec: Dict[str, Any], mode_name: str, with_art: bool = True) -> Tuple[Dict[str, Any], str]:
    from mloda.provider import BaseArtifact, DataCreator, FeatureGroup
    from mloda.user import Feature
    from mloda_plugins.compute_framework.base_implementations.pyarrow.table import PyArrowTable
    import pyarrow as pa
    _SEQ[0] += 1
    tag = f"C9A{_SEQ[0]}"

    def custom_saver(cls: Any, features: Any, artifact: Any) -> Any:
        return ["saved", artifact]
    art_cls = type(f"{tag}_Art", (BaseArtifact,), {"custom_saver": classmethod(custom_saver)})
    art_cls.__module__, art_cls.__qualname__ = "harness.dynclasses", f"{tag}_Art"
    setattr(_dyn, art_cls.__name__, art_cls)
    classes: Dict[str, Any] = {}
    for n in spec["nodes"]:
        fname = f"{tag}_{n['name']}"
        sleep = (SLOW[mode_name] if n["slow"] else 0.0) + n["pre"]
        has_art = bool(n["art"] and with_art)

        def calculate_feature(cls: Any, data: Any, features: Any, n: Dict[str, Any] = n, fname: str = fname, sleep: float = sleep,
                              has_art: bool = has_art) -> Any:
            if sleep:
                time.sleep(sleep)
            if n["fail"] == "calc" or (n["fail"] == "nosave" and not has_art):
                raise RuntimeError(f"VERIF-FAULT calc {fname}")
            if has_art and features.artifact_to_save and n["fail"] != "nosave":
                features.save_artifact = f"art-{fname}-{spec['val']}"
            if n["deps"] and data is not None and hasattr(data, "append_column"):       # siblings share the object: extend, do not replace
                return data.append_column(fname, pa.array([1, 2, 3]))
            return pa.table({fname: [1, 2, 3]})
        ns: Dict[str, Any] = {"calculate_feature": classmethod(calculate_feature),
                              "compute_framework_rule": classmethod(lambda cls: {PyArrowTable})}
        if n["deps"]:
            deps = [f"{tag}_{d}" for d in n["deps"]]
            ns["input_features"] = lambda self, options, feature_name, deps=deps: {Feature(d) for d in deps}
        else:
            ns["input_data"] = classmethod(lambda cls, fname=fname: DataCreator({fname}))
        if has_art:
            ns["artifact"] = staticmethod(lambda art_cls=art_cls: art_cls)
        ns["match_feature_group_criteria"] = classmethod(
            lambda cls, feature_name, options, data_access_collection=None, fname=fname: str(feature_name) == fname)
        c = type(fname, (FeatureGroup,), ns)
        c.__module__, c.__qualname__ = "harness.dynclasses", fname
        setattr(_dyn, fname, c)
        classes[n["name"]] = c
    return classes, tag


def dispose(classes: Dict[str, Any], tag: str) -> None:
    for c in list(classes.values()):
        try:
            delattr(_dyn, c.__name__)
        except AttributeError:
            pass
    try:
        delattr(_dyn, f"{tag}_Art")
    except AttributeError:
        pass


def run_one(spec: Dict[str, Any], mode_name: str, variant: str, with_art: bool = True) -> Dict[str, Any]:
    from mloda.user import mloda, Feature, ParallelizationMode, PluginCollector
    from mloda_plugins.compute_framework.base_implementations.pyarrow.table import PyArrowTable
    from harness.c09 import leftovers
    mode = {"SYNC": {ParallelizationMode.SYNC}, "THREADING": {ParallelizationMode.THREADING},
            "MULTIPROCESSING": {ParallelizationMode.MULTIPROCESSING}}[mode_name]
    classes, tag = build(spec, mode_name, with_art)
    sess = mloda.prepare([Feature(f"{tag}_{n['name']}") for n in spec["nodes"]], compute_frameworks={PyArrowTable},
                         plugin_collector=PluginCollector.enabled_feature_groups(set(classes.values())))
    runners: List[Any] = []
    orig = sess._setup_engine_runner

    def capture(*a: Any, **kw: Any) -> Any:          # instance-level wrapper: the runner of a FAILED call is not kept by the session
        r = orig(*a, **kw)
        runners.append(r)
        return r
    sess._setup_engine_runner = capture               # type: ignore[method-assign]
    kw: Dict[str, Any] = {}
    keys_before = None
    if mode_name == "MULTIPROCESSING":
        kw["flight_server"] = flight_server()
        keys_before = flight_keys()
    base_threads = set(threading.enumerate())
    base_procs = {p.pid for p in multiprocessing.active_children()}
    status, exc, exc_type, n_items = "ok", None, None, 0
    box: Dict[str, Any] = {}

    def target() -> None:
        try:
            if variant == "run":
                box["n"] = len(sess.run(parallelization_modes=mode, **kw))
            else:
                box["n"] = len(list(sess.stream_run(parallelization_modes=mode, **kw)))
        except BaseException as e:  # noqa: BLE001
            box["exc"] = e
    t0 = time.time()
    th = threading.Thread(target=target, name="c09art-driver", daemon=True)
    base_threads.add(th)
    th.start()
    th.join(40.0)
    if th.is_alive():
        status = "hang"
    elif "exc" in box:
        e = box["exc"]
        status, exc, exc_type = "raised", str(e)[-300:], type(e).__name__
        box["head"] = str(e)[:160]
    else:
        n_items = box.get("n", 0)
    wall = time.time() - t0
    lo = leftovers(base_threads, base_procs, keys_before)
    arts: Optional[Dict[str, Any]] = None
    sess_arts: Any = None
    try:
        arts = dict(runners[-1].get_artifacts()) if runners else None
    except Exception as e:  # noqa: BLE001
        arts = None
        sess_arts = f"runner.get_artifacts raised {type(e).__name__}: {e}"[:200]
    if status == "ok":
        try:
            sess_arts = dict(sess.get_artifacts())
        except Exception as e:  # noqa: BLE001
            sess_arts = f"session.get_artifacts raised {type(e).__name__}: {e}"[:200]
    for p in multiprocessing.active_children():
        if p.pid not in base_procs:
            try:
                p.terminate()
                p.join(2)
                if p.is_alive():
                    p.kill()
            except Exception:  # noqa: BLE001
                pass
    if lo.get("new_keys") and keys_before is not None:           # do not let one leak make every later run look leaky
        try:
            from mloda.core.runtime.flight.flight_server import FlightServer
            FlightServer.drop_tables(flight_server().get_location(), set(flight_keys() - keys_before))
        except Exception:  # noqa: BLE001
            pass
    dispose(classes, tag)
    strip = (lambda s: s.replace(tag + "_", "") if isinstance(s, str) else s)
    return {"status": status, "exc": strip(exc), "exc_head": strip(box.get("head")), "exc_type": exc_type, "items": n_items, "wall": round(wall, 2), **lo,
            "artifacts": None if arts is None else {strip(k): strip(json.dumps(v)) for k, v in arts.items()},
            "session_artifacts": sess_arts if not isinstance(sess_arts, dict) else {strip(k): strip(json.dumps(v)) for k, v in sess_arts.items()}}


def expected(spec: Dict[str, Any]) -> Tuple[Optional[str], Set[str], Set[str]]:
    """(failing node, artifacts that MUST be there = of art ancestors of the failing node | of all art nodes, those that MAY be there)"""
    nodes = {n["name"]: n for n in spec["nodes"]}
    failing = next((n["name"] for n in spec["nodes"] if n["fail"]), None)
    may = {n["name"] for n in spec["nodes"] if n["art"] and n["fail"] != "nosave"}
    if failing is None:
        return None, set(may), may

    def anc(x: str) -> Set[str]:
        r: Set[str] = set()
        for d in nodes[x]["deps"]:
            r |= {d} | anc(d)
        return r
    return failing, {a for a in anc(failing) if a in may}, may


def judge(spec: Dict[str, Any], mode_name: str, variant: str, r: Dict[str, Any], twin: Optional[Dict[str, Any]]) -> List[Tuple[str, str]]:
    bad: List[Tuple[str, str]] = []
    failing, must, may = expected(spec)
    if r["status"] == "hang":
        return [("hang", "the call did not return within 40 s")]
    if r["n_threads"]:
        bad.append(("threads", f"threads started by the call are still alive: {r['threads']}"))
    if r.get("step_threads_alive_at_return"):
        bad.append(("threads-at-return", f"{r['step_threads_alive_at_return']} step thread(s) still running when the call returned"))
    if r["procs"]:
        bad.append(("procs", f"{r['procs']} worker/manager process(es) still alive after the call"))
    if r.get("new_keys"):
        bad.append(("keys", f"{r['new_keys']} dataset(s) of the run left in the Flight store"))
    if failing is None:
        if r["status"] != "ok":
            bad.append(("raised", f"fault-free request raised {r['exc_type']}: {r['exc']}"))
        else:
            want = {a: json.dumps(["saved", f"art-{a}-{spec['val']}"]) for a in may}
            if r["artifacts"] != want or r["session_artifacts"] != want:
                bad.append(("artifacts", f"artifacts after a fault-free run: runner {r['artifacts']}, session {r['session_artifacts']}, expected {want}"))
    else:
        tagmsg = f"VERIF-FAULT calc {failing}" if spec["nodes"] and next(n for n in spec["nodes"] if n["name"] == failing)["fail"] == "calc" \
            else "No artifact to save although it was requested"
        if r["status"] != "raised":
            bad.append(("not-raised", f"a step raised but the call returned normally ({r['items']} items)"))
        else:
            if tagmsg not in (r["exc"] or ""):
                bad.append(("message", f"the exception does not carry the step's message {tagmsg!r}: {r['exc_type']}: {r['exc']}"))
            if twin is not None and twin["status"] == "raised" and twin["exc_type"] != r["exc_type"]:
                bad.append(("exc-type", f"the same failing request raises {twin['exc_type']} without artifacts but {r['exc_type']} with "
                                        f"artifacts: {r.get('exc_head')}"))
        if r["artifacts"] is None:
            bad.append(("artifacts", f"the orchestrator's get_artifacts does not work after the failed call: {r['session_artifacts']}"))
        else:
            got = set(r["artifacts"])
            if not must <= got or not got <= may:
                bad.append(("artifacts", f"artifacts after the failed call: {sorted(got)}; the completed steps {sorted(must)} saved theirs "
                                         f"(possible: {sorted(may)})"))
    return bad


SHAPES = ["dep", "indep", "chain", "nosave", "noart", "ok"]


def report(rep: vlib.Reporter, tier: str, seed: int) -> bool:
    rng = random.Random(seed * 7919 + 909)
    big = tier == "thorough"
    found = False
    pr = vlib.build_props("C09artifacts")
    rep.proof(pr)
    rep.coverage["trusted_base"] += [
        "hand-written Model/Artifacts.v of CfwManager.set_error / set_artifact_to_save / get_artifacts and DataLifecycleManager.set_artifacts "
        "(tied at unit level to the real classes) and of WHERE FeatureGroupStep.execute saves (after the calculation, before the upload: "
        "read off feature_group_step.py, exercised end to end only)",
        "MULTIPROCESSING: cfw_register is a manager proxy; a dead manager process makes every proxy call raise - not modelled"]
    # ---- unit level
    rc = register_cases(rng, 3000 if big else 400)
    bad, info = vlib.run_cases("C09", "artifacts", REQ, "chk_artifacts", [t for t, _ in rc], case_type="list rop * (bool * arts)")
    for i in bad[:5]:
        c = rc[i][1]
        rep.finding(f"artifacts-register:{json.dumps(c['ops'])}",
                    f"the finally statement set_artifacts(get_artifacts()) differs from Model/Artifacts.v after the manager calls {c['ops']}: "
                    f"returned={c['returned']} ({c['exc']}), artifacts={c['artifacts']} (if it raises inside `finally`, join() is skipped)",
                    {"kind": "artifacts-register", **c})
        found = True
    rep.count(len(rc))
    for _, c in rc:
        if c["failed"] and c["saved"]:
            rep.nontrivial(("ar", json.dumps(c["ops"])))
    dist: Dict[str, Any] = {"register_cases": len(rc), "register_failed_and_saved": sum(1 for _, c in rc if c["failed"] and c["saved"]),
                            "register_dup_names": sum(1 for _, c in rc if any(o == "RDup" for o, _, _ in c["ops"])), **info,
                            "runs": 0, "by": {}, "mp_runs": 0, "wall_mp": 0.0}
    # ---- end to end
    plan: List[Tuple[Dict[str, Any], str, str]] = []
    reps = 4 if big else 1
    mp_shapes = [("dep", "run"), ("indep", "run"), ("chain", "stream"), ("nosave", "run"), ("ok", "run")]
    if big:
        mp_shapes = [(s, v) for s in SHAPES for v in ("run", "stream")] * 2
    for shape, variant in mp_shapes:
        plan.append((gen_spec(rng, shape), "MULTIPROCESSING", variant))
    for _ in range(reps):
        for shape in SHAPES:
            spec = gen_spec(rng, shape)
            for mode_name in ("SYNC", "THREADING"):
                for variant in ("run", "stream"):
                    plan.append((spec, mode_name, variant))
    for spec, mode_name, variant in plan:
        r = run_one(spec, mode_name, variant)
        twin = None
        if spec["shape"] not in ("ok", "noart", "nosave") and variant == "run" and mode_name != "MULTIPROCESSING":
            twin = run_one(spec, mode_name, variant, with_art=False)      # artifacts are orthogonal to how a failure is reported
            dist["runs"] += 1
        dist["runs"] += 1
        rep.count(1)
        k = f"{mode_name}/{variant}/{spec['shape']}:{r['status']}"
        dist["by"][k] = dist["by"].get(k, 0) + 1
        if mode_name == "MULTIPROCESSING":
            dist["mp_runs"] += 1
            dist["wall_mp"] = round(dist["wall_mp"] + r["wall"], 2)
        rep.nontrivial(("ae", json.dumps(spec, sort_keys=True), mode_name, variant))
        for key, what in judge(spec, mode_name, variant, r, twin):
            rep.finding(f"artifacts-{key}:{json.dumps([spec, mode_name, variant], sort_keys=True)}",
                        f"[artifacts/{spec['shape']}] {mode_name}/{variant}: {what}. Request: "
                        f"{[(n['name'], n['deps'], 'art' if n['art'] else '', n['fail'] or '') for n in spec['nodes']]}",
                        {"kind": "artifacts-e2e", "spec": spec, "mode": mode_name, "variant": variant, "result": r, "twin": twin})
            found = True
    rep.add("artifacts_family", dist)
    rep.sample({"artifacts_register_case": rc[0][1], "artifacts_request": plan[0][0]})
    if not pr.ok and not found:
        rep.finding("proof-broken", "Props/C09artifacts.v no longer checks",
                    {"failed_files": pr.failed_files, "forbidden": pr.forbidden, "log_tail": pr.log[-3000:]}, found_input=False)
    return found


def replay_main(r: Dict[str, Any]) -> int:
    if r.get("kind") == "artifacts-e2e":
        from harness.orch import stop_flight_server
        res = run_one(r["spec"], r["mode"], r["variant"])
        print(json.dumps({"result": res, "judge": judge(r["spec"], r["mode"], r["variant"], res, None)}, indent=1))
        stop_flight_server()
    else:
        print(json.dumps(r, indent=1))
    return 0
