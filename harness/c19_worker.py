"""Worker process of the C19 check: runs mloda.run_all for one (case, framework) per input line and answers with one JSON
line.  A separate process because some inputs crash the interpreter inside pyarrow (known finding
C19-pyarrow-grouped-fill-null-key-crash); the parent notices the death, records it as the observation and restarts."""
from __future__ import annotations

import json
import logging
import os
import sys

sys.path.insert(0, os.path.dirname(os.path.dirname(os.path.abspath(__file__))))
logging.disable(logging.CRITICAL)


def main() -> None:
    from harness import c19
    out = sys.stdout
    sys.stdout = sys.stderr           # nothing but answers on the pipe
    out.write("ready\n")
    out.flush()
    for line in sys.stdin:
        req = json.loads(line)
        try:
            if isinstance(req["case"], list):
                obs = c19.run_multi(req["case"], req["fw"])
            else:
                obs = c19.run_case(req["case"], req["fw"])
        except BaseException as e:  # noqa: BLE001
            obs = {"err": "worker:" + type(e).__name__ + ":" + str(e)[:120]}
        out.write(json.dumps(obs) + "\n")
        out.flush()


if __name__ == "__main__":
    main()
