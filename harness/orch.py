"""Observation and control of the real ExecutionOrchestrator without source hooks, plus Coq plan terms.

* class-level wrappers (installed in the harness process only) around Step.execute of the three step kinds record
  begin/end per step uuid and can block a step at its gate;
* ExecutionPlan.__iter__ is wrapped to count loop iterations ("scans") of compute()/compute_stream();
* gated runs: a driver thread releases blocked steps one at a time in a PRNG- or enumeration-chosen order and checks
  at every quiescent point that the set of started-but-unfinished steps equals the Coq model's prediction.
"""
from __future__ import annotations

import random
import threading
threading.excepthook = lambda args: None  # worker threads re-raise after setting the error flag; keep logs clean
import time
from typing import Any, Callable, Dict, List, Optional, Set, Tuple

from lib.vlib import cq_bool, cq_list, cq_nat
from harness.universe import Universe, Listener, export_plan, columns_of


class Recorder:
    """Process-wide observation state (reset per run)."""

    def __init__(self) -> None:
        self.lock = threading.Lock()
        self.reset()

    def reset(self) -> None:
        self.events: List[Tuple[str, Any]] = []          # ("begin"|"end"|"raise", step_uuid)
        self.scans = 0
        self.last_event_scan = 0
        self.gates: Dict[Any, threading.Event] = {}
        self.gating = False
        self.blocked: Set[Any] = set()
        self.yields: List[Any] = []
        self.fail_steps: Set[Any] = getattr(self, "fail_steps", set())
        self.foot: Dict[Any, Tuple[Any, Any]] = {}       # step uuid -> (written object uuid, read object uuid)
        # step uuid -> iteration orders of the uuid sets of the step OBJECT THAT RUNS (Engine.compute deep-copies the plan
        # for every run, and the copy of a set need not iterate like the original)
        self.orders: Dict[Any, Dict[str, List[Any]]] = {}
        # step uuid -> the calculation was OBSERVED to be in place: calculate_feature returned the very object it was handed
        # (cfw.data) or a pandas Series (which PandasDataFrame.transform inserts into the frame the object holds)
        self.style: Dict[Any, bool] = {}
        self.threads: Dict[Any, Any] = {}                # step uuid -> thread on which its execute() runs
        # mid-pass completion: {"uuid": step uuid, "key": gate key, "armed": bool, "fired_scan": int | None}.  When armed, the
        # plan iterator releases that step's gate just BEFORE it hands the step to the orchestrator's for loop and waits for the
        # worker thread to end: the completion / failure lands between the loop's error check and the visit of the step.
        self.midpass: Optional[Dict[str, Any]] = None

    def ev(self, kind: str, u: Any) -> None:
        with self.lock:
            self.events.append((kind, u))
            self.last_event_scan = self.scans


REC = Recorder()
_installed = [False]
_TL = threading.local()               # .step = uuid of the step whose execute() runs on this thread


def install() -> None:
    if _installed[0]:
        return
    _installed[0] = True
    from mloda.core.core.step.feature_group_step import FeatureGroupStep
    from mloda.core.core.step.join_step import JoinStep
    from mloda.core.core.step.transform_frame_work_step import TransformFrameworkStep
    from mloda.core.prepare.execution_plan import ExecutionPlan

    def wrap(cls: Any, gate_at_entry: bool) -> None:
        orig = cls.execute

        def execute(self: Any, *a: Any, **kw: Any) -> Any:
            try:
                cfw = a[1] if len(a) > 1 else kw.get("cfw")
                frm = a[2] if len(a) > 2 else kw.get("from_cfw")
                REC.foot[self.uuid] = (getattr(cfw, "uuid", None), getattr(frm, "uuid", frm))
                REC.orders[self.uuid] = {"req": list(self.required_uuids), "tfs": list(getattr(self, "tfs_ids", []) or []),
                                         "left": list(getattr(self, "left_framework_uuids", []) or []),
                                         "right": list(getattr(self, "right_framework_uuids", []) or []),
                                         "right_uuid": getattr(self, "right_framework_uuid", None)}
            except Exception:  # noqa: BLE001
                pass
            REC.threads[self.uuid] = threading.current_thread()
            REC.ev("begin", self.uuid)
            if REC.gating and gate_at_entry:
                _wait_gate(self.uuid)
            _TL.step = self.uuid
            try:
                r = orig(self, *a, **kw)
            except BaseException:
                REC.ev("raise", self.uuid)
                raise
            finally:
                _TL.step = None
            REC.ev("end", self.uuid)
            return r
        cls.execute = execute

    wrap(FeatureGroupStep, False)     # FG steps are gated inside calculate_feature (after the data was read)
    wrap(TransformFrameworkStep, True)
    wrap(JoinStep, True)

    # observed result style of every calculation (in place / replacing), at the boundary run_calculation sees
    from mloda.core.abstract_plugins.compute_framework import ComputeFramework
    orig_rcf = ComputeFramework.run_calculate_feature

    def run_calculate_feature(self: Any, feature_group: Any, features: Any) -> Any:
        handed = self.data
        res = orig_rcf(self, feature_group, features)
        try:
            u = getattr(_TL, "step", None)
            if u is not None:
                REC.style[u] = bool(handed is not None and (res is handed or type(res).__name__ == "Series"))
        except Exception:  # noqa: BLE001
            pass
        return res
    ComputeFramework.run_calculate_feature = run_calculate_feature  # type: ignore[method-assign]

    orig_iter = ExecutionPlan.__iter__

    def counting_iter(self: Any) -> Any:
        with REC.lock:
            REC.scans += 1
        if REC.midpass is None:
            return orig_iter(self)
        return _midpass_iter(orig_iter(self))
    ExecutionPlan.__iter__ = counting_iter  # type: ignore[method-assign]

    orig_transform = TransformFrameworkStep.transform

    def transform(self: Any, *a: Any, **kw: Any) -> Any:
        if self.uuid in REC.fail_steps:
            raise RuntimeError("VERIF-FAULT transform")
        return orig_transform(self, *a, **kw)
    TransformFrameworkStep.transform = transform  # type: ignore[method-assign]
    orig_merge = JoinStep._merge_data

    def _merge_data(self: Any, *a: Any, **kw: Any) -> Any:
        if self.uuid in REC.fail_steps:
            raise RuntimeError("VERIF-FAULT merge")
        return orig_merge(self, *a, **kw)
    JoinStep._merge_data = _merge_data  # type: ignore[method-assign]

    from mloda.core.runtime.run import ExecutionOrchestrator
    orig_stream = ExecutionOrchestrator.compute_stream

    def compute_stream(self: Any) -> Any:
        inner = orig_stream(self)
        try:
            for u, r in inner:
                REC.yields.append(u)
                yield (u, r)
        finally:
            inner.close()        # transparent wrapper: closing / abandoning the outer generator closes the real one at once
    ExecutionOrchestrator.compute_stream = compute_stream  # type: ignore[method-assign]

    orig_create = ExecutionPlan.create_execution_plan

    def create_execution_plan(self: Any, queue: Any, graph: Any, link_trekker: Any) -> Any:
        LAST["graph"] = graph
        LAST["link_trekker"] = link_trekker
        return orig_create(self, queue, graph, link_trekker)
    ExecutionPlan.create_execution_plan = create_execution_plan  # type: ignore[method-assign]


LAST: Dict[str, Any] = {}


def _midpass_iter(inner: Any) -> Any:
    """Plan iterator of a gated run with a mid-pass completion (see Recorder.midpass)."""
    for step in inner:
        mp = REC.midpass
        if mp is not None and mp.get("armed") and getattr(step, "uuid", None) == mp["uuid"]:
            mp["armed"] = False
            with REC.lock:
                mp["fired_scan"] = REC.scans
                REC.gates.setdefault(mp["key"], threading.Event()).set()
            th = REC.threads.get(mp["uuid"])
            if th is not None and th is not threading.current_thread():
                th.join(10)
                mp["worker_ended"] = not th.is_alive()
        yield step


def export_adj(plan: Dict[str, Any]) -> List[Tuple[int, List[int]]]:
    """(child, direct parents) in the renamed uuid space of `plan`, from the feature graph of the last prepare()."""
    g = LAST.get("graph")
    ren = plan["_ren"]
    if g is None:
        return []
    parents: Dict[int, List[int]] = {}
    for parent, children in g.adjacency_list.items():
        for c in children:
            if c in ren and parent in ren:
                parents.setdefault(ren[c], []).append(ren[parent])
    return sorted((c, sorted(set(ps))) for c, ps in parents.items())


def _wait_gate(key: Any) -> None:
    with REC.lock:
        ev = REC.gates.setdefault(key, threading.Event())
        REC.blocked.add(key)
    ev.wait(timeout=60)
    with REC.lock:
        REC.blocked.discard(key)


class GateListener(Listener):
    """Listener for Universe: traces calculations and, when gating, blocks inside calculate_feature."""

    def __init__(self) -> None:
        self.events: List[Tuple[str, str, Tuple[str, ...], Tuple[str, ...]]] = []
        self.calls: List[List[str]] = []                 # per calculation call: "name:uuid" of every feature handed to it
        self.lock = threading.Lock()
        self.current_step: Dict[int, Any] = {}

    def on_enter(self, group: str, names: List[str], cols: List[str], data: Any, features: Any = None) -> None:
        with self.lock:
            self.events.append(("enter", group, tuple(sorted(names)), tuple(sorted(cols))))
            if features is not None:
                self.calls.append(sorted(f"{f.get_name()}:{f.uuid}" for f in features.features))
        if REC.gating and features is not None:
            _wait_gate(frozenset(f.uuid for f in features.features))

    def on_exit(self, group: str, names: List[str]) -> None:
        with self.lock:
            self.events.append(("exit", group, tuple(sorted(names)), ()))


# ------------------------------------------------------------------------------------------------------------
# plan -> Coq
# ------------------------------------------------------------------------------------------------------------

def cq_step(s: Dict[str, Any]) -> str:
    kind = {"FG": "KFG", "TFS": "KTFS", "JOIN": "KJOIN"}[s["kind"]]
    return (f"{{| sid := {cq_nat(s['sid'])}; skind := {kind}; uuids := {cq_list(cq_nat(u) for u in s['uuids'])}; "
            f"req := {cq_list(cq_nat(u) for u in s['req'])}; requested := {cq_bool(bool(s.get('requested')))} |}}")


def cq_plan(p: Dict[str, Any]) -> str:
    return cq_list(cq_step(s) for s in p["steps"])


def uuid_to_sid(session: Any) -> Dict[Any, int]:
    return {st.uuid: i for i, st in enumerate(session.engine.execution_planner)}


def step_gate_key(session: Any, sid: int, uni: Universe) -> Any:
    from mloda.core.core.step.feature_group_step import FeatureGroupStep
    st = list(session.engine.execution_planner)[sid]
    if isinstance(st, FeatureGroupStep):
        return frozenset(f.uuid for f in st.features.features)
    return st.uuid


# ------------------------------------------------------------------------------------------------------------
# SYNC observation
# ------------------------------------------------------------------------------------------------------------

MP_HANG_RETRIES = [0]
_KEEP_PIDS: Set[int] = set()          # processes of the harness itself (shared Flight server)


def run_observed(session: Any, modes: Optional[Set[Any]] = None, stream: bool = False, timeout: float = 30.0,
                 ren: Optional[Dict[Any, int]] = None, **kw: Any) -> Dict[str, Any]:
    """Run a prepared session under a watchdog; returns begin order (sids), scans, outcome.
    ren (export_plan(...)["_ren"]): if given, out["orders"][sid] holds the iteration orders of the uuid sets of the step
    objects that actually ran (req / tfs / left / right, in the plan's numbering; right_uuid)."""
    from mloda.user import ParallelizationMode
    install()
    no_retry = bool(kw.pop("_no_retry", False))
    u2s = uuid_to_sid(session)
    REC.reset()
    out: Dict[str, Any] = {}

    def target() -> None:
        try:
            if stream:
                out["result"] = list(session.stream_run(parallelization_modes=modes or {ParallelizationMode.SYNC}, **kw))
            else:
                out["result"] = session.run(parallelization_modes=modes or {ParallelizationMode.SYNC}, **kw)
            out["status"] = "ok"
        except BaseException as e:  # noqa: BLE001
            out["status"] = "raised"
            out["exc"] = e
    t0 = time.time()
    th = threading.Thread(target=target, daemon=True)
    th.start()
    th.join(timeout)
    if th.is_alive():
        out["status"] = "hang"
        from mloda.user import ParallelizationMode as _PM
        if modes and _PM.MULTIPROCESSING in modes and not no_retry:
            # a MULTIPROCESSING run that does not end within the watchdog is re-observed ONCE after killing what it left behind
            # (about 1 in 1 500 MULTIPROCESSING runs stalls on a loaded machine and never on replay; cause not identified:
            # DESIGN.md section 8).  Two stalls in a row are reported.  The number of retries goes into the evidence.
            MP_HANG_RETRIES[0] += 1
            import multiprocessing as _mp
            for p in _mp.active_children():
                if p.pid not in _KEEP_PIDS:
                    try:
                        p.kill()
                    except Exception:  # noqa: BLE001
                        pass
            return run_observed(session, modes=modes, stream=stream, timeout=timeout, ren=ren, _no_retry=True, **kw)
    out["wall"] = time.time() - t0
    out["begin_order"] = [u2s.get(u, -1) for k, u in REC.events if k == "begin"]
    out["end_order"] = [u2s.get(u, -1) for k, u in REC.events if k == "end"]
    out["raised_steps"] = [u2s.get(u, -1) for k, u in REC.events if k == "raise"]
    out["scans"] = REC.scans
    out["yield_order"] = [u2s.get(u, -1) for u in REC.yields]
    objs: Dict[Any, int] = {}

    def oid(x: Any) -> int:
        if x not in objs:
            objs[x] = len(objs) + 1
        return objs[x]
    out["foot"] = {u2s.get(k, -1): (oid(w), [oid(w)] + ([oid(r)] if r is not None else [])) for k, (w, r) in REC.foot.items()}
    out["style"] = {u2s.get(k, -1): v for k, v in REC.style.items()}
    if ren is not None:
        out["orders"] = {u2s.get(k, -1): {"req": [ren.get(u, 0) for u in v["req"]], "tfs": [ren.get(u, 0) for u in v["tfs"]],
                                          "left": [ren.get(u, 0) for u in v["left"]], "right": [ren.get(u, 0) for u in v["right"]],
                                          "right_uuid": ren.get(v["right_uuid"]) if v["right_uuid"] is not None else None}
                         for k, v in REC.orders.items()}
    return out


# ------------------------------------------------------------------------------------------------------------
# gated THREADING run
# ------------------------------------------------------------------------------------------------------------

class PyOrchModel:
    """Python mirror of Model/Orch.v used ONLY to drive the gated scheduler online (which step to expect next).
    The recorded history is re-validated by the Coq model afterwards (chk_gated in cases.v); a divergence between this
    mirror and the Coq model therefore shows up as a failed case, never as a silent pass."""

    def __init__(self, plan: Dict[str, Any]) -> None:
        self.steps = plan["steps"]
        self.finished: Set[int] = set()
        self.running: Set[int] = set()
        self.started: List[int] = []
        self.done: Set[int] = set()
        self.failed: List[int] = []

    def status(self) -> str:
        if self.failed:
            return "Raised"
        if not self.finished:
            return "Looping"
        allu = {u for s in self.steps for u in s["uuids"]}
        return "ExitNormal" if allu <= self.finished else "Looping"

    def scan(self) -> List[int]:
        new = []
        if self.status() != "Looping":
            return new
        for s in self.steps:
            us = s["uuids"]
            if set(us) <= self.finished:
                continue
            if us and us[0] in self.running:
                if s["sid"] in self.done:
                    self.finished |= set(us)
                    self.running -= set(us)
                continue
            if set(s["req"]) <= self.finished and not (set(us) & self.running):
                self.running |= set(us)
                self.started.append(s["sid"])
                new.append(s["sid"])
        return new

    def executing(self) -> Set[int]:
        return {s for s in self.started if s not in self.done and s not in self.failed}


def run_gated(uni: Universe, session: Any, plan: Dict[str, Any], rng: random.Random,
              choose: Optional[Callable[[List[int]], int]] = None, fail_sids: Set[int] = frozenset(),  # type: ignore[assignment]
              timeout: float = 40.0, stream: bool = False, midpass_sid: Optional[int] = None) -> Dict[str, Any]:
    """THREADING run in which every started step blocks at its gate and is released one at a time.
    Returns the history: list of rounds {expected (model), blocked (observed), released} + outcome.
    midpass_sid: that step is not released by the driver but by the plan iterator, in the middle of a pass of the
    orchestrator's loop, right before the loop visits it (and the iterator waits until the worker thread has ended)."""
    from mloda.user import ParallelizationMode
    install()
    u2s = uuid_to_sid(session)
    key_of = {s["sid"]: step_gate_key(session, s["sid"], uni) for s in plan["steps"]}
    REC.reset()
    REC.gating = True
    sid_of_key = {v: k for k, v in key_of.items()}
    out: Dict[str, Any] = {"rounds": [], "events": []}
    if midpass_sid is not None:
        REC.midpass = {"uuid": [u for u, s in u2s.items() if s == midpass_sid][0], "key": key_of[midpass_sid], "armed": False,
                       "fired_scan": None}

    def target() -> None:
        try:
            if stream:
                out["result"] = list(session.stream_run(parallelization_modes={ParallelizationMode.THREADING}))
            else:
                out["result"] = session.run(parallelization_modes={ParallelizationMode.THREADING})
            out["status"] = "ok"
        except BaseException as e:  # noqa: BLE001
            out["status"] = "raised"
            out["exc"] = e

    th = threading.Thread(target=target, daemon=True)
    model = PyOrchModel(plan)
    t0 = time.time()
    th.start()
    problem = None
    try:
        while th.is_alive() and time.time() - t0 < timeout:
            # model: scan to fixpoint
            model.scan()
            model.scan()
            expected = sorted(model.executing())
            if not expected:
                if model.status() != "Looping":
                    break
                # nothing executing and still looping in the model: let the implementation decide (wait a little)
                th.join(0.5)
                if th.is_alive():
                    problem = "model-deadlock-but-impl-alive"
                break
            # wait for quiescence: all expected steps blocked, and two further scans without a new event
            deadline = time.time() + 10
            while time.time() < deadline and th.is_alive():
                with REC.lock:
                    blocked = {sid_of_key.get(k, -1) for k in REC.blocked}
                    quiet = REC.scans - REC.last_event_scan >= 3
                if quiet and len(blocked) >= len(expected):
                    break
                time.sleep(0.0005)
            with REC.lock:
                blocked_now = sorted(sid_of_key.get(k, -1) for k in REC.blocked)
            rnd = {"expected": expected, "blocked": blocked_now}
            out["rounds"].append(rnd)
            if blocked_now != expected:
                problem = "enabled-set-mismatch"
                break
            pick = choose(expected) if choose else rng.choice(expected)
            rnd["released"] = pick
            n_ev = len(REC.events)
            if midpass_sid is not None and pick == midpass_sid:
                REC.midpass["armed"] = True          # type: ignore[index]
                rnd["midpass"] = True
            else:
                with REC.lock:
                    REC.gates[key_of[pick]].set()
            # wait until that step ends or raises
            real_uuid = [u for u, s in u2s.items() if s == pick][0]
            deadline = time.time() + 10
            ok = None
            while time.time() < deadline:
                with REC.lock:
                    tail = REC.events[n_ev:]
                if ("end", real_uuid) in tail:
                    ok = True
                    break
                if ("raise", real_uuid) in tail:
                    ok = False
                    break
                time.sleep(0.0005)
            rnd["ok"] = ok
            if ok is None:
                problem = "released-step-did-not-finish"
                break
            if ok:
                model.done.add(pick)
            else:
                model.failed.insert(0, pick)
    finally:
        REC.gating = False
        if REC.midpass is not None:
            out["midpass"] = {k: v for k, v in REC.midpass.items() if k in ("fired_scan", "worker_ended")}
        REC.midpass = None
        with REC.lock:
            for ev in REC.gates.values():
                ev.set()
    th.join(10)
    if th.is_alive():
        out["status"] = "hang"
    out["problem"] = problem
    out["model_status"] = model.status()
    out["begin_order"] = [u2s.get(u, -1) for k, u in REC.events if k == "begin"]
    out["wall"] = time.time() - t0
    return out


# ------------------------------------------------------------------------------------------------------------
# one long-lived Arrow Flight server per check process (the API caller owns its life cycle)
# ------------------------------------------------------------------------------------------------------------
_FLIGHT: List[Any] = []


def flight_server() -> Any:
    import atexit
    from mloda.core.runtime.flight.runner_flight_server import ParallelRunnerFlightServer
    if not _FLIGHT:
        import multiprocessing as _mp
        before = {p.pid for p in _mp.active_children()}
        fs = ParallelRunnerFlightServer()
        fs.start_flight_server_process()
        _KEEP_PIDS.update({p.pid for p in _mp.active_children()} - before)
        _FLIGHT.append(fs)
        atexit.register(stop_flight_server)
        time.sleep(0.3)
    return _FLIGHT[0]


def stop_flight_server() -> None:
    while _FLIGHT:
        fs = _FLIGHT.pop()
        try:
            fs.end_flight_server_process()
        except Exception:  # noqa: BLE001
            pass


def flight_keys() -> Set[str]:
    from mloda.core.runtime.flight.flight_server import FlightServer
    fs = flight_server()
    return set(FlightServer.list_flight_infos(fs.get_location()))


class FileListener(Listener):
    """Listener usable across worker processes: every calculation appends one JSON line to a file (O_APPEND writes of
    short lines are atomic on Linux)."""

    def __init__(self, path: str) -> None:
        import os
        self.path = path
        if os.path.exists(path):
            os.unlink(path)

    def _w(self, obj: Any) -> None:
        import json as _json
        import os
        fd = os.open(self.path, os.O_WRONLY | os.O_APPEND | os.O_CREAT, 0o644)
        try:
            os.write(fd, (_json.dumps(obj) + "\n").encode())
        finally:
            os.close(fd)

    def on_enter(self, group: str, names: List[str], cols: List[str], data: Any, features: Any = None) -> None:
        self._w({"ev": "enter", "group": group, "names": sorted(names), "cols": sorted(cols),
                 "feats": sorted(f"{f.get_name()}:{f.uuid}" for f in features.features) if features is not None else []})

    def on_exit(self, group: str, names: List[str]) -> None:
        self._w({"ev": "exit", "group": group, "names": sorted(names)})

    def read(self) -> Tuple[List[tuple], List[List[str]]]:
        import json as _json
        import os
        events, calls = [], []
        if os.path.exists(self.path):
            for line in open(self.path):
                o = _json.loads(line)
                if o["ev"] == "enter":
                    events.append(("enter", o["group"], tuple(o["names"]), tuple(o["cols"])))
                    calls.append(o["feats"])
                else:
                    events.append(("exit", o["group"], tuple(o["names"]), ()))
        return events, calls
