"""C18 — links that arrive attached to features (`Feature(..., link=...)`) and the resolve-time back-stop.

Model: coq/Model/LinkAttach.v (eff_links, ordered_pairs, used_links, backstop, link_verdict, kf_attached), theorems in
coq/Props/C18.v (C18_backstop_*, C18_prepare_*, C18_*_rejected*, C18_kf_attached_*, C18_attached_*_refuted).

Families (all evaluated by vm_compute over the definitions the theorems are about):
  backstop : the real ResolveLinkValidator.validate_no_conflicting_join_types on dicts keyed (link, cfw, cfw) in EVERY insertion
             order of <= 3 links (plus a link repeated under a second framework pair) vs `backstop` on that very order
  attach   : mloda.prepare on generated class forests (exact and polymorphic link sides), a request of one of three shapes
             (one consumer of 2-3 root classes / a consumer of a consumer / the roots requested directly), <= 3 links, each
             either in the API argument `links=` or attached to one feature of the request (an input feature of a consumer, a
             consumer used as input, the requested feature). Observed: where prepare raised (LinkValidator / inside
             resolve_links / later / not at all), the engine's link set at resolve time, the links in link_trekker.data.
             Compared with link_verdict / eff_links / used_links.  Judge of the property text: a link set that is contradictory
             by the three documented rules (validate_rejects on API + attached links) makes prepare raise.
  run_all  : for a sample, mloda.run_all with recording feature groups: rejected => raises and nothing was calculated.
"""
from __future__ import annotations

import itertools
import json
import random
from typing import Any, Dict, List, Optional, Tuple

from lib import vlib
from lib.vlib import cq_list, cq_nat, cq_bool, cq_str

KF_KEY = "C18-attached-links-unvalidated"
REQ = ["MV.Model.LinkSel", "MV.Spec.LinkRule", "MV.Model.LinkAttach"]
JT_W = [("INNER", 3), ("LEFT", 3), ("OUTER", 2), ("RIGHT", 2), ("APPEND", 1), ("UNION", 1)]

EXTRA = """
Definition ob_eqb (a : option bool) (b : bool) := match a with Some x => Bool.eqb x b | None => false end.
Definition chk_backstop (c : list link * option bool) := ob_eqb (snd c) (backstop (fst c)).
Fixpoint pos_of (l : link) (ls : list link) (n : nat) : nat :=
  match ls with [] => n | x :: t => if link_eqb x l then n else pos_of l t (S n) end.
Definition subset (a b : list nat) := forallb (fun x => existsb (Nat.eqb x) b) a.
Definition set_eq (a b : list nat) := subset a b && subset b a.
Definition vcode (v : verdict) : nat := match v with RejValidator => 0 | RejBackstop => 1 | Passed => 2 end.
(* ((hierarchy, API links, attached links, parent classes per child),
    ((where prepare raised: 0 LinkValidator, 1 inside resolve_links "Conflicting join types", 2 not / later, 3 other;
      prepare raised at all), (engine link set, links in link_trekker.data) as positions in API ++ attached)) *)
Definition acase : Type :=
  (list (nat * list nat) * list link * list link * list (list nat)) * ((nat * bool) * (option (list nat) * option (list nat))).
Definition chk_attach (c : acase) : bool :=
  match c with
  | ((h, g, a, req), ((oc, _), (oeff, oused))) =>
      let eff := eff_links g a in
      let v := link_verdict (mro_of h) g a req in
      Nat.eqb oc (vcode v) &&
      match v with
      | RejValidator => true
      | _ => match oeff, oused with
             | Some e, Some u => set_eq (map (fun l => pos_of l (g ++ a) 0) eff) e
                                 && set_eq (map (fun l => pos_of l (g ++ a) 0) (used_links (mro_of h) eff req)) u
             | _, _ => false
             end
      end
  end.
(* the property text: a contradictory link set is rejected before execution *)
Definition chk_judge (c : acase) : bool :=
  match c with ((h, g, a, req), ((_, raised), _)) => implb (validate_rejects (g ++ a)) raised end.
Definition chk_nokf (c : acase) : bool := match c with ((h, g, a, req), _) => negb (kf_attached (mro_of h) g a req) end.
(* in the known-finding domain a repaired tree refuses the set in one of the two link checks *)
Definition chk_fixed (c : acase) : bool :=
  match c with ((h, g, a, req), ((oc, _), _)) => kf_attached (mro_of h) g a req && (Nat.eqb oc 0 || Nat.eqb oc 1) end.
Definition chk_model_rejects (c : acase) : bool :=
  match c with ((h, g, a, req), _) => rejected (link_verdict (mro_of h) g a req) end.
"""
ACASE = "acase"

CALLS: List[str] = []
NEED: Dict[str, set] = {}
_obs: Dict[str, Any] = {}
_universes: Dict[Tuple, List[type]] = {}
_uid = [0]


def _fw(code: str) -> type:
    if code == "A":
        from mloda_plugins.compute_framework.base_implementations.pyarrow.table import PyArrowTable
        return PyArrowTable
    from mloda_plugins.compute_framework.base_implementations.pandas.dataframe import PandasDataFrame
    return PandasDataFrame


def _native(code: str, d: Dict[str, List[Any]]) -> Any:
    if code == "A":
        import pyarrow as pa
        return pa.table(d)
    import pandas as pd
    return pd.DataFrame(d)


def make_universe(parents: List[Optional[int]], fws: str) -> List[type]:
    """Root feature groups with the given single-inheritance forest; class i computes on framework fws[i]."""
    key = (tuple(parents), fws)
    if key in _universes:
        return _universes[key]
    from mloda.provider import FeatureGroup, DataCreator
    _uid[0] += 1
    table: Dict[str, str] = {}
    classes: List[type] = []

    def input_data(cls: Any) -> Any:
        return DataCreator({cls.__name__})

    def calculate_feature(cls: Any, data: Any, features: Any) -> Any:
        CALLS.append(cls.__name__)
        cols = sorted(NEED.get(cls.__name__, {"k"}))     # only the index columns the links of this request name for the class
        return _native(table[cls.__name__], {cls.__name__: [1, 2, 3], **{c: [1, 2, 3] for c in cols}})

    def compute_framework_rule(cls: Any) -> Any:
        return {_fw(table[cls.__name__])}

    for i, p in enumerate(parents):
        base = FeatureGroup if p is None else classes[p]
        name = f"K18a{_uid[0]}_{i}"
        table[name] = fws[i]
        classes.append(type(name, (base,), {"input_data": classmethod(input_data),
                                            "calculate_feature": classmethod(calculate_feature),
                                            "compute_framework_rule": classmethod(compute_framework_rule)}))
    _universes[key] = classes
    return classes


def mro_ids(parents: List[Optional[int]], i: int) -> List[int]:
    out, j = [], i
    while j is not None:
        out.append(j)
        j = parents[j]
    return out


def _consumer(name: str, inputs: List[Tuple[str, Any]], code: str) -> type:
    from mloda.provider import FeatureGroup
    from mloda.user import Feature

    def input_features(self: Any, options: Any, feature_name: Any) -> Any:
        return {Feature(n, link=l) for n, l in inputs}

    def calculate_feature(cls: Any, data: Any, features: Any) -> Any:
        CALLS.append(cls.__name__)
        return _native(code, {cls.__name__: [0]})

    def compute_framework_rule(cls: Any) -> Any:
        return {_fw(code)}

    return type(name, (FeatureGroup,), {"input_features": input_features, "calculate_feature": classmethod(calculate_feature),
                                        "compute_framework_rule": classmethod(compute_framework_rule)})


def _install() -> None:
    from mloda.core.prepare.resolve_links import ResolveLinks
    if getattr(ResolveLinks, "_verif_attach_wrapped", False):
        return
    orig = ResolveLinks.resolve_links

    def wrapped(self: Any) -> Any:
        _obs["entered"] = True
        try:
            return orig(self)
        except Exception as e:  # noqa: BLE001
            _obs["inside"] = e
            raise
        finally:
            _obs["eff"] = list(self.links) if self.links is not None else []
            _obs["keys"] = [k[0] for k in self.link_trekker.data]

    ResolveLinks.resolve_links = wrapped  # type: ignore[method-assign]
    ResolveLinks._verif_attach_wrapped = True  # type: ignore[attr-defined]


def model_parts(spec: dict) -> Tuple[List[dict], List[dict], List[List[int]]]:
    """API links, attached links, parent classes per child (consumer classes are numbered after the forest)."""
    g = [l for l in spec["links"] if l["via"] == "global"]
    a = [l for l in spec["links"] if l["via"] != "global"]
    n, ps = len(spec["parents"]), spec["ps"]
    if spec["shape"] == "one":
        req = [list(ps)]
    elif spec["shape"] == "two":
        req = [[ps[0], ps[1]], [n, ps[0], ps[1], ps[2]]]
    else:
        req = []
    return g, a, req


def observe(spec: dict, run: bool = False) -> dict:
    """Run the REAL mloda.prepare (or run_all) on the request described by `spec`."""
    from mloda.user import mloda, Feature, PluginCollector, Link, JoinSpec
    from mloda.core.abstract_plugins.components.link import JoinType
    _install()
    classes = make_universe(spec["parents"], spec["fws"])
    g, a, _ = model_parts(spec)

    def real(l: dict) -> Any:
        return Link(JoinType[l["jt"]], JoinSpec(classes[l["l"]], tuple(l["li"])), JoinSpec(classes[l["r"]], tuple(l["ri"])))

    rg, ra = [real(l) for l in g], [real(l) for l in a]
    carried = {l["via"]: r for l, r in zip(a, ra)}
    ps = spec["ps"]
    names = [classes[c].__name__ for c in ps]
    groups = set(classes)
    tag = f"K18aC{_uid[0]}"
    if spec["shape"] == "one":
        c1 = _consumer(tag + "x", [(nm, carried.get(f"in{i}")) for i, nm in enumerate(names)], spec["cfw"][0])
        groups.add(c1)
        request = [Feature(c1.__name__, link=carried.get("top"))]
    elif spec["shape"] == "two":
        c1 = _consumer(tag + "x", [(names[0], carried.get("in0")), (names[1], carried.get("in1"))], spec["cfw"][0])
        c2 = _consumer(tag + "y", [(c1.__name__, carried.get("mid")), (names[2], carried.get("in2"))], spec["cfw"][1])
        groups |= {c1, c2}
        request = [Feature(c2.__name__, link=carried.get("top"))]
    else:
        request = [Feature(nm, link=carried.get(f"in{i}")) for i, nm in enumerate(names)]
    _obs.clear()
    CALLS.clear()
    NEED.clear()
    for c in ps:
        anc = mro_ids(spec["parents"], c)
        NEED[classes[c].__name__] = ({x for l in spec["links"] if l["l"] in anc for x in l["li"]}
                                     | {x for l in spec["links"] if l["r"] in anc for x in l["ri"]} | {"k"})
    kw = dict(compute_frameworks={_fw("A"), _fw("P")}, links=(set(rg) if (rg or spec.get("empty_set")) else None),
              plugin_collector=PluginCollector.enabled_feature_groups(groups))
    exc: Optional[BaseException] = None
    try:
        if run:
            mloda.run_all(request, **kw)
        else:
            mloda.prepare(request, **kw)
    except Exception as e:  # noqa: BLE001
        exc = e
    allr = rg + ra

    def pos(x: Any) -> int:
        return next(i for i, y in enumerate(allr) if y == x)

    msg = None if exc is None else f"{type(exc).__name__}: {str(exc)[:110]}"
    if exc is None:
        oc = 2
    elif not _obs.get("entered"):
        oc = 0 if isinstance(exc, ValueError) and str(exc).startswith("Link ") else 3
    elif _obs.get("inside") is not None:
        oc = 1 if str(exc).startswith("Conflicting join types") else 3
    else:
        oc = 2                                  # the link checks passed; a later planning stage (or the run) raised
    try:
        eff = sorted({pos(x) for x in _obs["eff"]}) if "eff" in _obs else None
        used = sorted({pos(x) for x in _obs["keys"]}) if "keys" in _obs else None
    except StopIteration:
        eff, used, oc = None, None, 3
    return {"oc": oc, "raised": exc is not None, "eff": eff, "used": used, "exc": msg, "calls": list(CALLS)}


# ------------------------------------------------------------------------------------------------------------
def cq_link(l: dict) -> str:
    def idx(t: List[str]) -> str:
        return cq_list(cq_str(x) for x in t)
    return (f"{{| jt := {l['jt']}; lfg := {cq_nat(l['l'])}; rfg := {cq_nat(l['r'])}; lidx := {idx(l['li'])}; "
            f"ridx := {idx(l['ri'])} |}}")


def case_term(spec: dict, o: dict) -> str:
    g, a, req = model_parts(spec)
    n = len(spec["parents"])
    hier = cq_list(f"({cq_nat(i)}, {cq_list(cq_nat(x) for x in mro_ids(spec['parents'], i))})" for i in range(n))

    def opt(x: Optional[List[int]]) -> str:
        return "None" if x is None else f"(Some {cq_list(cq_nat(v) for v in x)})"

    return (f"(({hier}, {cq_list(cq_link(l) for l in g)}, {cq_list(cq_link(l) for l in a)}, "
            f"{cq_list(cq_list(cq_nat(x) for x in ps) for ps in req)}), "
            f"(({cq_nat(o['oc'])}, {cq_bool(o['raised'])}), ({opt(o['eff'])}, {opt(o['used'])})))")


def _wchoice(rng: random.Random) -> str:
    return rng.choices([j for j, _ in JT_W], [w for _, w in JT_W])[0]


def gen_spec(rng: random.Random, fs: List[List[Optional[int]]]) -> dict:
    parents = rng.choice(fs)
    n = len(parents)
    shape = rng.choices(["one", "two", "direct"], [70, 20, 10])[0]
    if shape == "two" and n < 3:
        shape = "one"
    k = 3 if shape == "two" else min(n, rng.choice([2, 2, 3]))
    ps = rng.sample(range(n), k)
    fws = "A" * n if rng.random() < 0.7 else "".join(rng.choice("AP") for _ in range(n))
    cfw = ["A", "A"] if rng.random() < 0.7 else [rng.choice("AP"), rng.choice("AP")]
    links: List[dict] = []
    for _ in range(rng.choice([1, 2, 2, 3, 3])):
        if links and rng.random() < 0.65:
            b = rng.choice(links)
            l = dict(b)
            mode = rng.choice(["jt", "jt", "rev", "revjt", "left", "idx"])
            if mode in ("jt", "revjt"):
                l["jt"] = rng.choice([j for j, _ in JT_W if j != b["jt"]])
            if mode in ("rev", "revjt"):
                l["l"], l["r"], l["li"], l["ri"] = b["r"], b["l"], b["ri"], b["li"]
            if mode == "left":
                o = rng.choice(ps)
                l["r"] = rng.choice(mro_ids(parents, o))
                l["jt"] = _wchoice(rng)
                if rng.random() < 0.5:
                    l["l"], l["r"] = l["r"], l["l"]
            if mode == "idx":
                l["li"], l["ri"] = [rng.choice("kj")], [rng.choice("kj")]
        else:
            x, y = rng.sample(ps, 2) if rng.random() < 0.8 else (rng.randrange(n), rng.randrange(n))
            exact = rng.random() < 0.5
            l = {"jt": _wchoice(rng), "l": x if exact else rng.choice(mro_ids(parents, x)),
                 "r": y if exact else rng.choice(mro_ids(parents, y)), "li": [rng.choice("kkj")], "ri": [rng.choice("kkj")]}
        links.append({k_: l[k_] for k_ in ("jt", "l", "r", "li", "ri")})
    carriers = [f"in{i}" for i in range(k)] + ([] if shape == "direct" else ["top"]) + (["mid"] if shape == "two" else [])
    rng.shuffle(carriers)
    seen = set()
    for l in links:
        key = (l["jt"], l["l"], l["r"], tuple(l["li"]), tuple(l["ri"]))
        want_global = rng.random() < 0.45 or not carriers
        if want_global and key in seen and carriers:      # the API argument is a set: no value-equal duplicates in it
            want_global = False
        l["via"] = "global" if want_global else carriers.pop()
        if want_global:
            seen.add(key)
    return {"parents": parents, "fws": fws, "cfw": cfw, "shape": shape, "ps": ps, "links": links,
            "empty_set": rng.random() < 0.1}


def systematic_specs(jts: List[str], third: bool) -> List[dict]:
    """All ordered pairs of different links between two requested classes, in the three ways they can arrive (both through the
    API / second attached / both attached); once with exact classes, once with links naming the base classes."""
    out = []
    for parents, ps, lc in (([None, None, None], [0, 1] + ([2] if third else []), [0, 1, 2] if third else [0, 1]),
                            ([None, None, 0, 1], [2, 3], [0, 1])):
        pairs = [(x, y) for x in lc for y in lc if x != y]
        cands = [{"jt": j, "l": x, "r": y, "li": ["k"], "ri": ["k"]} for j in jts for (x, y) in pairs]
        for l1, l2 in itertools.permutations(cands, 2):
            for v1, v2 in (("global", "global"), ("global", "in1"), ("in0", "top")):
                out.append({"parents": parents, "fws": "A" * len(parents), "cfw": ["A", "A"], "shape": "one", "ps": ps,
                            "links": [dict(l1, via=v1), dict(l2, via=v2)]})
    return out


# ------------------------------------------------------------------------------------------------------------
def backstop_cases(rng: random.Random, n_random: int, all_pairs: bool) -> List[dict]:
    from mloda.core.prepare.validators.resolve_link_validator import ResolveLinkValidator
    from harness.c18 import make_classes, real_link
    classes = make_classes([None, None, 0], "v")
    fa, fp = _fw("A"), _fw("P")
    cands = [{"jt": jt, "l": x, "r": y, "li": [k], "ri": [k]} for jt in ("INNER", "LEFT", "RIGHT", "OUTER", "APPEND", "UNION")
             for x in range(3) for y in range(3) for k in ("k", "j")]
    sets: List[List[dict]] = [[c] for c in cands[::5]]
    sets += [list(p) for p in itertools.combinations(cands, 2)] if all_pairs else [rng.sample(cands, 2) for _ in range(n_random)]
    for _ in range(n_random):
        s = rng.sample(cands, 3)
        if rng.random() < 0.7:                       # same ordered pair, other type / other index: the interesting region
            s[1] = dict(s[0], jt=rng.choice(["INNER", "LEFT", "OUTER"]), li=[rng.choice("kj")])
        if rng.random() < 0.4:
            s[2] = dict(s[rng.randrange(2)], jt=rng.choice(["INNER", "LEFT", "RIGHT"]), ri=[rng.choice("kj")])
        sets.append(s)
    out = []
    for s in sets:
        rl = [real_link(classes, l) for l in s]
        orders = list(itertools.permutations(range(len(s))))
        for order in orders:
            keys = [(rl[i], fa, fa) for i in order]
            idx = list(order)
            if len(s) >= 2 and rng.random() < 0.25:          # one link under a second framework pair (another dict key)
                p = rng.randrange(len(keys) + 1)
                keys.insert(p, (rl[order[0]], fa, fp))
                idx.insert(p, order[0])
            data = {k_: set() for k_ in keys}
            try:
                ResolveLinkValidator.validate_no_conflicting_join_types(data)
                obs: Optional[bool] = False
            except Exception as e:  # noqa: BLE001
                obs = True if str(e).startswith("Conflicting join types") else None
            out.append({"links": [s[i] for i in idx], "obs": obs})
    return out


# ------------------------------------------------------------------------------------------------------------
def run(rep: vlib.Reporter, tier: str, rng: random.Random, fs: List[List[Optional[int]]]) -> bool:
    """Returns True when a violation with a concrete input was reported."""
    found = False
    big = tier == "thorough"
    rep.coverage["trusted_base"] += [
        "hand-written model Model/LinkAttach.v of Engine.add_feature_link_to_links (links as a value set), "
        "ResolveLinks.go_through_each_child_and_its_parents_and_look_for_links (ordered pairs of distinct parents), "
        "ResolveLinkValidator.validate_no_conflicting_join_types and the order Engine.__init__ / resolve_links run them in; "
        "tied by correspondence on prepare() of generated requests (one framework pair per link; feature groups without "
        "index columns; every feature carrying a link occurs once in the request)"]

    bc = backstop_cases(rng, 2500 if big else 260, all_pairs=big)
    bad, info = vlib.run_cases("C18", "backstop", REQ, "chk_backstop",
                               [f"({cq_list(cq_link(l) for l in c['links'])}, {'None' if c['obs'] is None else 'Some ' + cq_bool(c['obs'])})"
                                for c in bc], extra_defs=EXTRA, case_type="list link * option bool", shard=1500)
    rep.count(len(bc))
    rep.add("backstop", {**info, "cases": len(bc), "raised": sum(1 for c in bc if c["obs"]),
                         "every_insertion_order_of_each_set": True, "disagreements": len(bad)})
    for c in bc:
        if len(c["links"]) > 1:
            rep.nontrivial(("b", c["links"]))
    for i in bad[:5]:
        c = bc[i]
        rep.finding(f"backstop:{json.dumps(c['links'])}:{c['obs']}",
                    f"ResolveLinkValidator.validate_no_conflicting_join_types on keys {[(l['jt'], l['l'], l['r']) for l in c['links']]} "
                    f"(in this dict order) raised={c['obs']}; the model (two keys with the same ordered (left, right) class pair "
                    f"and different join types) says {not c['obs'] if c['obs'] is not None else 'no other exception'}",
                    {"kind": "backstop", **c})
        found = True

    fs2 = [f for f in fs if len(f) >= 2]
    specs = systematic_specs(["INNER", "LEFT", "OUTER", "RIGHT", "APPEND", "UNION"] if big else ["INNER", "LEFT", "OUTER", "RIGHT"], big)
    n_sys = len(specs)
    specs += [gen_spec(rng, fs2) for _ in range(9000 if big else 450)]
    obs = [observe(s) for s in specs]
    terms = [case_term(s, o) for s, o in zip(specs, obs)]

    def flags(name: str, fn: str, idxs: Optional[List[int]] = None) -> List[int]:
        sel = list(range(len(terms))) if idxs is None else idxs
        if not sel:
            return []
        b, _ = vlib.run_cases("C18", name, REQ, fn, [terms[i] for i in sel], extra_defs=EXTRA, case_type=ACASE, shard=700)
        return [sel[i] for i in b]

    from concurrent.futures import ThreadPoolExecutor
    with ThreadPoolExecutor(max_workers=4) as ex:                    # four checkers over the same cases, separate directories
        futs = [ex.submit(flags, nm, fn) for nm, fn in (("attach", "chk_attach"), ("attach_judge", "chk_judge"),
                                                        ("attach_kf", "chk_nokf"), ("attach_rej", "chk_model_rejects"))]
        bad_model, bad_judge, kf_l, rej_l = [f.result() for f in futs]
    in_kf = set(kf_l)
    not_rej = set(rej_l)                                             # model verdict = Passed
    fixed = set(flags("attach_fixed", "chk_fixed", bad_model)) if bad_model else set()
    fixed = set(bad_model) - fixed                                   # chk_fixed TRUE = tolerated (flags returns the FALSE ones)
    def kinds(sp: dict) -> List[str]:
        """informational only (coverage counters): which documented contradictions involve an attached link"""
        out = set()
        for i, j in itertools.permutations(sp["links"], 2):
            if i["via"] == "global" and j["via"] == "global":
                continue
            same = all(i[k_] == j[k_] for k_ in ("jt", "l", "r", "li", "ri"))
            if same:
                continue
            if i["l"] == j["r"] and i["r"] == j["l"] and i["jt"] not in ("APPEND", "UNION"):
                out.add("double_join")
            if i["l"] == j["l"] and i["r"] == j["r"] and i["jt"] != j["jt"]:
                out.add("join_type_conflict")
            if i["jt"] == "RIGHT" and i["l"] in (j["l"], j["r"]):
                out.add("right_join_constraint")
        return sorted(out)

    kf_kinds: Dict[str, int] = {}
    for i in set(bad_judge) & in_kf:
        for k_ in kinds(specs[i]):
            kf_kinds[k_] = kf_kinds.get(k_, 0) + 1
    rep.count(len(specs))
    by_oc = {k: sum(1 for o in obs if o["oc"] == k) for k in (0, 1, 2, 3)}
    rep.add("attach", {
        "cases": len(specs), "systematic": n_sys, "random": len(specs) - n_sys,
        "observed": {"rejected_by_LinkValidator": by_oc[0], "rejected_by_backstop": by_oc[1], "link_checks_passed": by_oc[2],
                     "unclassified_exception": by_oc[3],
                     "passed_then_later_stage_raised": sum(1 for o in obs if o["oc"] == 2 and o["raised"])},
        "with_attached_link": sum(1 for s in specs if any(l["via"] != "global" for l in s["links"])),
        "all_attached": sum(1 for s in specs if all(l["via"] != "global" for l in s["links"])),
        "polymorphic_link_side": sum(1 for s in specs if any(l["l"] not in s["ps"] or l["r"] not in s["ps"] for l in s["links"])),
        "mixed_frameworks": sum(1 for s in specs if "P" in s["fws"] or "P" in "".join(s["cfw"])),
        "shapes": {k: sum(1 for s in specs if s["shape"] == k) for k in ("one", "two", "direct")},
        "links_used_gt0": sum(1 for o in obs if o["used"]),
        "known_finding_domain_cases": len(in_kf),
        "known_finding_domain_not_rejected_by_any_stage": len(set(bad_judge) & in_kf),
        "known_finding_accepted_sets_by_contradiction_with_an_attached_link": kf_kinds,
        "model_disagreements": len(bad_model), "judge_failures_outside_domain": len(set(bad_judge) - in_kf),
        "later_stage_exceptions": sorted({o["exc"][:60] for o in obs if o["oc"] == 2 and o["exc"]})[:6]})
    for s, o in zip(specs, obs):
        if any(l["via"] != "global" for l in s["links"]) and (o["used"] or o["raised"]):
            rep.nontrivial(("a", s))

    def describe(s: dict) -> str:
        return ("; ".join(f"{l['jt']}({l['l']},{l['r']}) on {l['li'][0]}/{l['ri'][0]} " +
                          ("in links=" if l["via"] == "global" else f"attached to feature '{l['via']}'") for l in s["links"])
                + f" | request shape '{s['shape']}' over classes {s['ps']} of forest {s['parents']}")

    names = {0: "rejected by LinkValidator", 1: "rejected by the resolve-time check", 2: "not refused by a link check",
             3: "another exception"}
    shown = 0
    for i in bad_model:
        if i in fixed:
            if len(rep.notes) < 5:
                rep.notes.append(f"known-finding domain: the tree refuses the set (defect repaired?): {describe(specs[i])}")
            continue
        shown += 1
        if shown > 5:
            break
        s, o = specs[i], obs[i]
        rep.finding(f"attach:{json.dumps(s, sort_keys=True)}",
                    f"prepare() with links [{describe(s)}]: {names[o['oc']]} (exception: {o['exc']}), engine links {o['eff']}, "
                    f"links in link_trekker.data {o['used']} (positions in API ++ attached); the model "
                    f"{'refuses' if i not in not_rej else 'does not refuse'} this set (link_verdict / eff_links / used_links differ)",
                    {"kind": "attach", "spec": s, "obs": o})
        found = True
    kf_hit = None
    shown = 0
    for i in bad_judge:
        s, o = specs[i], obs[i]
        if i in in_kf:
            kf_hit = kf_hit if kf_hit is not None else i
            continue
        shown += 1
        if shown > 5:
            continue
        rep.finding(f"attach-judge:{json.dumps(s, sort_keys=True)}",
                    f"contradictory link set NOT rejected before execution: prepare() accepted [{describe(s)}] "
                    f"(links in link_trekker.data: {o['used']})", {"kind": "attach", "spec": s, "obs": o})
        found = True
    if kf_hit is not None:
        rep.finding(KF_KEY, "contradictory set with a feature-attached link accepted", {"kind": "attach", "spec": specs[kf_hit], "obs": obs[kf_hit]})

    # API level: run_all on a sample
    rej = [i for i in range(len(specs)) if i not in not_rej and i not in bad_model]
    acc_kf = [i for i in set(bad_judge) & in_kf]
    rng.shuffle(rej)
    acc_kf.sort()
    rng.shuffle(acc_kf)
    n_run = 0
    outcomes: Dict[str, int] = {}
    for i in rej[:(400 if big else 40)]:
        o = observe(specs[i], run=True)
        n_run += 1
        if not o["raised"] or o["calls"]:
            rep.finding(f"attach-run:{json.dumps(specs[i], sort_keys=True)}",
                        f"run_all with a link set the model refuses [{describe(specs[i])}]: raised={o['raised']}, feature groups "
                        f"calculated {o['calls']}", {"kind": "attach", "spec": specs[i], "obs": o, "run": True})
            found = True
    for i in acc_kf[:(150 if big else 25)]:
        o = observe(specs[i], run=True)
        n_run += 1
        key = "executed without error" if not o["raised"] else ("raised during the run, after calculations" if o["calls"] else "raised")
        outcomes[key] = outcomes.get(key, 0) + 1
    rep.count(n_run)
    rep.add("attach_run_all", {"runs": n_run, "model_rejected_sets_run": min(len(rej), 400 if big else 40),
                               "known_finding_sets_run": outcomes})
    rep.sample({"spec": specs[n_sys], "obs": {k: obs[n_sys][k] for k in ("oc", "raised", "eff", "used", "exc")}})
    return found


def replay(r: dict) -> None:
    if r.get("kind") == "attach":
        o = observe(r["spec"], run=bool(r.get("run")))
        print("now:", json.dumps(o), "\nrecorded:", json.dumps(r["obs"]))
    if r.get("kind") == "backstop":
        from mloda.core.prepare.validators.resolve_link_validator import ResolveLinkValidator
        from harness.c18 import make_classes, real_link
        classes = make_classes([None, None, 0], "v")
        keys = [(real_link(classes, l), i, i) for i, l in enumerate(r["links"])]
        try:
            ResolveLinkValidator.validate_no_conflicting_join_types({k: set() for k in keys})
            print("now: accepted; recorded raised =", r["obs"])
        except Exception as e:  # noqa: BLE001
            print("now:", e, "; recorded raised =", r["obs"])
