"""THREADING: two feature groups computing from the same root run on ONE compute-framework object without being ordered:
both read cfw.data, the later writer drops the other's column; the requested column is then 'not found'."""
import logging, time
logging.disable(logging.CRITICAL)
import threading
threading.excepthook = lambda a: None
import pyarrow as pa
from mloda.user import mloda, Feature, PluginCollector, ParallelizationMode
from mloda.provider import FeatureGroup, DataCreator
from mloda_plugins.compute_framework.base_implementations.pyarrow.table import PyArrowTable

class R(FeatureGroup):
    @classmethod
    def input_data(cls): return DataCreator({"a"})
    @classmethod
    def calculate_feature(cls, data, features): return pa.table({"a": [1, 2, 3]})

def derived(name, calc_delay, validate_delay):
    class G(FeatureGroup):
        @classmethod
        def feature_names_supported(cls): return {name}
        def input_features(self, options, feature_name): return {Feature("a")}
        @classmethod
        def calculate_feature(cls, data, features):
            time.sleep(calc_delay)                 # the step has already read cfw.data (= the root's table)
            return data.append_column(name, pa.array([0, 0, 0]))
        @classmethod
        def validate_output_features(cls, data, features):
            time.sleep(validate_delay)             # cfw.data is written, the step is not yet reported as done
            return True
    G.__name__ = G.__qualname__ = "G_" + name
    return G

# t=0: both steps start on the root's object (neither requires the other) and read {a}
# t~0: P writes {a,p};  t=0.25: Q writes {a,q} (p is gone);  t=0.5: P is done, its requested column is selected -> not found
P, Q = derived("p", 0.0, 0.5), derived("q", 0.25, 0.0)

def run(mode):
    try:
        res = mloda.run_all(["p", "q"], compute_frameworks={PyArrowTable},
                            plugin_collector=PluginCollector.enabled_feature_groups({R, P, Q}), parallelization_modes={mode})
        return [t.column_names for t in res]
    except Exception as e:
        return "RAISED ... " + " ".join(str(e).split())[-170:]

if __name__ == "__main__":
    print("SYNC      ->", run(ParallelizationMode.SYNC))
    print("THREADING ->", run(ParallelizationMode.THREADING))
