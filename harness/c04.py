"""C04 — planning is deterministic and every accepted plan can run to completion.

Theorems (coq/Props/C04.v): a plan that passes wf_plan terminates (SYNC bound, no deadlock for any back end), a plan with
a dangling prerequisite never exits.  Checks on the real planner:
  T3   every plan accepted by prepare() is exported and must pass wf_plan_auto in Coq (every prerequisite produced,
       wait-for acyclic, produced sets distinct and non-empty);
  run  every accepted plan is run under a wall-clock watchdog in SYNC and THREADING: it returns or raises, never hangs;
  poly (harness/c04_poly.py) requests with polymorphic links (ties at the minimal inheritance distance): join steps identical in
       every preparation / hash seed and equal to Model/LinkSelReq.request_joins (C04_link_selection_order_independent, ...)
  det  every request is prepared 3x in this process (fresh uuids) and once per PYTHONHASHSEED in fresh subprocesses;
       outcomes (canonical, uuid-free plan or rejection class+rule) must coincide.  Differences are classified by WHICH
       part of the plan differs; each class observed on the unchanged tree is a known finding, any other class and any
       difference on single-framework link-free requests is a violation.
"""
from __future__ import annotations

import json
import logging
import os
import random
import re
import subprocess
from typing import Any, Dict, List, Optional, Set, Tuple

from lib import vlib
from harness import daggen
from harness.universe import Universe, export_plan, canon_plan
from harness.orch import GateListener, run_observed, cq_plan, install

LEVEL = "proof"
logging.disable(logging.CRITICAL)
REQ = ["MV.Model.Orch", "MV.Model.OrchCheck"]
BOUND_S = 15.0

RULES = [("have at least two different defined joins", "double-join"), ("different join types", "conflicting-join-types"),
         ("multiple right joins", "right-join-constraint"), ("append or union", "append-union-index"),
         ("Right joins are not supported", "right-join-equal-groups"), ("Execution plan is incomplete", "incomplete-plan"),
         ("more than one solution for the join", "ambiguous-join"), ("has no matching uuids", "link-without-children")]


def rule_of(msg: str) -> str:
    for pat, name in RULES:
        if pat in msg:
            return name
    return re.sub(r"\W+", " ", msg)[:50]


def outcome(spec: Dict[str, Any]) -> Dict[str, Any]:
    try:
        uni = Universe(spec, GateListener())
        sess = uni.prepare()
        p = export_plan(sess, uni)
        return {"accepted": True, "canon": json.loads(json.dumps(canon_plan(p))), "plan": {k: v for k, v in p.items() if k != "_ren"},
                "_sess": sess}
    except Exception as e:  # noqa: BLE001
        return {"accepted": False, "exc": type(e).__name__, "msg": str(e)[:200]}


def diff_class(a: Dict[str, Any], b: Dict[str, Any]) -> Optional[str]:
    if a["accepted"] != b["accepted"]:
        return "accept-vs-reject"
    if not a["accepted"]:
        ra, rb = (a["exc"], rule_of(a["msg"])), (b["exc"], rule_of(b["msg"]))
        return None if ra == rb else "reject-reason"
    A = {json.dumps(s[1]): s for s in a["canon"]}
    B = {json.dumps(s[1]): s for s in b["canon"]}
    if set(A) != set(B):
        return "steps"
    kinds: Set[str] = set()
    for k in A:
        if A[k][2] != B[k][2]:
            kinds.add(A[k][0] + "-req")
        if A[k][3] != B[k][3]:
            kinds.add(A[k][0] + "-extra")
    return "+".join(sorted(kinds)) or None


KNOWN_CLASSES = {
    "TFS-req": "C04-nondet-tfs-required-parent",
    "JOIN-req": "C04-nondet-join-required-set",
    "FG-extra": "C04-nondet-fg-lookup-ids",
    "FG-req": "C04-nondet-fg-required-set",
    "steps": "C04-nondet-step-composition",
    "accept-vs-reject": "C04-nondet-accept-vs-reject",
    "reject-reason": "C04-nondet-rejection-reason",
}


def strict_fragment(spec: Dict[str, Any]) -> bool:
    """single compute framework, no links, no declared types: planning has no order-dependent choice to make"""
    return not spec.get("links") and len({g.get("cfw") for g in spec["groups"]}) == 1


def gen_cross3(rng: random.Random) -> Dict[str, Any]:
    """3-5 linked roots over all three frameworks (chain / star / random tree, random orientation and join type), the consumer on the
    framework of ANY root (not only the hub's): the shapes in which links are inverted, re-ordered and postponed."""
    from harness import planner_l as pl
    n = rng.randrange(3, 6)
    cfws = [rng.choice(pl.CF) for _ in range(n)]
    kind = rng.choice(["chain", "star", "tree"])
    links = []
    for i in range(1, n):
        a = i - 1 if kind == "chain" else 0 if kind == "star" else rng.randrange(0, i)
        l, r = (a, i) if rng.random() < 0.6 else (i, a)
        links.append({"jt": rng.choice(["INNER", "INNER", "LEFT", "OUTER"]), "l": f"R{l}", "r": f"R{r}", "li": ["k"], "ri": ["k"]})
    rng.shuffle(links)
    roots = [pl._root(i, cfws[i]) for i in range(n)]
    ins = [f"v{i}" for i in range(n)]
    rng.shuffle(ins)
    return {"groups": roots + [{"name": "D1", "kind": "derived", "cfw": rng.choice(cfws), "features": {"f1": pl._feat(ins)}}],
            "request": ["f1"], "links": links}


def hub_specs() -> List[Dict[str, Any]]:
    """hub R0 with three spokes, every assignment of the three frameworks in which the hub's framework differs from the consumer's,
    spokes linked in both orientations: the smallest shape in which a postponed link is released and a later link waits for it."""
    import itertools
    from harness import planner_l as pl
    out = []
    for cf in itertools.product(pl.CF, repeat=4):
        for cons in range(1, 4):
            if cf[cons] == cf[0]:
                continue
            for flip in (0, 4, 6):
                links = []
                for i in range(1, 4):
                    l, r = (0, i) if not (flip >> (i - 1)) & 1 else (i, 0)
                    links.append({"jt": "INNER", "l": f"R{l}", "r": f"R{r}", "li": ["k"], "ri": ["k"]})
                out.append({"groups": [pl._root(i, cf[i]) for i in range(4)] +
                            [{"name": "D1", "kind": "derived", "cfw": cf[cons], "features": {"f1": pl._feat([f"v{i}" for i in range(4)])}}],
                            "request": ["f1"], "links": links})
    return out


def _judge_spec(spec: Dict[str, Any], n: int = 24) -> Optional[Dict[str, Any]]:
    """Search for a failure of the property itself on one request: different outcomes between preparations, a plan that is not
    well formed for the orchestrator, or an accepted plan that does not return."""
    outs = [outcome(spec) for _ in range(n)]
    for o in outs[1:]:
        c = diff_class(outs[0], o)
        if c in ("accept-vs-reject", "reject-reason", "steps"):
            return {"kind": "det", "class": c, "outcomes": [{k: v for k, v in x.items() if k in ("accepted", "exc", "msg")} for x in (outs[0], o)]}
    for o in outs[:3]:
        if o["accepted"]:
            r = run_observed(o["_sess"], timeout=BOUND_S)
            if r["status"] == "hang":
                return {"kind": "hang", "scans": r["scans"]}
    return None


def _planner_models(rep: vlib.Reporter, rng: random.Random, specs: List[Dict[str, Any]], seeds: List[int], big: bool, dist: Dict[str, Any]) -> bool:
    """Planner models beyond Stage A against the real planner: Model/PlannerB.v (several frameworks, transform steps),
    Model/PlannerL.v (Links: trekker, inversion, postponed links, join steps) and Model/PlannerO.v (non-default options, declared
    types: request -> graph -> splits), each evaluated under the iteration orders observed
    in the same preparation.  A request on which model and planner disagree is then searched for a failure of the property
    itself; the disagreement is reported either way."""
    from harness import planner_b, planner_l
    found = False
    prB = vlib.build_props("PlannerB")
    rep.proof(prB)
    prL = vlib.build_props("PlannerL")
    rep.proof(prL)
    # --- Stage B1
    b_specs = planner_b.witness_specs() + [planner_b.gen_any(rng) for _ in range(300 if big else 40)] + [s for s in specs if planner_b.in_fragment(s)]
    disB = planner_b.check_plans(b_specs, "C04", run_accepted=(40 if big else 6), run_timeout=BOUND_S, hash_seeds=tuple(seeds[1:3]), in_process=2 if big else 1)
    dist["planner_model_B"] = {k: v for k, v in planner_b.LAST_INFO.items() if k != "coq"}
    # --- Links
    sweep = hub_specs()
    two = planner_l.all_two_root_specs()
    l_specs = [s for s in specs if planner_l.in_fragment(s)] + (two if big else rng.sample(two, 60)) + \
              (sweep if big else rng.sample(sweep, 70)) + [gen_cross3(rng) for _ in range(500 if big else 60)] + \
              [planner_l.gen_tree(rng, single=False) for _ in range(200 if big else 20)] + \
              [planner_l.gen_partial(rng) for _ in range(100 if big else 10)] + \
              [planner_l.spec_diamond_consumer(), planner_l.spec_intermediate_consumer()]
    disL = planner_l.check_plans(l_specs, "C04", hash_seeds=tuple(seeds[1:4] if big else seeds[1:2]))
    dist["planner_model_L"] = {k: v for k, v in planner_l.LAST_INFO.items() if k != "per_seed"}
    dist["planner_model_L"]["per_seed"] = {k: {a: b for a, b in v.items() if a != "coq"} for k, v in planner_l.LAST_INFO.get("per_seed", {}).items()}
    # --- options and declared types (Model/PlannerO.v: request -> graph with merge_options / de-duplication by ==, splits by
    #     (group options, type)); every preparation compared stage by stage, a sample of accepted plans run and judged per instance
    from harness import planner_o
    prO = vlib.build_props("PlannerO")
    rep.proof(prO)
    o_specs = list(planner_o.witness_specs().values()) + [planner_o.gen_any(rng) for _ in range(400 if big else 45)]
    disO = planner_o.check_plans(o_specs, "C04", hash_seeds=tuple(seeds[1:3] if big else seeds[1:2]), in_process=2 if big else 1,
                                 run_specs=[planner_o.gen_o_run(rng) for _ in range(80 if big else 10)], run_timeout=BOUND_S)
    dist["planner_model_O"] = {k: v for k, v in planner_o.LAST_INFO.items() if k not in ("coq", "coq_values")}
    KNOWN_O = {planner_o.KF_AMBIGUOUS: "C04-nondet-step-composition", planner_o.KF_ERRCLASS: "C04-nondet-option-error-reported"}
    seen: Set[str] = set()
    for tag, dis in (("plannerB", disB), ("plannerL", disL), ("plannerO", disO)):
        for d_ in dis:
            if tag == "plannerO" and d_.get("known"):
                rep.finding(KNOWN_O[d_["known"]], d_["what"], {"kind": "plannerO", "spec": d_["spec"], "stage": d_["stage"]})
                continue
            key = json.dumps(d_.get("spec"), sort_keys=True)
            if key in seen or len(seen) >= 8:
                continue
            seen.add(key)
            if tag == "plannerO":
                w = {"kind": d_["stage"]} if d_["stage"] in ("run", "values", "determinism") else planner_o.judge(d_["spec"])
                what = f"real planner and plannerO model disagree at {d_.get('stage')} ({d_.get('run')}): {str(d_.get('what'))[:300]}"
                if w:
                    what += f"; on this request the property fails: {json.dumps(w, default=str)[:300]}"
                rep.finding(f"plannerO:{d_.get('stage')}:{key}", what,
                            {"kind": "plannerO", "spec": d_.get("spec"), "stage": d_.get("stage"), "what": d_.get("what"), "witness": w,
                             "correspondence": "harness/planner_o.check_plans"}, found_input=bool(w))
                found = True
                continue
            w = _judge_spec(d_["spec"]) if d_.get("spec") else None
            what = f"real planner and {tag} model disagree at {d_.get('stage')}: {str(d_.get('what'))[:300]}"
            if w:
                what += f"; on this request the property fails: {json.dumps(w)[:300]}"
            rep.finding(f"{tag}:{d_.get('stage')}:{key}", what,
                        {"kind": tag, "spec": d_.get("spec"), "stage": d_.get("stage"), "what": d_.get("what"), "witness": w,
                         "correspondence": f"harness/{'planner_b' if tag == 'plannerB' else 'planner_l'}.check_plans"}, found_input=bool(w))
            found = True
    for nm, pr_ in (("PlannerB", prB), ("PlannerL", prL), ("PlannerO", prO)):
        if not pr_.ok and not found:
            rep.finding(f"proof-broken-{nm}", f"Props/{nm}.v no longer checks", {"failed_files": pr_.failed_files, "log_tail": pr_.log[-2000:]}, found_input=False)
    rep.count(len(b_specs) * 3 + len(l_specs) * 2 + planner_o.LAST_INFO.get("preparations", 0) + planner_o.LAST_INFO.get("runs", 0))
    return found


def run(rep: vlib.Reporter, tier: str, seed: int) -> None:
    rng = random.Random(seed * 1021 + 4)
    install()
    pr = vlib.build_props("C04", extra_targets=["Model/OrchCheck.vo"])
    rep.proof(pr)
    rep.coverage["trusted_base"] += [
        "the planner (execution_plan.py, resolve_links.py, resolve_compute_frameworks.py, graph) is NOT modelled: determinism is "
        "explored (repeated preparation, hash seeds), well-formedness is checked per exported plan by wf_plan_auto (T3)",
        "plan exporter and canonicaliser (harness/universe.py export_plan, canon_plan); PYTHONHASHSEED subprocess driver",
        "termination theorems are about Model/Orch.v; the watchdog (15 s) observes the implementation",
        "link selection: Model/LinkSel.v (C18's hand-written model of _find_matching_links / _select_most_specific_links) and "
        "Model/LinkSelReq.v (request_joins: one join per (ordered pair of parents, selected link)); the iteration order of the Link set "
        "is the list order; tied by harness/c04_poly.py (join steps of the real plan under 6+ hash seeds = request_joins)"]
    big = tier == "thorough"
    n = 500 if big else 70
    seeds = list(range(8 if big else 4))
    specs: List[Dict[str, Any]] = []
    for i in range(n):
        r = rng.random()
        if r < 0.4:
            specs.append(daggen.gen_linked_roots(rng))
        elif r < 0.55:
            specs.append(daggen.gen_single_root(rng, multi_cfw=False))
        else:
            specs.append(daggen.gen_single_root(rng))
    # systematic sweep of framework patterns over linked sources (cyclic framework patterns included)
    sweep = daggen.framework_pattern_specs(4, star=False) + daggen.framework_pattern_specs(3, star=False)
    if big:
        sweep += daggen.framework_pattern_specs(4, star=True) + daggen.framework_pattern_specs(3, star=True) \
            + daggen.framework_pattern_specs(4, star=False, jt="LEFT")
    specs += sweep
    # in-process: three preparations
    outs = [[outcome(s) for _ in range(3)] for s in specs]
    # subprocesses: one per hash seed
    d = vlib.BUILD / "C04"
    d.mkdir(parents=True, exist_ok=True)
    (d / "specs.json").write_text(json.dumps(specs))
    sub: List[List[Dict[str, Any]]] = []
    for hs in seeds:
        env = dict(os.environ, PYTHONHASHSEED=str(hs))
        p = subprocess.run([vlib.PY, str(vlib.VERIF / "harness" / "c04_sub.py"), str(d / "specs.json"), str(vlib.VERIF)],
                           env=env, stdout=subprocess.PIPE, stderr=subprocess.DEVNULL, text=True, timeout=1800)
        sub.append(json.loads(p.stdout))
    found = False
    dist: Dict[str, Any] = {"specs": len(specs), "framework_pattern_sweep": len(sweep), "accepted": 0, "rejected": 0, "strict_fragment": 0, "with_links": 0,
                            "nondeterministic": 0, "diff_classes": {}, "rejection_rules": {}, "run": {}, "hash_seeds": seeds}
    wf_terms, wf_idx = [], []
    for i, spec in enumerate(specs):
        o0 = outs[i][0]
        strict = strict_fragment(spec)
        dist["strict_fragment"] += strict
        dist["with_links"] += bool(spec.get("links"))
        if o0["accepted"]:
            dist["accepted"] += 1
            wf_idx.append(i)
            wf_terms.append(cq_plan(o0["plan"]))
            rep.nontrivial(("spec", spec))
        else:
            dist["rejected"] += 1
            r = o0["exc"] + ":" + rule_of(o0["msg"])
            dist["rejection_rules"][r] = dist["rejection_rules"].get(r, 0) + 1
        classes: Set[str] = set()
        for other in outs[i][1:] + [s[i] for s in sub]:
            c = diff_class(o0, other)
            if c:
                classes.add(c)
        if classes:
            dist["nondeterministic"] += 1
        for c in sorted(classes):
            dist["diff_classes"][c] = dist["diff_classes"].get(c, 0) + 1
            replay = {"kind": "det", "spec": spec, "class": c, "seeds": seeds}
            parts = c.split("+")
            if (not strict) and all(p in KNOWN_CLASSES for p in parts):
                for p in parts:
                    rep.finding(KNOWN_CLASSES[p], f"plan differs between preparations ({p})", replay)
            else:
                rep.finding(f"nondet:{c}:{json.dumps(spec, sort_keys=True)}",
                            f"preparing the same request gives different outcomes (difference class {c}; strict fragment={strict})", replay)
                found = True
    # T3
    bad, info = vlib.run_cases("C04", "wf", REQ + ["MV.Model.PlannerA"], "chk_wf_both", wf_terms, case_type="plan", shard=80,
                               extra_defs="Definition chk_wf_both (p : plan) := wf_plan_auto p && wf_struct p && runsim_accepts p.") if wf_terms else ([], {})
    for k in bad[:5]:
        i = wf_idx[k]
        p = outs[i][0]["plan"]
        prod = {u for s in p["steps"] for u in s["uuids"]}
        dang = [(s["sid"], u) for s in p["steps"] for u in s["req"] if u not in prod]
        rep.finding(f"wf:{json.dumps(specs[i], sort_keys=True)}",
                    f"accepted plan is not well formed (dangling requirements {dang}; else duplicate/empty produced set or cycle)",
                    {"kind": "wf", "spec": specs[i], "plan": p})
        found = True
    # run every accepted plan under the watchdog
    from mloda.user import ParallelizationMode
    n_runs = 0
    for i in wf_idx:
        for mname, mode in (("SYNC", {ParallelizationMode.SYNC}), ("THREADING", {ParallelizationMode.THREADING})):
            o = run_observed(outs[i][0]["_sess"], modes=mode, timeout=BOUND_S)
            n_runs += 1
            k = mname + ":" + o["status"]
            dist["run"][k] = dist["run"].get(k, 0) + 1
            if o["status"] == "hang":
                rep.finding(f"hang:{mname}:{json.dumps(specs[i], sort_keys=True)}",
                            f"accepted plan did not return or raise within {BOUND_S}s in {mname} ({o['scans']} loop iterations)",
                            {"kind": "hang", "spec": specs[i], "mode": mname, "plan": outs[i][0]["plan"]})
                found = True
    # strict Stage-A fragment: the planner MODEL (Model/PlannerA.v; theorems Props/PlannerA.v) against the real planner
    from harness import planner_a
    prA = vlib.build_props("PlannerA")
    rep.proof(prA)
    pa_specs = [planner_a.gen_strict(rng) for _ in range(400 if big else 60)] + \
               [planner_a.gen_cross(rng) for _ in range(60 if big else 10)] + \
               [planner_a.spec_cross_cycle(), planner_a.spec_diamond_chain()]
    dis = planner_a.check_plans(pa_specs, "C04", run_accepted=(60 if big else 12))
    dist["planner_model"] = {"specs": len(pa_specs), "disagreements": len(dis),
                             **{k: v for k, v in planner_a.LAST_INFO.items() if isinstance(v, (int, float, str))}}
    for d_ in dis[:8]:
        rep.finding(f"plannerA:{d_.get('stage')}:{json.dumps(d_.get('spec'), sort_keys=True)}",
                    f"strict-fragment request: real planner and planner model disagree at {d_.get('stage')}: {str(d_.get('what'))[:300]}",
                    {"kind": "plannerA", **{k: v for k, v in d_.items() if k in ("spec", "stage", "what")}})
        found = True
    if not prA.ok and not found:
        rep.finding("proof-broken-PlannerA", "Props/PlannerA.v no longer checks",
                    {"failed_files": prA.failed_files, "log_tail": prA.log[-2000:]}, found_input=False)
    found = _planner_models(rep, rng, specs, seeds, big, dist) or found
    # polymorphic links (links declared on base classes; Model/LinkSel.v + LinkSelReq.v, theorems C04_link_selection_* /
    # C04_request_joins_order_independent): join steps the same in every preparation and under every hash seed, = the model
    from harness import c04_poly
    found = c04_poly.check(rep, rng, big, list(range(1, 11 if big else 7))) or found
    dist["polymorphic_links"] = dict(c04_poly.LAST_INFO)
    rep.count(len(pa_specs))
    rep.count(len(specs) * (3 + len(seeds)) + n_runs)
    rep.add("distribution", dist)
    rep.add("wf_check", {**info, "plans": len(wf_terms), "not_well_formed": len(bad)})
    rep.add("rule", "requests: 40% 2-4 root groups with a tree-shaped link set (chain/star, random orientation, six join types, "
                    "frameworks per root, equal or different key names) and a consumer, 15% single-framework DAGs (strict "
                    "fragment), 45% merge-free multi-framework DAGs. Each prepared 3x in-process and under several hash seeds; "
                    "accepted plans checked by wf_plan_auto and run in SYNC and THREADING under a watchdog. non-trivial = accepted. "
                    "Polymorphic-link family: 13 witness requests + PRNG class forests (2-3 hierarchies, base + 1-2 subclass levels, "
                    "one or two frameworks), link sets with 0-3 polymorphic links tying at the minimal distance for one concrete pair "
                    "(balanced and asymmetric, different join types / indexes), optional exact, less specific, reversed and third-source "
                    "links; 2 preparations in-process + 2 per hash seed (6 quick / 10 thorough); non-trivial = accepted with a join step")
    rep.sample({"spec": specs[0], "outcome": {k: v for k, v in outs[0][0].items() if k in ("accepted", "exc", "msg")}})
    from harness import srctie      # source-text tie (Props/SrcTie.v): definitions regenerated from the source text = the models
    found = (not srctie.check(rep)) or found
    if not pr.ok and not found:
        rep.finding("proof-broken", "Props/C04.v no longer checks",
                    {"failed_files": pr.failed_files, "forbidden": pr.forbidden, "log_tail": pr.log[-3000:]}, found_input=False)


def replay(path: str) -> int:
    r = json.load(open(path))["replay"]
    if r.get("kind") == "srctie":
        from harness import srctie
        srctie.replay(r, show=True)
        return 0
    if r.get("kind") == "plannerO":
        from harness import planner_o
        dis = planner_o.check_plans([r["spec"]], "C04replay", hash_seeds=(1, 2, 3), run_specs=[r["spec"]])
        print({k: v for k, v in planner_o.LAST_INFO.items() if k not in ("coq", "coq_values")})
        for d_ in dis:
            print("KNOWN" if d_.get("known") else "DISAGREEMENT", d_["stage"], d_.get("run"), d_["what"][:400])
        print("judge:", planner_o.judge(r["spec"]))
        return 0
    if r.get("kind") == "poly":
        from harness import c04_poly
        c04_poly.replay(r)
        return 0
    install()
    o = [outcome(r["spec"]) for _ in range(3)]
    print("in-process outcomes:", [(x["accepted"], x.get("exc"), rule_of(x.get("msg", ""))) for x in o],
          "diff classes:", [diff_class(o[0], x) for x in o[1:]])
    if o[0]["accepted"]:
        ro = run_observed(o[0]["_sess"], timeout=BOUND_S)
        print("run:", ro["status"], "scans", ro["scans"])
    return 0
