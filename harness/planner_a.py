"""Correspondence between the real planner and its Coq model for the strict Stage-A fragment (coq/Model/PlannerA.v).

Fragment: every feature group has the same single compute framework, no Links, no global filter, no declared data types,
default options only.  For each such spec (harness/universe.py format) the REAL mloda.prepare is run and observed without
source hooks:
    engine.feature_link_parents (dict order, set orders)  -> the model's input graph, in the engine's own orders
    graph.queue, graph.parent_to_children_mapping         -> intermediate results (harness.orch LAST["graph"])
    the execution plan (FeatureGroupSteps: uuids, required_uuids, requested, children_if_root) in plan order
and compared inside Coq (vm_compute, vlib.run_cases) with the model computed from the observed graph:
    chk_request   the engine's graph = request_graph(definitions, request) up to node / input order
    chk_graph     the graph satisfies the hypotheses of the theorems (graph_okb, strictb)
    chk_queue     the DFS queue, exactly
    chk_closure   parent_to_children_mapping, as sets
    chk_plan      the plan, step by step IN PLAN ORDER (lists inside a step as sets), prepare_A = Planned
    chk_request_plan  the plan computed from the request alone (canonical orders) has the same steps up to order
                      (what plan_deterministic allows)
Uuids are renamed canonically: 2*name_index (+1 for the requested copy), so nothing depends on uuid4 or on plan order.

    chk_request_outcome  the accept / reject decision computed from the request alone = the real decision
The real prepare may REJECT a strict-fragment request (since /repo 12fe10c): ValueError "... wait for each other in a
cycle ..." when the steps of two groups require each other.  The model predicts exactly which specs are rejected and with
which of the two validation errors (pc_outcome: 0 accepted, 1 incomplete plan, 2 cycle); the steps are observed in all
cases (harness-side wrappers keep the Engine and the ExecutionPlan of a failing prepare).  Any other exception, an
accepted request the model rejects (or vice versa) and - with run_accepted > 0 - a run of an accepted plan that does not
return are disagreements.  Nothing is a known finding here any more.

check_plans(specs, rep_prefix, run_accepted=0) -> list of disagreements (dicts: spec, stage, what); LAST_INFO has counters
and the classification of every case.  `python3 -m harness.planner_a [n] [seed]` runs a self test (builds
Props/PlannerA.v, compares, runs accepted plans under a watchdog).
"""
from __future__ import annotations

import logging
import random
import sys
from typing import Any, Dict, List, Optional, Tuple

from lib import vlib
from lib.vlib import cq_bool, cq_list, cq_nat

REQ = ["MV.Model.Orch", "MV.Model.OrchCheck", "MV.Model.PlannerA"]
STAGES = ["chk_request", "chk_graph", "chk_queue", "chk_closure", "chk_plan", "chk_request_plan", "chk_request_outcome"]
LAST_INFO: Dict[str, Any] = {}
CAP: Dict[str, Any] = {}
_cap_installed = [False]
OUTCOME = {0: "accepted", 1: "rejected: incomplete plan", 2: "rejected: steps wait in a cycle"}


# ------------------------------------------------------------------------------------------------------------
# fragment and generators
# ------------------------------------------------------------------------------------------------------------

def in_fragment(spec: Dict[str, Any]) -> bool:
    if spec.get("links") or spec.get("api_frameworks"):
        return False
    cfws = {g.get("cfw") for g in spec["groups"]}
    if len(cfws) != 1 or None in cfws:
        return False
    for g in spec["groups"]:
        if g["kind"] not in ("root", "derived") or g.get("index"):
            return False
        if g["kind"] == "derived":
            for d in g["features"].values():
                if d.get("opt") or d.get("input_opt"):
                    return False
    for r in spec["request"]:
        if not isinstance(r, str) and (r.get("opt") or r.get("type")):
            return False
    names = [n for g in spec["groups"] for n in (g["cols"] if g["kind"] == "root" else g["features"])]
    return len(names) == len(set(names))


def gen_strict(rng: random.Random, max_groups: int = 4, max_feats: int = 9, group_dag: Optional[bool] = None,
               n_rows: int = 3, cfw: str = "PyArrowTable") -> Dict[str, Any]:
    """One root group and derived groups whose features are created in a random interleaving: inputs come from ANY earlier
    feature, so the graphs have intra-group chains, diamonds, shared inputs and (unless group_dag) dependencies between
    groups in both directions.  group_dag=True: a feature only uses earlier groups or earlier features of its own group."""
    if group_dag is None:
        group_dag = rng.random() < 0.5
    cols = {c: [rng.randrange(-5, 20) for _ in range(n_rows)] for c in ["a", "b", "c"][: rng.randrange(1, 4)]}
    n_groups = rng.randrange(1, max_groups + 1)
    feats: List[Dict[str, Any]] = [dict() for _ in range(n_groups)]
    home: Dict[str, int] = {c: -1 for c in cols}
    order: List[str] = list(cols)
    for i in range(rng.randrange(1, max_feats + 1)):
        gi = rng.randrange(n_groups)
        pool = [n for n in order if (not group_dag) or home[n] <= gi]
        k = rng.randrange(1, min(3, len(pool)) + 1)
        if rng.random() < 0.5 and len(pool) > 2:
            pool = pool[-4:]                      # prefer recent features: longer chains
            k = min(k, len(pool))
        ins = rng.sample(pool, k)
        name = f"f{i + 1}"
        feats[gi][name] = {"inputs": ins, "c0": rng.randrange(-3, 4), "coefs": [rng.choice([1, 1, 2, -1, 3]) for _ in ins]}
        home[name] = gi
        order.append(name)
    groups: List[Dict[str, Any]] = [{"name": "R0", "kind": "root", "cfw": cfw, "cols": cols}]
    for gi, f in enumerate(feats):
        if f:
            groups.append({"name": f"D{gi + 1}", "kind": "derived", "cfw": cfw, "features": f})
    derived = [n for n in order if n not in cols]
    req = rng.sample(derived, rng.randrange(1, min(3, len(derived)) + 1))
    if rng.random() < 0.3:
        req.append(rng.choice(list(cols)))
    return {"groups": groups, "request": req}


def gen_cross(rng: random.Random, cfw: str = "PyArrowTable") -> Dict[str, Any]:
    """2-3 derived groups whose features take their inputs from the root or from ONE feature of another group: features of
    one group are mostly unrelated to each other, so a group is often a single step and the steps of two groups may
    require each other (the cross-group cycle of PlannerA_plan_wf_refuted), or the level split resolves it."""
    cols = {c: [rng.randrange(-5, 20) for _ in range(3)] for c in ["a", "b"][: rng.randrange(1, 3)]}
    k = rng.randrange(2, 4)
    feats: List[Dict[str, Any]] = [dict() for _ in range(k)]
    home: Dict[str, int] = {}
    order: List[str] = []
    for i in range(rng.randrange(3, 9)):
        gi = rng.randrange(k)
        others = [n for n in order if home[n] != gi]
        if others and rng.random() < 0.6:
            ins = [rng.choice(others)]
            if rng.random() < 0.3:
                ins.append(rng.choice(list(cols)))
        else:
            ins = [rng.choice(list(cols))]
        name = f"f{i + 1}"
        feats[gi][name] = {"inputs": ins, "c0": rng.randrange(-3, 4), "coefs": [rng.choice([1, 2, -1]) for _ in ins]}
        home[name] = gi
        order.append(name)
    groups: List[Dict[str, Any]] = [{"name": "R0", "kind": "root", "cfw": cfw, "cols": cols}]
    for gi, f in enumerate(feats):
        if f:
            groups.append({"name": f"D{gi + 1}", "kind": "derived", "cfw": cfw, "features": f})
    used = {i for f in feats for d in f.values() for i in d["inputs"]}
    leaves = [n for n in order if n not in used]
    req = leaves if rng.random() < 0.7 else rng.sample(order, rng.randrange(1, min(3, len(order)) + 1))
    return {"groups": groups, "request": req}


def spec_cross_cycle() -> Dict[str, Any]:
    """The smallest request whose steps wait for each other (rejected at prepare since /repo 12fe10c; before, the run never
    returned): D1 = {a1 <- r, a2 <- b2}, D2 = {b1 <- a1, b2 <- r}; no feature of a group
    depends on another one of the same group, so each group is ONE step and the two steps require each other."""
    return {"groups": [
        {"name": "R0", "kind": "root", "cfw": "PyArrowTable", "cols": {"r": [1, 2, 3]}},
        {"name": "D1", "kind": "derived", "cfw": "PyArrowTable", "features": {
            "a1": {"inputs": ["r"], "c0": 0, "coefs": [1]}, "a2": {"inputs": ["b2"], "c0": 0, "coefs": [1]}}},
        {"name": "D2", "kind": "derived", "cfw": "PyArrowTable", "features": {
            "b1": {"inputs": ["a1"], "c0": 0, "coefs": [1]}, "b2": {"inputs": ["r"], "c0": 1, "coefs": [1]}}}],
        "request": ["a2", "b1"]}


def spec_diamond_chain() -> Dict[str, Any]:
    """diamond (d <- b, c <- a) + intra-group chain (f1 <- a, f2 <- f1, f3 <- f2, f1) + requested feature that is also a
    dependency (f2)."""
    return {"groups": [
        {"name": "R0", "kind": "root", "cfw": "PyArrowTable", "cols": {"a": [1, 2, 3]}},
        {"name": "D1", "kind": "derived", "cfw": "PyArrowTable", "features": {
            "b": {"inputs": ["a"], "c0": 1, "coefs": [1]}, "c": {"inputs": ["a"], "c0": 2, "coefs": [2]}}},
        {"name": "D2", "kind": "derived", "cfw": "PyArrowTable", "features": {
            "d": {"inputs": ["b", "c"], "c0": 0, "coefs": [1, 1]}}},
        {"name": "D3", "kind": "derived", "cfw": "PyArrowTable", "features": {
            "f1": {"inputs": ["a"], "c0": 0, "coefs": [1]}, "f2": {"inputs": ["f1"], "c0": 0, "coefs": [2]},
            "f3": {"inputs": ["f2", "f1"], "c0": 0, "coefs": [1, 1]}}}],
        "request": ["d", "f3", "f2"]}


# ------------------------------------------------------------------------------------------------------------
# observation of one real preparation
# ------------------------------------------------------------------------------------------------------------

class Tables:
    def __init__(self, spec: Dict[str, Any]) -> None:
        names = sorted({n for g in spec["groups"] for n in (g["cols"] if g["kind"] == "root" else g["features"])})
        self.name_idx = {n: i for i, n in enumerate(names)}
        self.group_idx = {g["name"]: i + 1 for i, g in enumerate(spec["groups"])}
        cf = sorted({g["cfw"] for g in spec["groups"]})
        self.cfw_idx = {c: i + 1 for i, c in enumerate(cf)}
        self.defs: List[Tuple[int, int, List[int], int]] = []
        for g in spec["groups"]:
            if g["kind"] == "root":
                for c in g["cols"]:
                    self.defs.append((self.name_idx[c], self.group_idx[g["name"]], [], self.cfw_idx[g["cfw"]]))
            else:
                for n, d in g["features"].items():
                    self.defs.append((self.name_idx[n], self.group_idx[g["name"]], [self.name_idx[i] for i in d["inputs"]],
                                      self.cfw_idx[g["cfw"]]))
        self.request = [self.name_idx[r if isinstance(r, str) else r["name"]] for r in spec["request"]]


def install_capture() -> None:
    """Harness-side wrappers: remember the Engine and the ExecutionPlan of the current prepare, also when it raises."""
    from harness.orch import install
    install()
    if _cap_installed[0]:
        return
    _cap_installed[0] = True
    from mloda.core.core.engine import Engine
    from mloda.core.prepare.execution_plan import ExecutionPlan
    orig_setup = Engine.create_setup_execution_plan

    def create_setup_execution_plan(self: Any, features: Any) -> Any:
        CAP["engine"] = self
        return orig_setup(self, features)
    Engine.create_setup_execution_plan = create_setup_execution_plan  # type: ignore[method-assign]
    orig_create = ExecutionPlan.create_execution_plan

    def create_execution_plan(self: Any, queue: Any, graph: Any, link_trekker: Any) -> Any:
        CAP["ep"] = self
        return orig_create(self, queue, graph, link_trekker)
    ExecutionPlan.create_execution_plan = create_execution_plan  # type: ignore[method-assign]


def classify_rejection(e: BaseException) -> Optional[int]:
    msg = str(e)
    if isinstance(e, ValueError) and "Execution plan is incomplete" in msg:
        return 1
    if isinstance(e, ValueError) and "wait for each other in a cycle" in msg:
        return 2
    return None


def observe(spec: Dict[str, Any]) -> Dict[str, Any]:
    """Run the real prepare and return the observation in canonical ids, or {"error": ...}."""
    from harness.universe import Universe
    from harness.orch import LAST
    from mloda.core.core.step.feature_group_step import FeatureGroupStep
    install_capture()
    LAST.pop("graph", None)
    CAP.clear()
    t = Tables(spec)
    uni = Universe(spec)
    try:
        sess = None
        outcome = 0
        try:
            sess = uni.prepare()
        except Exception as e:  # noqa: BLE001
            code = classify_rejection(e)
            if code is None:
                return {"error": f"prepare raised {type(e).__name__}: {str(e)[:200]}", "tables": t}
            outcome = code
        graph = LAST.get("graph")
        eng = CAP.get("engine")
        ep = CAP.get("ep")
        if graph is None or eng is None or ep is None or not hasattr(ep, "execution_plan"):
            return {"error": "feature graph / execution plan of the preparation not observed", "tables": t}
        ren: Dict[Any, int] = {}
        nodes = graph.get_nodes()
        for u in list(eng.feature_link_parents.keys()):
            f = nodes[u].feature
            ren[u] = 2 * t.name_idx[f.get_name()] + (1 if f.child_options is None else 0)
        if len(set(ren.values())) != len(ren):
            return {"error": "two features of the graph have the same (name, requested-copy) identity", "tables": t}
        g = []
        for u, parents in eng.feature_link_parents.items():
            np_ = nodes[u]
            cf = np_.feature.compute_frameworks
            if cf is None or len(cf) != 1:
                return {"error": f"feature {np_.feature.get_name()} has compute frameworks {cf}", "tables": t}
            g.append((ren[u], t.group_idx[uni.group_display(np_.feature_group_class)], [ren[p] for p in parents],
                      bool(np_.feature.initial_requested_data), t.cfw_idx[next(iter(cf)).__name__]))
        queue = [ren[u] for u in graph.queue]
        p2c = [(ren[c], sorted(ren[p] for p in ps)) for c, ps in graph.parent_to_children_mapping.items() if ps]
        plan = []
        for st in ep.execution_plan:
            if not isinstance(st, FeatureGroupStep):
                return {"error": f"plan contains a {type(st).__name__}", "tables": t}
            feats = list(st.features.features)
            plan.append((sorted(ren[f.uuid] for f in feats), sorted(ren[u] for u in st.required_uuids),
                         any(f.initial_requested_data for f in feats), sorted(ren[u] for u in st.children_if_root)))
        return {"tables": t, "g": g, "queue": queue, "p2c": p2c, "plan": plan, "session": sess, "outcome": outcome}
    finally:
        uni.dispose()


# ------------------------------------------------------------------------------------------------------------
# Coq terms
# ------------------------------------------------------------------------------------------------------------

def _nl(xs: Any) -> str:
    return cq_list(cq_nat(x) for x in xs)


def cq_case(o: Dict[str, Any]) -> str:
    t: Tables = o["tables"]
    defs = cq_list(f"{{| dname := {cq_nat(n)}; dgrp := {cq_nat(gr)}; dins := {_nl(ins)}; dcfw := {cq_nat(cf)} |}}"
                   for n, gr, ins, cf in t.defs)
    g = cq_list(f"{{| fid := {cq_nat(u)}; fgrp := {cq_nat(gr)}; fins := {_nl(ins)}; freq := {cq_bool(rq)}; fcfw := {cq_nat(cf)} |}}"
                for u, gr, ins, rq, cf in o["g"])
    p2c = cq_list(f"({cq_nat(c)}, {_nl(ps)})" for c, ps in o["p2c"])
    plan = cq_list(f"({_nl(us)}, {_nl(rq)}, {cq_bool(rqd)}, {_nl(cir)})" for us, rq, rqd, cir in o["plan"])
    return (f"{{| pc_defs := {defs}; pc_req := {_nl(t.request)}; pc_g := {g}; pc_queue := {_nl(o['queue'])}; "
            f"pc_p2c := {p2c}; pc_plan := {plan}; pc_outcome := {cq_nat(o['outcome'])} |}}")


# ------------------------------------------------------------------------------------------------------------
# the check
# ------------------------------------------------------------------------------------------------------------

def check_plans(specs: List[Dict[str, Any]], rep_prefix: str, keep_sessions: bool = False,
                run_accepted: int = 0, run_timeout: float = 15.0) -> List[Dict[str, Any]]:
    """Disagreements between the real planner and the model on the strict-fragment specs among `specs`.
    rep_prefix names the scratch directory (_build/<rep_prefix>/planA_*).  run_accepted > 0: additionally run up to that
    many accepted plans in SYNC under a watchdog; a run that does not return 'ok' is a disagreement (stage 'run')."""
    logging.disable(logging.CRITICAL)
    out: List[Dict[str, Any]] = []
    idx, obs = [], []
    for i, spec in enumerate(specs):
        if not in_fragment(spec):
            continue
        o = observe(spec)
        if "error" in o:
            out.append({"spec": spec, "stage": "observe",
                        "what": o["error"] + " (the model: every acyclic strict-fragment request is planned with feature-group steps "
                                             "only and either accepted or rejected with the cycle error)"})
            continue
        idx.append(i)
        obs.append(o)
    info: Dict[str, Any] = {"specs": len(specs), "in_fragment": len(idx) + len(out), "compared": len(idx)}
    cases: List[Dict[str, Any]] = []
    if obs:
        terms = [cq_case(o) for o in obs]

        def failing(name: str, checker: str, ts: List[str] = terms) -> List[int]:
            return vlib.run_cases(rep_prefix, name, REQ, checker, ts, case_type="pcase", shard=40)[0]
        bad, ci = vlib.run_cases(rep_prefix, "planA_all", REQ, "chk_planner", terms, case_type="pcase", shard=40)
        info["coq"] = ci
        bad_rp = failing("planA_reqplan", "chk_request_plan")
        bad_ro = failing("planA_reqout", "chk_request_outcome")
        not_wf = set(failing("planA_wf", "model_wf"))
        not_acc = set(failing("planA_acc", "model_accepted"))
        bad_iff = failing("planA_iff", "model_accept_iff_wf")
        not_dag = set(failing("planA_dag", "model_group_dag"))
        not_ddag = set(failing("planA_ddag", "model_defs_group_dag"))
        not_cov = set(failing("planA_cov", "model_req_covers"))
        stage_of: Dict[int, str] = {}
        if bad:
            # which stage failed first (re-evaluated on the failing cases only)
            sub = [terms[k] for k in bad]
            for stage in STAGES[:5]:
                for j in failing("planA_diag", stage, sub):
                    stage_of.setdefault(bad[j], stage)
        for k in bad:
            o = obs[k]
            what = f"real planner and model differ at {stage_of.get(k, '?')}"
            if stage_of.get(k) == "chk_plan":
                what += (f" (real prepare: {OUTCOME[o['outcome']]}; model: "
                         f"{'accepted' if k not in not_acc else 'rejected'}, or the steps differ)")
            out.append({"spec": specs[idx[k]], "stage": stage_of.get(k, "chk_planner"), "what": what,
                        "observed": {kk: o[kk] for kk in ("g", "queue", "p2c", "plan", "outcome")}})
        for k in bad_rp:
            if k not in bad:
                out.append({"spec": specs[idx[k]], "stage": "chk_request_plan",
                            "what": "the plan computed from the request in canonical orders has other steps than the real plan",
                            "observed": {kk: obs[k][kk] for kk in ("g", "plan")}})
        for k in bad_ro:
            if k not in bad:
                out.append({"spec": specs[idx[k]], "stage": "chk_request_outcome",
                            "what": f"the request alone decides otherwise than the real prepare ({OUTCOME[obs[k]['outcome']]})"})
        for k in sorted(not_cov):
            out.append({"spec": specs[idx[k]], "stage": "model_req_covers",
                        "what": "model plan does not require the ancestor closure (contradicts theorem plan_req_covers)"})
        for k in bad_iff:
            out.append({"spec": specs[idx[k]], "stage": "model_accept_iff_wf",
                        "what": "model accepts a plan that is not well formed or rejects a well-formed one (contradicts prepare_accepts_iff)"})
        for k in sorted(not_acc - not_dag):
            out.append({"spec": specs[idx[k]], "stage": "model_accepted",
                        "what": "model rejects although the groups form a DAG (contradicts theorem prepare_accepts_dag)"})
        for k in sorted(not_dag - not_ddag):
            out.append({"spec": specs[idx[k]], "stage": "model_group_dag",
                        "what": "definitions form a group DAG but the graph does not (contradicts theorem request_group_dag)"})
        n_run = 0
        for k, o in enumerate(obs):
            c = {"index": idx[k], "model_wf": k not in not_wf, "model_accepted": k not in not_acc, "real_outcome": o["outcome"],
                 "group_dag": k not in not_dag, "defs_group_dag": k not in not_ddag,
                 "steps": len(o["plan"]), "nodes": len(o["g"]),
                 "levels": len(o["plan"]) > len({gr for _, gr, _, _, _ in o["g"]}),
                 "session": o["session"] if keep_sessions else None}
            if o["outcome"] == 0 and n_run < run_accepted and o["session"] is not None:
                from harness.orch import run_observed
                n_run += 1
                r = run_observed(o["session"], timeout=run_timeout)
                c["run"] = r["status"]
                if r["status"] != "ok":
                    out.append({"spec": specs[idx[k]], "stage": "run",
                                "what": f"SYNC run of an ACCEPTED strict-fragment plan: {r['status']} after {r['scans']} loop iterations "
                                        f"({str(r.get('exc'))[-200:] if r['status'] == 'raised' else 'watchdog'}); theorem "
                                        "requests_terminate says it exits normally within 2n+1 iterations"})
            cases.append(c)
        info["accepted"] = sum(1 for o in obs if o["outcome"] == 0)
        info["rejected_cycle"] = sum(1 for o in obs if o["outcome"] == 2)
        info["rejected_incomplete"] = sum(1 for o in obs if o["outcome"] == 1)
        info["model_not_wf"] = len(not_wf)
        info["group_cycle"] = len(not_dag)
        info["runs"] = n_run
    info["cases"] = cases
    info["disagreements"] = len(out)
    LAST_INFO.clear()
    LAST_INFO.update(info)
    return out


def main(argv: List[str]) -> int:
    n = int(argv[1]) if len(argv) > 1 else 120
    seed = int(argv[2]) if len(argv) > 2 else 0
    n_run = int(argv[3]) if len(argv) > 3 else 40
    from harness import daggen
    rng = random.Random(seed)
    specs = [spec_diamond_chain(), spec_cross_cycle()]
    for i in range(n):
        specs.append(daggen.gen_single_root(rng, multi_cfw=False) if i % 3 == 0 else (gen_cross(rng) if i % 3 == 1 else gen_strict(rng)))
    pr = vlib.build_props("PlannerA")
    print("Props/PlannerA.v:", "ok" if pr.ok else "BROKEN", f"{pr.discharged}/{pr.obligations} statements,", sorted(set(pr.assumptions)))
    dis = check_plans(specs, "PlannerA", run_accepted=n_run, run_timeout=8.0)
    info = dict(LAST_INFO)
    cases = info.pop("cases")
    print({k: v for k, v in info.items() if k != "coq"})
    print("steps histogram:", sorted({c["steps"]: sum(1 for d in cases if d["steps"] == c["steps"]) for c in cases}.items()))
    print("with level split:", sum(c["levels"] for c in cases), "group cycles:", sum(not c["group_dag"] for c in cases),
          "group cycle but accepted:", sum((not c["group_dag"]) and c["real_outcome"] == 0 for c in cases),
          "rejected (cycle):", sum(c["real_outcome"] == 2 for c in cases))
    for d in dis[:10]:
        print("DISAGREEMENT", d["stage"], d["what"], str(d["spec"])[:300])
    return 1 if (dis or not pr.ok) else 0


if __name__ == "__main__":
    sys.exit(main(sys.argv))
