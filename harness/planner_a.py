"""Correspondence between the real planner and its Coq model for the strict Stage-A fragment (coq/Model/PlannerA.v).

Fragment: every feature group has the same single compute framework, no Links, no global filter, no declared data types,
default options only.  For each such spec (harness/universe.py format) the REAL mloda.prepare is run and observed without
source hooks:
    engine.feature_link_parents (dict order, set orders)  -> the model's input graph, in the engine's own orders
    graph.queue, graph.parent_to_children_mapping         -> intermediate results (harness.orch LAST["graph"])
    the execution plan (FeatureGroupSteps: uuids, required_uuids, requested, children_if_root) in plan order
and compared inside Coq (vm_compute, vlib.run_cases) with the model computed from the observed graph:
    chk_request   the engine's graph = request_graph(definitions, request) up to node / input order
    chk_graph     the graph satisfies the hypotheses of the theorems (graph_okb, strictb)
    chk_queue     the DFS queue, exactly
    chk_closure   parent_to_children_mapping, as sets
    chk_plan      the plan, step by step IN PLAN ORDER (lists inside a step as sets), prepare_A = Planned
    chk_request_plan  the plan computed from the request alone (canonical orders) has the same steps up to order
                      (what plan_deterministic allows)
Uuids are renamed canonically: 2*name_index (+1 for the requested copy), so nothing depends on uuid4 or on plan order.

check_plans(specs, rep_prefix) -> list of disagreements (dicts: spec, stage, what); LAST_INFO has counters, the
classification of every case (model_wf, group_dag) and LAST_INFO["deadlock_specs"]: the specs inside the known-defect
domain of theorem PlannerA_plan_wf_refuted (accepted plan with a cyclic wait-for relation; the real plan equals the
model's, the run never returns) - to be reported under known finding DEADLOCK_KEY, they are NOT disagreements.
`python3 -m harness.planner_a [n] [seed]` runs a self test (builds Props/PlannerA.v, compares, runs under a watchdog).
"""
from __future__ import annotations

import logging
import random
import sys
from typing import Any, Dict, List, Optional, Tuple

from lib import vlib
from lib.vlib import cq_bool, cq_list, cq_nat

REQ = ["MV.Model.Orch", "MV.Model.OrchCheck", "MV.Model.PlannerA"]
STAGES = ["chk_request", "chk_graph", "chk_queue", "chk_closure", "chk_plan", "chk_request_plan"]
LAST_INFO: Dict[str, Any] = {}
DEADLOCK_KEY = "C04-cross-group-step-cycle"


# ------------------------------------------------------------------------------------------------------------
# fragment and generators
# ------------------------------------------------------------------------------------------------------------

def in_fragment(spec: Dict[str, Any]) -> bool:
    if spec.get("links") or spec.get("api_frameworks"):
        return False
    cfws = {g.get("cfw") for g in spec["groups"]}
    if len(cfws) != 1 or None in cfws:
        return False
    for g in spec["groups"]:
        if g["kind"] not in ("root", "derived") or g.get("index"):
            return False
        if g["kind"] == "derived":
            for d in g["features"].values():
                if d.get("opt") or d.get("input_opt"):
                    return False
    for r in spec["request"]:
        if not isinstance(r, str) and (r.get("opt") or r.get("type")):
            return False
    names = [n for g in spec["groups"] for n in (g["cols"] if g["kind"] == "root" else g["features"])]
    return len(names) == len(set(names))


def gen_strict(rng: random.Random, max_groups: int = 4, max_feats: int = 9, group_dag: Optional[bool] = None,
               n_rows: int = 3, cfw: str = "PyArrowTable") -> Dict[str, Any]:
    """One root group and derived groups whose features are created in a random interleaving: inputs come from ANY earlier
    feature, so the graphs have intra-group chains, diamonds, shared inputs and (unless group_dag) dependencies between
    groups in both directions.  group_dag=True: a feature only uses earlier groups or earlier features of its own group."""
    if group_dag is None:
        group_dag = rng.random() < 0.5
    cols = {c: [rng.randrange(-5, 20) for _ in range(n_rows)] for c in ["a", "b", "c"][: rng.randrange(1, 4)]}
    n_groups = rng.randrange(1, max_groups + 1)
    feats: List[Dict[str, Any]] = [dict() for _ in range(n_groups)]
    home: Dict[str, int] = {c: -1 for c in cols}
    order: List[str] = list(cols)
    for i in range(rng.randrange(1, max_feats + 1)):
        gi = rng.randrange(n_groups)
        pool = [n for n in order if (not group_dag) or home[n] <= gi]
        k = rng.randrange(1, min(3, len(pool)) + 1)
        if rng.random() < 0.5 and len(pool) > 2:
            pool = pool[-4:]                      # prefer recent features: longer chains
            k = min(k, len(pool))
        ins = rng.sample(pool, k)
        name = f"f{i + 1}"
        feats[gi][name] = {"inputs": ins, "c0": rng.randrange(-3, 4), "coefs": [rng.choice([1, 1, 2, -1, 3]) for _ in ins]}
        home[name] = gi
        order.append(name)
    groups: List[Dict[str, Any]] = [{"name": "R0", "kind": "root", "cfw": cfw, "cols": cols}]
    for gi, f in enumerate(feats):
        if f:
            groups.append({"name": f"D{gi + 1}", "kind": "derived", "cfw": cfw, "features": f})
    derived = [n for n in order if n not in cols]
    req = rng.sample(derived, rng.randrange(1, min(3, len(derived)) + 1))
    if rng.random() < 0.3:
        req.append(rng.choice(list(cols)))
    return {"groups": groups, "request": req}


def gen_cross(rng: random.Random, cfw: str = "PyArrowTable") -> Dict[str, Any]:
    """2-3 derived groups whose features take their inputs from the root or from ONE feature of another group: features of
    one group are mostly unrelated to each other, so a group is often a single step and the steps of two groups may
    require each other (the cross-group cycle of PlannerA_plan_wf_refuted), or the level split resolves it."""
    cols = {c: [rng.randrange(-5, 20) for _ in range(3)] for c in ["a", "b"][: rng.randrange(1, 3)]}
    k = rng.randrange(2, 4)
    feats: List[Dict[str, Any]] = [dict() for _ in range(k)]
    home: Dict[str, int] = {}
    order: List[str] = []
    for i in range(rng.randrange(3, 9)):
        gi = rng.randrange(k)
        others = [n for n in order if home[n] != gi]
        if others and rng.random() < 0.6:
            ins = [rng.choice(others)]
            if rng.random() < 0.3:
                ins.append(rng.choice(list(cols)))
        else:
            ins = [rng.choice(list(cols))]
        name = f"f{i + 1}"
        feats[gi][name] = {"inputs": ins, "c0": rng.randrange(-3, 4), "coefs": [rng.choice([1, 2, -1]) for _ in ins]}
        home[name] = gi
        order.append(name)
    groups: List[Dict[str, Any]] = [{"name": "R0", "kind": "root", "cfw": cfw, "cols": cols}]
    for gi, f in enumerate(feats):
        if f:
            groups.append({"name": f"D{gi + 1}", "kind": "derived", "cfw": cfw, "features": f})
    used = {i for f in feats for d in f.values() for i in d["inputs"]}
    leaves = [n for n in order if n not in used]
    req = leaves if rng.random() < 0.7 else rng.sample(order, rng.randrange(1, min(3, len(order)) + 1))
    return {"groups": groups, "request": req}


def spec_cross_cycle() -> Dict[str, Any]:
    """The smallest request whose plan deadlocks: D1 = {a1 <- r, a2 <- b2}, D2 = {b1 <- a1, b2 <- r}; no feature of a group
    depends on another one of the same group, so each group is ONE step and the two steps require each other."""
    return {"groups": [
        {"name": "R0", "kind": "root", "cfw": "PyArrowTable", "cols": {"r": [1, 2, 3]}},
        {"name": "D1", "kind": "derived", "cfw": "PyArrowTable", "features": {
            "a1": {"inputs": ["r"], "c0": 0, "coefs": [1]}, "a2": {"inputs": ["b2"], "c0": 0, "coefs": [1]}}},
        {"name": "D2", "kind": "derived", "cfw": "PyArrowTable", "features": {
            "b1": {"inputs": ["a1"], "c0": 0, "coefs": [1]}, "b2": {"inputs": ["r"], "c0": 1, "coefs": [1]}}}],
        "request": ["a2", "b1"]}


def spec_diamond_chain() -> Dict[str, Any]:
    """diamond (d <- b, c <- a) + intra-group chain (f1 <- a, f2 <- f1, f3 <- f2, f1) + requested feature that is also a
    dependency (f2)."""
    return {"groups": [
        {"name": "R0", "kind": "root", "cfw": "PyArrowTable", "cols": {"a": [1, 2, 3]}},
        {"name": "D1", "kind": "derived", "cfw": "PyArrowTable", "features": {
            "b": {"inputs": ["a"], "c0": 1, "coefs": [1]}, "c": {"inputs": ["a"], "c0": 2, "coefs": [2]}}},
        {"name": "D2", "kind": "derived", "cfw": "PyArrowTable", "features": {
            "d": {"inputs": ["b", "c"], "c0": 0, "coefs": [1, 1]}}},
        {"name": "D3", "kind": "derived", "cfw": "PyArrowTable", "features": {
            "f1": {"inputs": ["a"], "c0": 0, "coefs": [1]}, "f2": {"inputs": ["f1"], "c0": 0, "coefs": [2]},
            "f3": {"inputs": ["f2", "f1"], "c0": 0, "coefs": [1, 1]}}}],
        "request": ["d", "f3", "f2"]}


# ------------------------------------------------------------------------------------------------------------
# observation of one real preparation
# ------------------------------------------------------------------------------------------------------------

class Tables:
    def __init__(self, spec: Dict[str, Any]) -> None:
        names = sorted({n for g in spec["groups"] for n in (g["cols"] if g["kind"] == "root" else g["features"])})
        self.name_idx = {n: i for i, n in enumerate(names)}
        self.group_idx = {g["name"]: i + 1 for i, g in enumerate(spec["groups"])}
        cf = sorted({g["cfw"] for g in spec["groups"]})
        self.cfw_idx = {c: i + 1 for i, c in enumerate(cf)}
        self.defs: List[Tuple[int, int, List[int], int]] = []
        for g in spec["groups"]:
            if g["kind"] == "root":
                for c in g["cols"]:
                    self.defs.append((self.name_idx[c], self.group_idx[g["name"]], [], self.cfw_idx[g["cfw"]]))
            else:
                for n, d in g["features"].items():
                    self.defs.append((self.name_idx[n], self.group_idx[g["name"]], [self.name_idx[i] for i in d["inputs"]],
                                      self.cfw_idx[g["cfw"]]))
        self.request = [self.name_idx[r if isinstance(r, str) else r["name"]] for r in spec["request"]]


def observe(spec: Dict[str, Any]) -> Dict[str, Any]:
    """Run the real prepare and return the observation in canonical ids, or {"error": ...}."""
    from harness.universe import Universe
    from harness.orch import install, LAST
    from mloda.core.core.step.feature_group_step import FeatureGroupStep
    install()
    LAST.pop("graph", None)
    t = Tables(spec)
    uni = Universe(spec)
    try:
        try:
            sess = uni.prepare()
        except Exception as e:  # noqa: BLE001
            return {"error": f"prepare raised {type(e).__name__}: {str(e)[:200]}", "tables": t}
        graph = LAST.get("graph")
        if graph is None:
            return {"error": "no feature graph observed", "tables": t}
        eng = sess.engine
        ren: Dict[Any, int] = {}
        nodes = graph.get_nodes()
        for u in list(eng.feature_link_parents.keys()):
            f = nodes[u].feature
            ren[u] = 2 * t.name_idx[f.get_name()] + (1 if f.child_options is None else 0)
        if len(set(ren.values())) != len(ren):
            return {"error": "two features of the graph have the same (name, requested-copy) identity", "tables": t}
        g = []
        for u, parents in eng.feature_link_parents.items():
            np_ = nodes[u]
            cf = np_.feature.compute_frameworks
            if cf is None or len(cf) != 1:
                return {"error": f"feature {np_.feature.get_name()} has compute frameworks {cf}", "tables": t}
            g.append((ren[u], t.group_idx[uni.group_display(np_.feature_group_class)], [ren[p] for p in parents],
                      bool(np_.feature.initial_requested_data), t.cfw_idx[next(iter(cf)).__name__]))
        queue = [ren[u] for u in graph.queue]
        p2c = [(ren[c], sorted(ren[p] for p in ps)) for c, ps in graph.parent_to_children_mapping.items() if ps]
        plan = []
        for st in eng.execution_planner:
            if not isinstance(st, FeatureGroupStep):
                return {"error": f"plan contains a {type(st).__name__}", "tables": t}
            feats = list(st.features.features)
            plan.append((sorted(ren[f.uuid] for f in feats), sorted(ren[u] for u in st.required_uuids),
                         any(f.initial_requested_data for f in feats), sorted(ren[u] for u in st.children_if_root)))
        return {"tables": t, "g": g, "queue": queue, "p2c": p2c, "plan": plan, "session": sess}
    finally:
        uni.dispose()


# ------------------------------------------------------------------------------------------------------------
# Coq terms
# ------------------------------------------------------------------------------------------------------------

def _nl(xs: Any) -> str:
    return cq_list(cq_nat(x) for x in xs)


def cq_case(o: Dict[str, Any]) -> str:
    t: Tables = o["tables"]
    defs = cq_list(f"{{| dname := {cq_nat(n)}; dgrp := {cq_nat(gr)}; dins := {_nl(ins)}; dcfw := {cq_nat(cf)} |}}"
                   for n, gr, ins, cf in t.defs)
    g = cq_list(f"{{| fid := {cq_nat(u)}; fgrp := {cq_nat(gr)}; fins := {_nl(ins)}; freq := {cq_bool(rq)}; fcfw := {cq_nat(cf)} |}}"
                for u, gr, ins, rq, cf in o["g"])
    p2c = cq_list(f"({cq_nat(c)}, {_nl(ps)})" for c, ps in o["p2c"])
    plan = cq_list(f"({_nl(us)}, {_nl(rq)}, {cq_bool(rqd)}, {_nl(cir)})" for us, rq, rqd, cir in o["plan"])
    return (f"{{| pc_defs := {defs}; pc_req := {_nl(t.request)}; pc_g := {g}; pc_queue := {_nl(o['queue'])}; "
            f"pc_p2c := {p2c}; pc_plan := {plan} |}}")


# ------------------------------------------------------------------------------------------------------------
# the check
# ------------------------------------------------------------------------------------------------------------

def check_plans(specs: List[Dict[str, Any]], rep_prefix: str, keep_sessions: bool = False) -> List[Dict[str, Any]]:
    """Disagreements between the real planner and the model on the strict-fragment specs among `specs`.
    rep_prefix names the scratch directory (_build/<rep_prefix>/planA_*)."""
    logging.disable(logging.CRITICAL)
    out: List[Dict[str, Any]] = []
    idx, obs = [], []
    for i, spec in enumerate(specs):
        if not in_fragment(spec):
            continue
        o = observe(spec)
        if "error" in o:
            out.append({"spec": spec, "stage": "observe", "what": o["error"] + " (the model plans every acyclic strict-fragment request)"})
            continue
        idx.append(i)
        obs.append(o)
    info: Dict[str, Any] = {"specs": len(specs), "in_fragment": len(idx) + len(out), "compared": len(idx)}
    cases: List[Dict[str, Any]] = []
    if obs:
        terms = [cq_case(o) for o in obs]
        bad, ci = vlib.run_cases(rep_prefix, "planA_all", REQ, "chk_planner", terms, case_type="pcase", shard=40)
        info["coq"] = ci
        bad_rp, _ = vlib.run_cases(rep_prefix, "planA_reqplan", REQ, "chk_request_plan", terms, case_type="pcase", shard=40)
        not_wf = set(vlib.run_cases(rep_prefix, "planA_wf", REQ, "model_wf", terms, case_type="pcase", shard=40)[0])
        not_dag = set(vlib.run_cases(rep_prefix, "planA_dag", REQ, "model_group_dag", terms, case_type="pcase", shard=40)[0])
        not_ddag = set(vlib.run_cases(rep_prefix, "planA_ddag", REQ, "model_defs_group_dag", terms, case_type="pcase", shard=40)[0])
        not_cov = set(vlib.run_cases(rep_prefix, "planA_cov", REQ, "model_req_covers", terms, case_type="pcase", shard=40)[0])
        stage_of: Dict[int, str] = {}
        if bad:
            # which stage failed first (re-evaluated on the failing cases only)
            sub = [terms[k] for k in bad]
            for stage in STAGES[:5]:
                for j in vlib.run_cases(rep_prefix, "planA_diag", REQ, stage, sub, case_type="pcase", shard=40)[0]:
                    stage_of.setdefault(bad[j], stage)
        for k in bad:
            o = obs[k]
            out.append({"spec": specs[idx[k]], "stage": stage_of.get(k, "chk_planner"),
                        "what": f"real planner and model differ at {stage_of.get(k, '?')}",
                        "observed": {kk: o[kk] for kk in ("g", "queue", "p2c", "plan")}})
        for k in bad_rp:
            if k not in bad:
                out.append({"spec": specs[idx[k]], "stage": "chk_request_plan",
                            "what": "the plan computed from the request in canonical orders has other steps than the real plan",
                            "observed": {kk: obs[k][kk] for kk in ("g", "plan")}})
        for k in sorted(not_cov):
            out.append({"spec": specs[idx[k]], "stage": "model_req_covers",
                        "what": "model plan does not require the ancestor closure (contradicts theorem plan_req_covers)"})
        for k in sorted(not_wf - not_dag):
            out.append({"spec": specs[idx[k]], "stage": "model_wf",
                        "what": "model plan not well formed although the groups form a DAG (contradicts theorem plan_wf)"})
        for k in sorted(not_dag - not_ddag):
            out.append({"spec": specs[idx[k]], "stage": "model_group_dag",
                        "what": "definitions form a group DAG but the graph does not (contradicts theorem request_group_dag)"})
        for k, o in enumerate(obs):
            cases.append({"index": idx[k], "model_wf": k not in not_wf, "group_dag": k not in not_dag,
                          "defs_group_dag": k not in not_ddag,
                          "steps": len(o["plan"]), "nodes": len(o["g"]),
                          "levels": len(o["plan"]) > len({gr for _, gr, _, _, _ in o["g"]}),
                          "session": o["session"] if keep_sessions else None})
        info["model_not_wf"] = len(not_wf)
        info["group_cycle"] = len(not_dag)
        # known-defect domain (PlannerA_plan_wf_refuted): accepted plans whose wait-for relation is cyclic; the real plan
        # equals the model's (checked above), so the real run never returns
        info["deadlock_specs"] = [specs[idx[k]] for k in sorted(not_wf)]
    info["cases"] = cases
    info["disagreements"] = len(out)
    LAST_INFO.clear()
    LAST_INFO.update(info)
    return out


def main(argv: List[str]) -> int:
    n = int(argv[1]) if len(argv) > 1 else 120
    seed = int(argv[2]) if len(argv) > 2 else 0
    from harness import daggen
    from harness.orch import run_observed
    rng = random.Random(seed)
    specs = [spec_diamond_chain(), spec_cross_cycle()]
    for i in range(n):
        specs.append(daggen.gen_single_root(rng, multi_cfw=False) if i % 3 == 0 else (gen_cross(rng) if i % 3 == 1 else gen_strict(rng)))
    pr = vlib.build_props("PlannerA")
    print("Props/PlannerA.v:", "ok" if pr.ok else "BROKEN", f"{pr.discharged}/{pr.obligations} statements,", sorted(set(pr.assumptions)))
    dis = check_plans(specs, "PlannerA", keep_sessions=True)
    info = dict(LAST_INFO)
    cases = info.pop("cases")
    print({k: v for k, v in info.items() if k not in ("coq", "deadlock_specs")})
    print("steps histogram:", sorted({c["steps"]: sum(1 for d in cases if d["steps"] == c["steps"]) for c in cases}.items()))
    print("with level split:", sum(c["levels"] for c in cases), "group cycles:", sum(not c["group_dag"] for c in cases),
          "model plan not wf:", sum(not c["model_wf"] for c in cases))
    for d in dis[:10]:
        print("DISAGREEMENT", d["stage"], d["what"], d["spec"])
    # the model's verdict against the real orchestrator: wf => terminates, not wf => never exits (watchdog)
    wrong = 0
    tried = 0
    for c in cases:
        if c["model_wf"] and tried > 25:
            continue
        tried += 1
        o = run_observed(c["session"], timeout=(20.0 if c["model_wf"] else 4.0))
        expect = "ok" if c["model_wf"] else "hang"
        if o["status"] != expect:
            wrong += 1
            print("RUN MISMATCH", specs[c["index"]], "model_wf", c["model_wf"], "run", o["status"], str(o.get("exc"))[-200:])
    print("runs checked against the model's verdict:", tried, "mismatches:", wrong)
    return 1 if (dis or wrong or not pr.ok) else 0


if __name__ == "__main__":
    sys.exit(main(sys.argv))
