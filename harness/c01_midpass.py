"""C01 / C08 family "a worker fails in the MIDDLE of a pass of the orchestrator's loop".

THREADING run under the gating scheduler (harness/orch.py run_gated) with a fault injected into ONE feature-group step F that has
a dependent step.  F is not released by the driver thread but by the plan iterator, right before the orchestrator's for loop hands
F to the loop body, and the iterator then waits until F's worker thread has ENDED.  The failure therefore lands after the
`cfw_register.get_error()` test at the top of the while loop and before the visit of F and of its dependents in the same pass -
the window in which a worker that reported completion although it failed would make the loop start the dependent step.

Judged directly: no calculation may begin that needs a column of F (harness/c01.judge_trace on the calculation trace + "no step
begins after the failure"), the run raises with the injected message and returns nothing.
Tied to the model: the history (rounds, the mid-pass round carrying the number of visits made before the failure, the set of steps
observed to BEGIN) is replayed by Model/OrchMid.v chk_gated_m with vm_compute; Props/C01.v C01_midpass_failure_commutes /
C01_gated_history_sound give its meaning.
"""
from __future__ import annotations

import json
import random
from typing import Any, Dict, List, Optional, Tuple

from lib import vlib
from lib.vlib import cq_bool, cq_list, cq_nat
from harness.universe import Universe, export_plan
from harness.orch import GateListener, cq_plan, run_gated

REQ = ["MV.Model.Orch", "MV.Model.OrchCheck", "MV.Model.OrchMid"]
CASE_TYPE = "plan * (list (list nat * nat * bool * option nat) * ostatus * list nat)"


def candidates(plan: Dict[str, Any]) -> List[int]:
    """FG steps some other step waits for."""
    out = []
    for s in plan["steps"]:
        if s["kind"] != "FG":
            continue
        if any(set(s["uuids"]) & set(t["req"]) for t in plan["steps"] if t["sid"] != s["sid"]):
            out.append(s["sid"])
    return out


def one(spec: Dict[str, Any], fail_group: str, fail_names: List[str], rng: random.Random) -> Dict[str, Any]:
    from harness.c01 import judge_trace
    gl = GateListener()
    uni = Universe(spec, gl)
    sess = uni.prepare()
    plan = export_plan(sess, uni)
    fsid = next((s["sid"] for s in plan["steps"] if s["kind"] == "FG" and s["group"] == fail_group and list(s["names"]) == list(fail_names)), None)
    rec: Dict[str, Any] = {"spec": spec, "fail": [fail_group, list(fail_names)], "plan": {k: v for k, v in plan.items() if k != "_ren"}}
    if fsid is None:
        rec["skipped"] = "failing step not in this preparation"
        return rec
    uni.fail.add((fail_group, sorted(fail_names)[0]))
    g = run_gated(uni, sess, plan, random.Random(rng.random()), midpass_sid=fsid)
    rec.update(fsid=fsid, rounds=g["rounds"], status=g["status"], problem=g["problem"], begins=g["begin_order"],
               midpass=g.get("midpass"), exc=" ".join(str(g.get("exc")).split())[-400:] if g["status"] == "raised" else None)
    rec["judge"] = judge_trace(spec, gl.events, plan, g["begin_order"], g["status"], gl.calls)
    # begins after the failure was observed (by step number): everything that begins after F's worker ended
    return rec


def term(rec: Dict[str, Any]) -> Optional[str]:
    if rec.get("skipped") or rec["problem"] or not all("released" in rd and rd.get("ok") is not None for rd in rec["rounds"]):
        return None
    pos = {s["sid"]: i for i, s in enumerate(rec["plan"]["steps"])}

    def rnd(rd: Dict[str, Any]) -> str:
        mk = f"(Some {cq_nat(pos[rd['released']])})" if rd.get("midpass") else "None"
        return f"({cq_list(cq_nat(x) for x in rd['blocked'])}, {cq_nat(rd['released'])}, {cq_bool(bool(rd['ok']))}, {mk})"
    st = {"ok": "OOk", "raised": "ORaised", "hang": "OHang"}[rec["status"]]
    return f"({cq_plan(rec['plan'])}, ({cq_list(rnd(rd) for rd in rec['rounds'])}, {st}, {cq_list(cq_nat(x) for x in rec['begins'])}))"


def failure_of(rec: Dict[str, Any]) -> Optional[str]:
    """The property / C08's statement on one mid-pass-failure run (None = fine)."""
    if rec.get("skipped"):
        return None
    if rec["problem"]:
        return f"scheduler: {rec['problem']} in round {len(rec['rounds'])} ({rec['rounds'][-1] if rec['rounds'] else None})"
    if rec["judge"]:
        return rec["judge"]
    fired = any(rd.get("midpass") for rd in rec["rounds"])
    if fired and rec["status"] != "raised":
        return f"step {rec['fsid']} raised in the middle of a pass but the run ended with status {rec['status']}"
    if fired and "VERIF-FAULT" not in (rec["exc"] or ""):
        return f"step {rec['fsid']} raised in the middle of a pass; the caller's exception does not carry the original message: {rec['exc'][-200:]}"
    if fired:
        # steps that wait (directly or not) for the failed step must never begin
        steps = {s["sid"]: s for s in rec["plan"]["steps"]}
        fu = set(steps[rec["fsid"]]["uuids"])
        for b in rec["begins"]:
            if b != rec["fsid"] and fu & set(steps[b]["req"]):
                return (f"step {b} ({steps[b]['kind']} {steps[b].get('group')}) began although step {rec['fsid']}, which it waits for, "
                        f"raised (the failure landed in the middle of a pass of the orchestrator's loop)")
    return None


def family(rep: Any, prop: str, recs: List[Dict[str, Any]], eligible: List[int], rng: random.Random, n: int) -> Tuple[bool, Dict[str, Any]]:
    """Runs up to n mid-pass-failure cases on the eligible specs (indices into recs: SYNC run fine, plan outside the defect domains,
    no unordered conflicting steps).  Reports findings through rep; returns (found, counters)."""
    info = {"runs": 0, "fired": 0, "replayed": 0, "skipped": 0, "failures": 0, "dependents_waiting": 0}
    out: List[Dict[str, Any]] = []
    for i in eligible:
        if info["runs"] >= n:
            break
        plan = recs[i]["plan"]
        cands = candidates(plan)
        if not cands:
            continue
        fs = rng.choice(cands)
        st = plan["steps"][fs]
        rec = one(recs[i]["spec"], st["group"], list(st["names"]), rng)
        info["runs"] += 1
        rep.count(1)
        if rec.get("skipped"):
            info["skipped"] += 1
            continue
        if any(rd.get("midpass") for rd in rec["rounds"]):
            info["fired"] += 1
            rep.nontrivial(("midpass", json.dumps(rec["spec"], sort_keys=True), rec["fsid"]))
        out.append(rec)
    terms, idx = [], []
    for k, rec in enumerate(out):
        t = term(rec)
        if t is not None:
            terms.append(t)
            idx.append(k)
    bad = vlib.run_cases(prop, "midpass", REQ, "chk_gated_m", terms, case_type=CASE_TYPE, shard=60)[0] if terms else []
    info["replayed"] = len(terms)
    found = False
    badset = {idx[k] for k in bad}
    for k, rec in enumerate(out):
        f = failure_of(rec)
        key = f"midpass:{json.dumps(rec['spec'], sort_keys=True)}:{rec.get('fsid')}"
        replay = {"kind": "midpass", **{kk: vv for kk, vv in rec.items() if kk != "plan"}}
        if f:
            info["failures"] += 1
            rep.finding(key, "THREADING, failure in the middle of a pass: " + f, replay)
            found = True
        elif k in badset:
            info["failures"] += 1
            rep.finding(key, "THREADING, failure in the middle of a pass: the observed history (enabled sets, steps that began, outcome) is "
                             "not a history of Model/OrchMid.v", replay)
            found = True
    rep.add("midpass_failure_family", info)
    return found, info


def family_once(rep: Any, prop: str, recs: List[Dict[str, Any]], eligible: List[int], rng: random.Random, n: int) -> bool:
    """Every feature is handed to its calculation ONCE also when the calculation fails with a transient environment error
    (ConnectionError / TimeoutError / OSError raised only the first time it is executed): the run raises, the calculation is not
    executed a second time behind the caller's back.  SYNC and THREADING."""
    import builtins
    from mloda.user import ParallelizationMode
    from harness.orch import run_observed
    found = False
    info = {"runs": 0, "raised": 0}
    k = 0
    for i in eligible:
        if info["runs"] >= n:
            break
        plan = recs[i]["plan"]
        fgs = [s for s in plan["steps"] if s["kind"] == "FG"]
        if not fgs:
            continue
        st = rng.choice(fgs)
        exc = ["ConnectionError", "TimeoutError", "OSError", "BrokenPipeError"][k % 4]
        k += 1
        for mode in (ParallelizationMode.SYNC, ParallelizationMode.THREADING):
            gl = GateListener()
            uni = Universe(recs[i]["spec"], gl)
            uni.fail_exc = getattr(builtins, exc)
            key_ = (st["group"], sorted(st["names"])[0])
            uni.fail_once.add(key_)
            o = run_observed(uni.prepare(), modes={mode}, timeout=30)
            info["runs"] += 1
            rep.count(1)
            hits = uni.fail_once_hits.get(key_, 0)
            # several STEPS may calculate a feature of that name (typed requested copy next to the untyped dependency)
            allowed = sum(1 for s_ in plan["steps"] if s_["kind"] == "FG" and s_.get("group") == key_[0] and key_[1] in (s_.get("names") or [])) or 1
            rkey = f"once:{mode.name}:{exc}:{json.dumps(recs[i]['spec'], sort_keys=True)}:{st['sid']}"
            replay = {"kind": "once", "spec": recs[i]["spec"], "fail": [st["group"], list(st["names"])], "exc": exc, "mode": mode.name}
            if hits > allowed:
                rep.finding(rkey, f"{mode.name}: the calculation of {st['group']}.{key_[1]} raised {exc} the first time it was executed and was "
                                  f"executed {hits} times in one run (run {o['status']}): a feature is handed to its calculation once", replay)
                found = True
            elif hits == 1 and o["status"] != "raised":
                rep.finding(rkey, f"{mode.name}: the calculation of {st['group']}.{key_[1]} raised {exc} but the run ended with {o['status']}", replay)
                found = True
            info["raised"] += int(o["status"] == "raised")
    rep.add("transient_environment_fault_family", info)
    return found


def replay(r: Dict[str, Any]) -> int:
    rec = one(r["spec"], r["fail"][0], r["fail"][1], random.Random(0))
    f = failure_of(rec)
    t = term(rec)
    bad = vlib.run_cases("C01", "midpass_replay", REQ, "chk_gated_m", [t], case_type=CASE_TYPE, shard=60)[0] if t else []
    print("mid-pass failure case:", f or ("history not a model history" if bad else "ok"))
    return 1 if (f or bad) else 0
