"""Source-text tie (a fourth kind of tie between model and /repo, next to T1-T3 of DESIGN 2.2).

check(rep) regenerates coq/Gen/Src.v from the current Python SOURCE TEXT with the fail-closed translator harness/py2coq.py,
builds coq/Props/SrcTie.vo (for every target: regenerated definition = hand-written model, for all inputs) and hands the
result to rep.proof.  When the build fails it says, for each target tied to the calling check, whether
  (a) the translation failed closed (with the reason: construct outside the subset, unresolved name, changed signature ...), or
  (b) the translation succeeded and the equivalence proof no longer checks,
and then SEARCHES a small exhaustive input space for a concrete input on which the real Python function (imported from
$VERIF_REPO) and the hand-written model (evaluated by vm_compute) differ.  A found input goes into the replay; without one
the finding is reported with found_input=False (`no-failing-input-found`).
"""
from __future__ import annotations

import itertools
import json
import re
import threading
import time
from typing import Any, Callable, Dict, List, Optional, Tuple

from lib import vlib
from lib.vlib import cq_bool, cq_list, cq_nat, cq_str
from harness import py2coq

# proof file of each target: one file per check, so that a file that no longer compiles belongs to the check that reports it
GROUP: Dict[str, str] = {
    "Index_is_a_part_of_": "Proofs/SrcTieIndexP.v",
    "Index_is_multi_index": "Proofs/SrcTieIndexP.v",
    "LinkValidator_validate_no_double_joins": "Proofs/SrcTieIndexP.v",
    "LinkValidator_validate_no_conflicting_join_types": "Proofs/SrcTieIndexP.v",
    "LinkValidator_validate_right_join_constraints": "Proofs/SrcTieIndexP.v",
    "Link_matches_exact": "Proofs/SrcTieIndexP.v",
    "Orch_is_step_done": "Proofs/SrcTieRunP.v",
    "Orch_can_run_step": "Proofs/SrcTieRunP.v",
    "DataTypeValidator_types_compatible": "Proofs/SrcTieTypesP.v",
    "DataTypeValidator_types_loosely_compatible": "Proofs/SrcTieTypesP.v",
    "FeatureGroup_get_column_base_feature": "Proofs/SrcTieBaseP.v",
    "FeatureChainParser_is_chained_feature": "Proofs/SrcTieChainP.v",
    # round 2: the planner
    "JoinStep_get_uuids": "Proofs/SrcTiePlanP.v",
    "JoinStepCollection_similar_dependent_joins_uuids": "Proofs/SrcTiePlanP.v",
    "JoinStepCollection_add": "Proofs/SrcTiePlanP.v",
    "ResolveComputeFrameworks_order_queue_by_trekker_order": "Proofs/SrcTieQueueP.v",
    "LinkTrekker_order_links_by_frameworks": "Proofs/SrcTieTrekP.v",
    "LinkTrekker_get_ordered_data": "Proofs/SrcTieTrekP.v",
    "LinkTrekker_order_ordered_ids_by_relation": "Proofs/SrcTieReorderP.v",
    "ExecutionPlan_validate_required_uuids_are_produced": "Proofs/SrcTieValidP.v",
    "ComputeFramework_identify_naming_convention": "Proofs/SrcTieNameP.v",
    # round 2: options
    **{t: "Proofs/SrcTieOptP.v" for t in ("Options_get", "Options_items", "OptionsValidator_validate_can_add_to_group",
                                          "Options_add_to_group", "Options_add", "Features_merge_options",
                                          "OptionsValidator_validate_can_add_to_context", "Options_add_to_context", "Options_set")},
    **{t: "Proofs/SrcTieUpdP.v" for t in ("OptionsValidator_validate_no_group_context_conflicts",
                                          "OptionsValidator_validate_no_context_group_conflicts",
                                          "Options_update_with_protected_keys")},
    # round 3
    "TransformFrameworkStep_eq": "Proofs/SrcTieTfsP.v", "TransformFrameworkStep_hash": "Proofs/SrcTieTfsP.v",
    "ExecutionPlan_add_single_filters_to_feature_set": "Proofs/SrcTieFilterP.v",
    "CfwManager_set_error": "Proofs/SrcTieWorkerP.v", "Worker_thread_worker": "Proofs/SrcTieWorkerP.v",
}
# lemma -> target, to name the first lemma coqc stopped at
LEMMA_TARGET = {
    "part_loop_src": "Index_is_a_part_of_", "index_is_a_part_of_src": "Index_is_a_part_of_",
    "index_is_multi_index_src": "Index_is_multi_index", "index_is_multi_index_len": "Index_is_multi_index",
    "link_matches_exact_src": "Link_matches_exact",
    "double_join_inner": "LinkValidator_validate_no_double_joins", "double_join_outer": "LinkValidator_validate_no_double_joins",
    "validate_no_double_joins_src": "LinkValidator_validate_no_double_joins",
    "conflicting_inner": "LinkValidator_validate_no_conflicting_join_types",
    "conflicting_outer": "LinkValidator_validate_no_conflicting_join_types",
    "validate_no_conflicting_join_types_src": "LinkValidator_validate_no_conflicting_join_types",
    "right_inner": "LinkValidator_validate_right_join_constraints", "right_outer": "LinkValidator_validate_right_join_constraints",
    "validate_right_join_constraints_src": "LinkValidator_validate_right_join_constraints",
    "is_step_done_src": "Orch_is_step_done", "no_intersection_disjoint": "Orch_can_run_step",
    "can_run_step_src": "Orch_can_run_step", "can_run_step_running_src": "Orch_can_run_step",
    "visit_uses_source_tests": "Orch_can_run_step",
    "types_strict_src": "DataTypeValidator_types_compatible", "types_strict_two_routes": "DataTypeValidator_types_compatible",
    "types_lenient_src": "DataTypeValidator_types_loosely_compatible",
    "types_lenient_two_routes": "DataTypeValidator_types_loosely_compatible",
    "split1_head": "FeatureGroup_get_column_base_feature", "column_base_feature_src": "FeatureGroup_get_column_base_feature",
    "split1_split_on": "FeatureGroup_get_column_base_feature", "column_base_src": "FeatureGroup_get_column_base_feature",
    "startswith_dunder": "FeatureChainParser_is_chained_feature", "is_chained_feature_src": "FeatureChainParser_is_chained_feature",
    "joinstep_get_uuids_src": "JoinStep_get_uuids",
    "similar_loop_src": "JoinStepCollection_similar_dependent_joins_uuids",
    "similar_dependent_joins_uuids_src": "JoinStepCollection_similar_dependent_joins_uuids",
    "joinstep_collection_add_src": "JoinStepCollection_add", "joinstep_collection_add_fresh": "JoinStepCollection_add",
    **{l: "ResolveComputeFrameworks_order_queue_by_trekker_order" for l in (
        "py_dd_add_iadd", "queue_loop2_src", "queue_loop5_src", "queue_loop4_src", "queue_loop3_src", "oq_step_unfold",
        "queue_loop1_src", "order_queue_by_trekker_order_src")},
    **{l: "LinkTrekker_order_links_by_frameworks" for l in (
        "order_add_src", "olbf_loop2_src", "olbf_loop1_src", "order_links_by_frameworks_src", "order_links_by_frameworks_model")},
    "get_ordered_data_src": "LinkTrekker_get_ordered_data", "get_ordered_data_model": "LinkTrekker_get_ordered_data",
    **{l: "LinkTrekker_order_ordered_ids_by_relation" for l in (
        "zpm_mem", "zpm_len", "zpm_getitem", "zpm_set", "reorder_loop2_src", "reorder_loop2_latest", "reorder_loop3_src",
        "reorder_loop1_src", "reorder_loop4_src", "zpm_keys", "order_ordered_ids_by_relation_src")},
    **{l: "ExecutionPlan_validate_required_uuids_are_produced" for l in (
        "produced_loop_src", "missing_empty", "missing_loop_src", "validate_required_uuids_are_produced_src",
        "validate_required_uuids_are_produced_model")},
    **{l: "ComputeFramework_identify_naming_convention" for l in (
        "py_startswith_starts_with", "owns_src", "py_sorted_str_sort_str", "in_py_set_of_list", "name_loop2_absorb", "name_loop2_src",
        "name_loop1_src", "name_loop4_src", "name_loop5_src", "name_loop3_src", "selected_src", "identify_naming_convention_src")},
    "options_get_src": "Options_get", "options_items_src": "Options_items",
    "validate_can_add_to_group_src": "OptionsValidator_validate_can_add_to_group",
    "options_add_to_group_src": "Options_add_to_group", "options_add_src": "Options_add",
    "validate_can_add_to_context_src": "OptionsValidator_validate_can_add_to_context",
    "options_add_to_context_src": "Options_add_to_context", "options_set_src": "Options_set",
    **{l: "Features_merge_options" for l in ("kmem_union1", "merge_loop2_src", "merge_loop1_src", "merge_conflict_ext",
                                             "merge_options_src", "merge_options_model")},
    "inter_nonempty": "OptionsValidator_validate_no_group_context_conflicts",
    "validate_no_group_context_conflicts_src": "OptionsValidator_validate_no_group_context_conflicts",
    "validate_no_context_group_conflicts_src": "OptionsValidator_validate_no_context_group_conflicts",
    **{l: "Options_update_with_protected_keys" for l in (
        "kmem_union_single", "update_loop1_src", "dict_del_filter", "update_loop2_src", "py_dict_update_dupdate",
        "update_loop3_src", "update_with_protected_keys_src", "merge_options_full")},
    # round 3
    **{l: "TransformFrameworkStep_eq" for l in ("tfs_eq_src", "tfs_eq_other_src", "tfs_eq_components", "tfs_collection_mem_src")},
    "tfs_hash_src": "TransformFrameworkStep_hash", "tfs_eq_iff_hash": "TransformFrameworkStep_hash",
    **{l: "ExecutionPlan_add_single_filters_to_feature_set" for l in (
        "filter_loop2_src", "filter_loop1_src", "add_single_filters_to_feature_set_src", "add_single_filters_to_feature_set_model")},
    "set_error_src": "CfwManager_set_error",
    **{l: "Worker_thread_worker" for l in ("thread_worker_src", "thread_worker_registers", "thread_worker_nonexception",
                                           "thread_worker_worker_done", "thread_worker_labels")},
}

TRUSTED = [
    "source-text tie: harness/py2coq.py translates the listed functions from the Python syntax tree (nothing is evaluated) into "
    "coq/Gen/Src.v; the meaning given to each Python construct is coq/Model/PySem.v (int=Z, set=list in iteration order, "
    "exception=Raise, loop=structural Fixpoint) and the class/enum data model in py2coq.CLASSES/ENUMS (Index = its tuple, "
    "Link = Model/LinkSel.link with == as link_eqb, a class = its number, DataType/JoinType = the Coq inductives); a wrong "
    "translation rule could make Gen/Src.v differ from the code while still equal to the model - the behavioural "
    "correspondence (T2) of the same functions bounds that",
]


def targets_of(prop: str) -> List[str]:
    return [t.name for t in py2coq.TARGETS if prop in t.checks()]


def _first_broken_lemma(log: str) -> Dict[str, str]:
    """proof file -> name of the lemma enclosing the first error coqc reported in it"""
    out: Dict[str, str] = {}
    for m in re.finditer(r'File "\./(Proofs/SrcTie\w+\.v)", line (\d+)', log):
        f, line = m.group(1), int(m.group(2))
        if f in out:
            continue
        try:
            lines = (vlib.COQ / f).read_text().splitlines()[:line]
        except OSError:
            continue
        for l in reversed(lines):
            mm = re.match(r"\s*(?:Lemma|Theorem)\s+([A-Za-z0-9_']+)", l)
            if mm:
                out[f] = mm.group(1)
                break
    return out


def check(rep: vlib.Reporter, prop: Optional[str] = None) -> bool:
    """True = every target tied to this check is translated and proved equal to its model on the current source text."""
    prop = prop or rep.prop
    t0 = time.time()
    from harness import gen_tables
    gen_tables.generate(["TypeTables"])          # Props/SrcTie.v also compares with the evaluated tables (T1)
    status = py2coq.generate()
    pr = vlib.build_props("SrcTie")
    rep.proof(pr)
    for t in TRUSTED:
        if t not in rep.coverage["trusted_base"]:
            rep.coverage["trusted_base"].append(t)
    mine = targets_of(prop)
    info: Dict[str, Any] = {"targets_of_this_check": mine, "all_targets": len(py2coq.TARGETS),
                            "translated": sum(1 for v in status.values() if v is None),
                            "failed_closed": {k: v for k, v in status.items() if v is not None},
                            "props_ok": pr.ok, "failed_files": pr.failed_files}
    ok = True
    if not pr.ok:
        broken = _first_broken_lemma(pr.log)
        gen_broken = {g for g in py2coq.gen_files() if f"Gen/{g}.v" in pr.failed_files}
        sem_broken = any(f in pr.failed_files for f in ("Model/PySem.v", "Model/PyObj.v", "Model/PyObjR3.v"))
        other = [f for f in pr.failed_files if not f.startswith(("Proofs/SrcTie", "Props/SrcTie", "Gen/Src"))]
        affected = []
        for t in mine:
            if status.get(t) is not None:
                affected.append((t, "translation-failed-closed", status[t]))
            elif sem_broken or py2coq.TARGET_BY_NAME[t].gen in gen_broken:
                affected.append((t, "generated-file-does-not-compile",
                                 f"coq/Gen/{py2coq.TARGET_BY_NAME[t].gen}.v is not accepted by coqc"))
            elif GROUP[t] in pr.failed_files:
                first = broken.get(GROUP[t])
                why = f"{GROUP[t]} no longer checks" + (f" (coqc stopped in lemma {first}, about {LEMMA_TARGET.get(first, '?')})"
                                                        if first else "")
                affected.append((t, "equivalence-proof-broken", why))
        if pr.forbidden or (other and not affected):
            rep.finding("srctie:build", "Props/SrcTie.v does not build for a reason outside the tie itself",
                        {"kind": "srctie", "failed_files": pr.failed_files, "forbidden": pr.forbidden,
                         "log_tail": pr.log[-2000:]}, found_input=False)
            ok = False
        with_input: Dict[str, bool] = {}
        explained: List[str] = []       # targets already reported: failed closed, not compiling, or with a differing input
        deferred: Dict[str, List[Tuple[str, str, str]]] = {}
        for t, kind, why in affected:
            wit = None
            try:
                wit = search(t, prop)
            except Exception as ex:  # noqa: BLE001
                why += f"; the search for a failing input itself failed: {type(ex).__name__}: {str(ex)[:200]}"
            tgt = py2coq.TARGET_BY_NAME[t]
            what = f"source tie {tgt.file} {tgt.cls + '.' if tgt.cls else ''}{tgt.fn} <-> {tgt.model}: {kind}: {why}"
            if wit is not None:
                rep.finding(f"srctie:{t}:{json.dumps(wit['input'], sort_keys=True)}",
                            what + f"; the real function and the model differ on {wit['input']}: real {wit['real']!r}",
                            {"kind": "srctie", "target": t, "tie": kind, "why": why, **wit})
                with_input[GROUP[t]] = True
                explained.append(t)
                ok = False
            elif kind != "equivalence-proof-broken":
                rep.finding(f"srctie:{t}:{kind}", what, {"kind": "srctie", "target": t, "tie": kind, "why": why},
                            found_input=False)
                explained.append(t)
                ok = False
            else:
                deferred.setdefault(GROUP[t], []).append((t, kind, what))
        # one proof file covers several targets of this check and coqc stops at its first broken lemma: when no target of the
        # file shows a differing input, the file is reported once, under the target that lemma is about
        for f, ts in deferred.items():
            culprit = LEMMA_TARGET.get(broken.get(f, ""), "")
            if with_input.get(f) or culprit in explained:
                continue        # the file stops compiling at a lemma about a target that is already reported
            t, kind, what = next((x for x in ts if x[0] == culprit), ts[0])
            rep.finding(f"srctie:{t}:{kind}", what, {"kind": "srctie", "target": t, "tie": kind, "log_tail": pr.log[-2000:]},
                        found_input=False)
            ok = False
        info["affected"] = [(t, k) for t, k, _ in affected]
    info["wall_s"] = round(time.time() - t0, 2)
    rep.add("srctie", info)
    return ok


# ----------------------------------------------------------------------------------------------------------------------
# search for a differing input: real function (imported from $VERIF_REPO) against the hand-written model (vm_compute)
# ----------------------------------------------------------------------------------------------------------------------
def _obs(f: Callable[[], Any]) -> Any:
    try:
        return f()
    except BaseException as ex:  # noqa: BLE001
        return "exc:" + type(ex).__name__


def _tuples(alpha: str, n: int) -> List[Tuple[str, ...]]:
    out: List[Tuple[str, ...]] = [()]
    for k in range(1, n + 1):
        out += list(itertools.product(alpha, repeat=k))
    return out


def _subsets(n: int) -> List[List[int]]:
    return [[i for i in range(n) if m >> i & 1] for m in range(1 << n)]


def _ob(x: Any) -> str:
    return f"(Some {cq_bool(x)})" if isinstance(x, bool) else "None"


def _cq_link(l: dict) -> str:
    return (f"{{| jt := {l['jt']}; lfg := {cq_nat(l['l'])}; rfg := {cq_nat(l['r'])}; "
            f"lidx := {cq_list(cq_str(x) for x in l['li'])}; ridx := {cq_list(cq_str(x) for x in l['ri'])} |}}")


OB = "Definition ob (a : option bool) (b : bool) := match a with Some x => Bool.eqb x b | None => false end.\n"


def _link_space() -> Tuple[List[type], List[dict]]:
    from harness import c18
    classes = c18.make_classes([None, None, 0], "st")
    cands = [{"jt": jt, "l": a, "r": b, "li": ["k"], "ri": ["k"]} for jt in ("INNER", "LEFT", "RIGHT", "OUTER", "APPEND", "UNION")
             for a in range(3) for b in range(3)]
    return classes, cands


def _space(target: str) -> Dict[str, Any]:
    """inputs, how to observe the real function, how to write a case, and the Coq checker (model vs observation)"""
    if target in ("Index_is_a_part_of_", "Index_is_multi_index"):
        from mloda.core.abstract_plugins.components.index.index import Index
        ts = _tuples("abc", 3)
        if target == "Index_is_a_part_of_":
            return {"inputs": [{"self": list(a), "other": list(b)} for a in ts for b in ts],
                    "real": lambda i: Index(tuple(i["self"])).is_a_part_of_(Index(tuple(i["other"]))),
                    "term": lambda i, o: f"(({cq_list(map(cq_str, i['self']))}, {cq_list(map(cq_str, i['other']))}), {_ob(o)})",
                    "type": "(list string * list string) * option bool", "req": ["MV.Model.LinkSel"],
                    "defs": OB + "Definition chk (c : (list string * list string) * option bool) := "
                                 "ob (snd c) (is_a_part_of (fst (fst c)) (snd (fst c)))."}
        return {"inputs": [{"self": list(a)} for a in ts],
                "real": lambda i: Index(tuple(i["self"])).is_multi_index(),
                "term": lambda i, o: f"({cq_list(map(cq_str, i['self']))}, {_ob(o)})",
                "type": "list string * option bool", "req": [],
                "defs": OB + "Definition chk (c : list string * option bool) := ob (snd c) (Nat.ltb 1 (List.length (fst c)))."}
    if target.startswith("LinkValidator_"):
        from mloda.core.abstract_plugins.components.validators.link_validator import LinkValidator
        from harness import c18
        classes, cands = _link_space()
        fn = target[len("LinkValidator_"):]
        pred = {"validate_no_double_joins": "double_join", "validate_no_conflicting_join_types": "conflicting_jt",
                "validate_right_join_constraints": "right_conflict"}[fn]
        sets = [[c] for c in cands] + [list(p) for p in itertools.combinations(cands, 2)]

        def real(i: dict) -> Any:
            try:
                getattr(LinkValidator, fn)({c18.real_link(classes, l) for l in i["links"]})
                return False
            except ValueError:
                return True
        return {"inputs": [{"links": s} for s in sets],
                "real": real,
                "term": lambda i, o: f"({cq_list(_cq_link(l) for l in i['links'])}, {_ob(o)})",
                "type": "list link * option bool", "req": ["MV.Model.LinkSel"],
                "defs": OB + f"Definition chk (c : list link * option bool) := ob (snd c) (any_pair {pred} (fst c))."}
    if target == "Link_matches_exact":
        from harness import c18
        classes, cands = _link_space()
        return {"inputs": [{"link": l, "lf": a, "rf": b} for l in cands[:9] for a in range(3) for b in range(3)],
                "real": lambda i: c18.real_link(classes, i["link"]).matches_exact(classes[i["lf"]], classes[i["rf"]]),
                "term": lambda i, o: f"(({_cq_link(i['link'])}, {cq_nat(i['lf'])}, {cq_nat(i['rf'])}), {_ob(o)})",
                "type": "(link * nat * nat) * option bool", "req": ["MV.Model.LinkSel"],
                "defs": OB + "Definition chk (c : (link * nat * nat) * option bool) := "
                             "match c with ((l, a, b), o) => ob o (matches_exact l a b) end."}
    if target in ("Orch_is_step_done", "Orch_can_run_step"):
        import types
        from uuid import UUID
        from mloda.core.runtime.run import ExecutionOrchestrator as EO

        def us(l: List[int]) -> set:
            return {UUID(int=k + 1) for k in l}
        nl = lambda l: cq_list(cq_nat(x) for x in l)  # noqa: E731
        if target == "Orch_is_step_done":
            ss = _subsets(4)
            return {"inputs": [{"step_uuids": a, "finished_ids": b} for a in ss for b in ss],
                    "real": lambda i: EO._is_step_done(None, us(i["step_uuids"]), us(i["finished_ids"])),  # type: ignore[arg-type]
                    "term": lambda i, o: f"(({nl(i['step_uuids'])}, {nl(i['finished_ids'])}), {_ob(o)})",
                    "type": "(list nat * list nat) * option bool", "req": ["MV.Model.Orch"],
                    "defs": OB + "Definition chk (c : (list nat * list nat) * option bool) := "
                                 "ob (snd c) (subset (fst (fst c)) (snd (fst c)))."}
        ss = _subsets(3)

        def real_crs(i: dict) -> Any:
            me = types.SimpleNamespace(_step_lock=threading.Lock())
            running = us(i["running"])
            r = EO._can_run_step(me, us(i["required"]), us(i["uuids"]), us(i["finished"]), running)  # type: ignore[arg-type]
            return [r, sorted(u.int - 1 for u in running)] if isinstance(r, bool) else None
        return {"inputs": [{"required": a, "uuids": b, "finished": c, "running": d} for a in ss for b in ss for c in ss for d in ss],
                "real": real_crs,
                "term": lambda i, o: (f"(({nl(i['required'])}, {nl(i['uuids'])}, {nl(i['finished'])}, {nl(i['running'])}), "
                                      + (f"Some ({cq_bool(o[0])}, {nl(o[1])})" if isinstance(o, list) else "None") + ")"),
                "type": "(list nat * list nat * list nat * list nat) * option (bool * list nat)", "req": ["MV.Model.Orch"],
                "defs": "Definition chk (c : (list nat * list nat * list nat * list nat) * option (bool * list nat)) := "
                        "match c with ((rq, u, f, r), Some (b, r')) => let m := subset rq f && disjoint u r in "
                        "Bool.eqb b m && (let e := if m then u ++ r else r in subset e r' && subset r' e) | _ => false end."}
    if target.startswith("DataTypeValidator_"):
        from mloda.core.abstract_plugins.components.validators.datatype_validator import DataTypeValidator as V
        from mloda.core.abstract_plugins.components.data_types import DataType
        names = py2coq.ENUMS["DataType"]["members"]
        attr, spec = (("_types_compatible", "strict_spec") if target.endswith("types_compatible") and "loosely" not in target
                      else ("_types_loosely_compatible", "lenient_spec"))
        return {"inputs": [{"declared": d, "actual": a} for d in names for a in names],
                "real": lambda i: getattr(V, attr)(DataType[i["declared"]], DataType[i["actual"]]),
                "term": lambda i, o: f"(({i['declared']}, {i['actual']}), {_ob(o)})",
                "type": "(dtype * dtype) * option bool", "req": ["MV.Spec.Types"],
                "defs": OB + f"Definition chk (c : (dtype * dtype) * option bool) := ob (snd c) ({spec} (fst (fst c)) (snd (fst c)))."}
    if target == "FeatureGroup_get_column_base_feature":
        from mloda.core.abstract_plugins.feature_group import FeatureGroup
        strs = ["".join(t) for t in _tuples("a~b", 4)]
        return {"inputs": [{"column_name": s} for s in strs],
                "real": lambda i: FeatureGroup.get_column_base_feature(i["column_name"]),
                "term": lambda i, o: f"({cq_str(i['column_name'])}, {'Some ' + cq_str(o) if isinstance(o, str) and not o.startswith('exc:') else 'None'})",
                "type": "string * option string", "req": ["MV.Model.Naming"],
                "defs": "Definition chk (c : string * option string) := match snd c with Some s => String.eqb s (base_feature (fst c)) "
                        "| None => false end."}
    if target == "FeatureChainParser_is_chained_feature":
        from mloda.core.abstract_plugins.components.feature_chainer.feature_chain_parser import FeatureChainParser
        strs = ["".join(t) for t in _tuples("a_", 6)]
        return {"inputs": [{"feature_name": s} for s in strs],
                "real": lambda i: FeatureChainParser.is_chained_feature(i["feature_name"]),
                "term": lambda i, o: f"({cq_str(i['feature_name'])}, {_ob(o)})",
                "type": "string * option bool", "req": ["MV.Model.ChainParser"],
                "defs": OB + "Definition chk (c : string * option bool) := ob (snd c) (has_dunder (list_ascii_of_string (fst c)))."}
    if target == "ComputeFramework_identify_naming_convention":
        from mloda.core.abstract_plugins.compute_framework import ComputeFramework
        from mloda.core.abstract_plugins.components.feature_name import FeatureName
        names, colpool = ["a", "b", "ab"], ["a", "a~1", "a~2", "b", "ab", "b~z", "c"]
        fsets = [[n for j, n in enumerate(names) if m >> j & 1] for m in range(8)]
        csets = [list(c) for k in range(4) for c in itertools.combinations(colpool, k)]

        def real_inc(i: dict) -> Any:
            sel = {FeatureName(n) for n in i["names"]}
            i["iter"] = [f.name for f in sel]          # the order in which THIS set object is iterated (the model's parameter)
            r = ComputeFramework.identify_naming_convention(None, sel, set(i["cols"]), i["ordering"])  # type: ignore[arg-type]
            return ["S", sorted(r)] if isinstance(r, set) else ["L", list(r)]
        sl = lambda l: cq_list(cq_str(x) for x in l)  # noqa: E731
        oterm = {None: "ONone", "alphabetical": "OAlpha", "request_order": "ORequest", "bogus": "OInvalid"}
        ty = "(list string * list string * ordering) * option (bool * list string)"
        return {"inputs": [{"names": f, "cols": c, "ordering": o} for f in fsets for c in csets for o in (None, "alphabetical", "request_order", "bogus")],
                "real": real_inc,
                "term": lambda i, o: (f"(({sl(i.get('iter', i['names']))}, {sl(i['cols'])}, {oterm[i['ordering']]}), "
                                      + (f"Some ({cq_bool(o[0] == 'S')}, {sl(o[1])})" if isinstance(o, list) else "None") + ")"),
                "type": ty, "req": ["MV.Model.Naming"],
                # a set is compared as a set (the observation is sorted), a list exactly; an exception with RErr
                "defs": "Definition seteq (a b : list string) := forallb (fun x => mem_str x b) a && forallb (fun x => mem_str x a) b.\n"
                        f"Definition chk (c : {ty}) := match c with ((it, cols, o), obs) => match identify it cols o, obs with "
                        "| RErr, None => true | RSet l, Some (true, l') => seteq l l' && Nat.eqb (List.length l) (List.length l') "
                        "| RList l, Some (false, l') => if list_eq_dec string_dec l l' then true else false | _, _ => false end end."}
    if py2coq.TARGET_BY_NAME[target].gen in ("SrcTfs", "SrcFilter", "SrcWorker"):
        return _space_r3(target)
    if py2coq.TARGET_BY_NAME[target].gen == "SrcPlan":
        return _space_plan(target)
    if py2coq.TARGET_BY_NAME[target].gen == "SrcOpt":
        return _space_opt(target)
    raise KeyError(target)


# ---------------------------------------------------------------------------------------------------------------------
# round 3: the identity of transform steps, the filters attached to a feature set, the THREADING worker.  The real functions
# run on real objects where their constructors allow it and on stub objects that hold exactly the attributes the function
# touches otherwise (the step / the register of the worker, the ExecutionPlan around add_single_filters_to_feature_set)
# ---------------------------------------------------------------------------------------------------------------------
_FGS: List[type] = []


def _fgs() -> List[type]:
    if not _FGS:
        _FGS.extend(type(f"SrcTieGroup{i}", (), {}) for i in range(3))
    return _FGS


def _space_r3(target: str) -> Dict[str, Any]:
    import types
    if target in ("TransformFrameworkStep_eq", "TransformFrameworkStep_hash"):
        from mloda.core.core.step.transform_frame_work_step import TransformFrameworkStep as TFS
        keys = [{"from_fw": a, "to_fw": b, "from_fg": c, "to_fg": d} for a in range(2) for b in range(2) for c in range(2) for d in range(2)]

        def mk(k: Dict[str, int]) -> Any:
            o = TFS.__new__(TFS)        # __eq__ / __hash__ read these four attributes only
            o.from_framework, o.to_framework = _cfws()[k["from_fw"]], _cfws()[k["to_fw"]]
            o.from_feature_group, o.to_feature_group = _fgs()[k["from_fg"]], _fgs()[k["to_fg"]]
            return o
        cq_key = lambda k: f"({cq_nat(k['from_fw'])}, {cq_nat(k['to_fw'])}, {cq_nat(k['from_fg'])}, {cq_nat(k['to_fg'])})"  # noqa: E731
        ty = "(PlannerB.tkey * option PlannerB.tkey) * option bool"
        if target == "TransformFrameworkStep_eq":
            inputs = [{"self": a, "other": b} for a in keys for b in keys] + [{"self": a, "other": None} for a in keys]
            real = lambda i: mk(i["self"]).__eq__(mk(i["other"]) if i["other"] is not None else "not a step")  # noqa: E731
        else:       # the hash is observed through the only thing a set / dict does with it: are two hashes equal
            inputs = [{"self": a, "other": b} for a in keys for b in keys]
            real = lambda i: hash(mk(i["self"])) == hash(mk(i["other"]))  # noqa: E731
        return {"inputs": inputs, "real": real,
                "term": lambda i, o: (f"(({cq_key(i['self'])}, {'Some ' + cq_key(i['other']) if i['other'] is not None else 'None'}), "
                                      f"{_ob(o)})"),
                "type": ty, "req": ["MV.Model.PlannerB"],
                "defs": OB + f"Definition chk (c : {ty}) := match snd (fst c) with Some b => ob (snd c) (PlannerB.tkey_eqb (fst (fst c)) b) "
                             "| None => ob (snd c) false end."}
    if target == "ExecutionPlan_add_single_filters_to_feature_set":
        from mloda.core.prepare.execution_plan import ExecutionPlan
        from mloda.core.abstract_plugins.components.feature_set import FeatureSet
        from mloda.core.abstract_plugins.components.feature import Feature
        from mloda.core.abstract_plugins.components.feature_name import FeatureName
        feats = [["a", True], ["a", False], ["b", True], ["b", False]]
        fsets = [[f] for f in feats] + [[f, g] for f in feats for g in feats if f[0] < g[0]]
        ents = [[g, n, fl] for g in range(2) for n in ("a", "b") for fl in ([1], [2], [1, 2])]
        colls: List[Any] = [None, []] + [[e] for e in ents] + \
            [[e, f] for e in ents for f in ents if (e[0], e[1]) < (f[0], f[1]) and e[0] == 0]

        def real_attach(i: dict) -> Any:
            ep = ExecutionPlan.__new__(ExecutionPlan)      # the method reads self.global_filter only
            ep.global_filter = None if i["collection"] is None else types.SimpleNamespace(
                collection={(_fgs()[g], FeatureName(n)): set(fl) for g, n, fl in i["collection"]})
            fs = FeatureSet()
            for n, init in i["features"]:
                fs.add(Feature(n, initial_requested_data=init))
            ep.add_single_filters_to_feature_set(_fgs()[i["group"]], fs)
            return None if fs.filters is None else sorted(fs.filters)
        cq_coll = lambda c: cq_list(f"(({cq_nat(g)}, {cq_str(n)}), {_nl(fl)})" for g, n, fl in c)  # noqa: E731
        ty = "(option (list ((nat * string) * list nat)) * nat * list string) * option (option (list nat))"
        return {"inputs": [{"collection": c, "group": 0, "features": f} for c in colls for f in fsets],
                "real": real_attach,
                "term": lambda i, o: (f"(({'None' if i['collection'] is None else 'Some ' + cq_coll(i['collection'])}, {cq_nat(i['group'])}, "
                                      f"{cq_list(cq_str(n) for n, _ in i['features'])}), "
                                      + ("None" if isinstance(o, str) else "Some None" if o is None else f"Some (Some {_nl(o)})") + ")"),
                "type": ty, "req": ["MV.Model.FilterAttach"],
                # observation: None = the call raised, Some None = filters left unset, Some (Some s) = filters set to s
                "defs": f"Definition chk (c : {ty}) := match c with ((gf, fg, names), obs) => "
                        "match gf with None | Some [] => match obs with Some None => true | _ => false end "
                        "| Some cl => match FilterAttach.attach cl fg names, obs with "
                        "| None, None => true | Some s, Some (Some s') => FilterAttach.set_eqb s s' | _, _ => false end end end."}
    if target in ("Worker_thread_worker", "CfwManager_set_error"):
        from mloda.core.core.cfw_manager import CfwManager

        def register(err: bool) -> Any:
            r = types.SimpleNamespace(error=err, msg=None, exc_info=None)       # the three attributes set_error writes
            r.set_error = types.MethodType(CfwManager.set_error, r)             # the REAL set_error, on the stub
            return r
        if target == "CfwManager_set_error":
            def real_se(i: dict) -> Any:
                r = register(i["error"])
                r.set_error("m", "x")
                return bool(r.error)
            return {"inputs": [{"error": False}, {"error": True}], "real": real_se,
                    "term": lambda i, o: f"({cq_bool(i['error'])}, {_ob(o)})", "type": "bool * option bool", "req": [],
                    "defs": OB + "Definition chk (c : bool * option bool) := ob (snd c) true."}
        from mloda.core.runtime.worker.thread_worker import thread_worker
        outcomes = {"completes": None, "raises ValueError": ValueError, "raises Exception": Exception, "raises KeyboardInterrupt": KeyboardInterrupt}

        def real_tw(i: dict) -> Any:
            exc = outcomes[i["execute"]]

            class Step:
                step_is_done = i["step_is_done"]

                def execute(self, cfw_register: Any, cfw: Any, from_cfw: Any = None) -> None:
                    if exc is not None:
                        raise exc("boom")
            cmd, reg = Step(), register(i["error"])
            try:
                thread_worker(cmd, reg, object(), object())
                out = "returns"
            except BaseException as ex:  # noqa: BLE001
                out = "raises " + type(ex).__name__
            return [out, bool(cmd.step_is_done), bool(reg.error)]
        ty = "(bool * bool * bool * bool) * option (bool * bool * bool)"
        return {"inputs": [{"execute": e, "step_is_done": d, "error": r} for e in outcomes for d in (False, True) for r in (False, True)],
                "real": real_tw, "prefer": lambda i: (i["step_is_done"], i["error"]),      # both registers clear at the start
                "term": lambda i, o: (f"(({cq_bool(i['execute'] != 'completes')}, {cq_bool(i['execute'] == 'raises KeyboardInterrupt')}, "
                                      f"{cq_bool(i['step_is_done'])}, {cq_bool(i['error'])}), "
                                      + (f"Some ({cq_bool(o[0] == 'returns')}, {cq_bool(o[1])}, {cq_bool(o[2])})" if isinstance(o, list) else "None") + ")"),
                "type": ty, "req": ["MV.Model.Orch"],
                # the model: Orch.worker_done for a step 0 that was started and has not reported (EDone 0 ok); a register that
                # was already set stays set; an exception that is not an Exception writes no register and propagates
                "defs": "Definition st0 : Orch.ost := {| Orch.finished := []; Orch.running := [0]; Orch.started := [(0, ([], []))]; "
                        "Orch.done := []; Orch.failed := []; Orch.results := []; Orch.yielded := []; Orch.scans := 0 |}.\n"
                        f"Definition chk (c : {ty}) := match c with ((raises, nonexc, d0, e0), Some (ret, d, e)) => "
                        "let st := Orch.worker_done st0 0 (negb raises) in "
                        "Bool.eqb ret (negb raises) && (if nonexc then Bool.eqb d d0 && Bool.eqb e e0 else "
                        "Bool.eqb d (d0 || Orch.mem 0 (Orch.done st)) && Bool.eqb e (e0 || Orch.mem 0 (Orch.failed st))) "
                        "| _ => false end."}
    raise KeyError(target)


# ---------------------------------------------------------------------------------------------------------------------
# the option targets (round 2): small exhaustive spaces of Options objects; values and states are written and observed with
# the printers of harness/c15.py and judged by its checker chk_ops over Model/Options.v (o_init, o_step, o_trace)
# ---------------------------------------------------------------------------------------------------------------------
def _space_opt(target: str) -> Dict[str, Any]:
    from harness import c15
    CH = ["K", "feature_chainer_parser_key"]

    def opts(*pairs: Any) -> List[List[Any]]:
        return [[k, v] for k, v in pairs if v != "absent"]
    if target == "Features_merge_options":
        parents = [{"g": opts(("a", a), ("b", b), (CH, ch)), "c": opts(("c", c)), "p": []}
                   for a in ("absent", 1, 2) for b in ("absent", 1) for ch in ("absent", ["L", ["a"]], "a", 5, ["L", []])
                   for c in ("absent", 1)]
        children = [{"g": opts(("a", a), ("b", b), (CH, ch)), "c": opts(("c", c)), "p": p}
                    for a in ("absent", 1, 2, True) for b in ("absent", 2) for ch in ("absent", ["L", ["a"]], ["L", ["b"]])
                    for c, p in (("absent", []), (2, []), (2, ["c"]))]
        cases = [{"init": pa, "ops": [{"op": "merge", "other": ch}]} for pa in parents for ch in children]
    elif target == "Options_update_with_protected_keys":
        selfs = [{"g": opts(("a", a), (CH, ch)), "c": opts(("c", c), ("b", b)), "p": []}
                 for a in ("absent", 1) for ch in ("absent", ["L", ["a"]], ["S", ["a", "b"]], 5, "ab")
                 for c in ("absent", 1) for b in ("absent", 7)]
        others = [{"g": opts(("a", a), ("b", b), ("in_features", i)), "c": opts(("c", c), ("d", d)), "p": p}
                  for a in ("absent", 2) for b in ("absent", 3) for i in ("absent", "x")
                  for c, d, p in (("absent", "absent", []), (2, "absent", ["c"]), (1, 4, ["c", "d"]), (2, 4, ["d"]))]
        prots = [None, [], ["a"], ["b", "c"]]
        cases = [{"init": si, "ops": [{"op": "update", "other": o, "prot": pr}]} for si in selfs for o in others for pr in prots]
    elif target in ("OptionsValidator_validate_no_group_context_conflicts", "OptionsValidator_validate_no_context_group_conflicts"):
        from mloda.core.abstract_plugins.components.validators.options_validator import OptionsValidator
        fn = target[len("OptionsValidator_"):]
        pool = ["a", "b", 1, True]
        sets = [[pool[j] for j in range(4) if m >> j & 1 and not (j == 3 and m >> 2 & 1)] for m in range(16)]

        def real_conf(i: dict) -> Any:
            try:
                getattr(OptionsValidator, fn)({c15.to_py(k) for k in i["a"]}, {c15.to_py(k) for k in i["b"]})
                return False
            except ValueError:
                return True
        ty = "(list pykey * list pykey) * option bool"
        return {"inputs": [{"a": a, "b": b} for a in sets for b in sets], "real": real_conf,
                "term": lambda i, o: (f"(({cq_list(c15.key_term(c15.to_py(k)) for k in i['a'])}, "
                                      f"{cq_list(c15.key_term(c15.to_py(k)) for k in i['b'])}), {_ob(o)})"),
                "type": ty, "req": c15.REQ,
                "defs": OB + f"Definition chk (c : {ty}) := ob (snd c) (existsb (fun k => kmem k (snd (fst c))) (fst (fst c)))."}
    elif target in ("Options_add", "Options_add_to_group", "OptionsValidator_validate_can_add_to_group", "Options_add_to_context",
                    "OptionsValidator_validate_can_add_to_context", "Options_set"):
        op = {"Options_add": "add", "Options_add_to_context": "add_context", "OptionsValidator_validate_can_add_to_context": "add_context",
              "Options_set": "set"}.get(target, "add_group")
        inits = [{"g": opts(("a", a), ("b", b)), "c": opts(("c", c)), "p": []}
                 for a in ("absent", 1, 2, ["L", [1]]) for b in ("absent", True) for c in ("absent", 1)]
        cases = [{"init": i, "ops": [{"op": op, "k": k, "v": v}]} for i in inits for k in ("a", "b", "c", 1)
                 for v in (1, 2, True, ["L", [1]], None)]
    elif target in ("Options_get", "Options_items"):
        inits = [{"g": opts(("a", a), (1, b)), "c": opts(("c", c), (True, d) if b == "absent" else ("x", "absent")), "p": []}
                 for a in ("absent", 1, None) for b in ("absent", 2) for c in ("absent", 3) for d in ("absent", 4)]
        keys = ["a", "c", 1, True, "zz", None]
        if target == "Options_get":
            ty = "(ini_t * pykey) * option pyval"
            return {"inputs": [{"init": i, "key": k} for i in inits for k in keys],
                    "real": lambda i: c15.val_term(c15.build_options(i["init"]).get(c15.to_py(i["key"]))),
                    "term": lambda i, o: (f"(({c15.init_term(i['init'])}, {c15.key_term(c15.to_py(i['key']))}), "
                                          + ("None" if o.startswith("exc:") else f"Some {o}") + ")"),
                    "type": ty, "req": c15.REQ,
                    "defs": c15.EXTRA_OPS + f"Definition chk (c : {ty}) := match snd c with Some v => "
                            "val_same (o_get (snd (fst c)) (mk_other (fst (fst c)))) v | None => false end."}
        ty = "ini_t * option (list (pykey * pyval))"
        return {"inputs": [{"init": i} for i in inits],
                "real": lambda i: c15.pairs_term(c15.build_options(i["init"]).items()),
                "term": lambda i, o: f"({c15.init_term(i['init'])}, " + ("None" if o.startswith("exc:") else f"Some {o}") + ")",
                "type": ty, "req": c15.REQ,
                "defs": c15.EXTRA_OPS + f"Definition chk (c : {ty}) := match snd c with Some l => "
                        "dict_same (o_items (mk_other (fst c))) l | None => false end."}
    else:
        raise KeyError(target)
    if target in ("OptionsValidator_validate_can_add_to_group", "OptionsValidator_validate_can_add_to_context"):
        from mloda.core.abstract_plugins.components.validators.options_validator import OptionsValidator
        vfn = getattr(OptionsValidator, target[len("OptionsValidator_"):])
        mfn = "o_add_group" if target.endswith("group") else "o_add_context"

        def real_val(i: dict) -> Any:
            o = c15.build_options(i["init"])
            try:
                vfn(c15.to_py(i["ops"][0]["k"]), c15.to_py(i["ops"][0]["v"]), o.group, o.context)
                return 0
            except Exception as ex:  # noqa: BLE001
                return c15.err_code(ex)
        ty = "(ini_t * pykey * pyval) * option (option oerr)"
        return {"inputs": cases, "real": real_val,
                "term": lambda i, o: (f"(({c15.init_term(i['init'])}, {c15.key_term(c15.to_py(i['ops'][0]['k']))}, "
                                      f"{c15.val_term(c15.to_py(i['ops'][0]['v']))}), {c15.err_term(o if isinstance(o, int) else 3)})"),
                "type": ty, "req": c15.REQ,
                "defs": c15.EXTRA_OPS + f"Definition chk (c : {ty}) := match c with ((i, k, v), o) => "
                        f"err_same (snd ({mfn} k v (mk_other i))) o end."}

    def real_seq(i: dict) -> Any:
        obs = c15.run_sequence(i)
        return {"init_err": obs["init_err"], "errs": obs["errs"], "steps": obs["steps"]}
    return {"inputs": cases, "real": real_seq,
            "term": lambda i, o: c15.seq_term(i, o) if isinstance(o, dict) else c15.seq_term(i, {"init_err": 3, "steps": []}),
            "type": "case_t", "req": c15.REQ, "defs": c15.EXTRA_OPS + "Definition chk := chk_ops."}


# ---------------------------------------------------------------------------------------------------------------------
# the planner targets (round 2): small exhaustive spaces of collections / queues / trekker tables; uuid k <-> UUID(int=k+1)
# ---------------------------------------------------------------------------------------------------------------------
_CFW: List[type] = []


def _cfws() -> List[type]:
    if not _CFW:
        _CFW.extend(type(f"SrcTieCfw{i}", (), {}) for i in range(4))
    return _CFW


def _uu(k: int) -> Any:
    from uuid import UUID
    return UUID(int=k + 1)


def _real_plink(uid: int) -> Any:
    """a real Link whose uuid is uid (Links of different uid are different under Link.__eq__ as well)"""
    from harness import c18
    classes = c18.make_classes([None] * 6, "stp")
    a, b = divmod(uid // 4, 5)
    l = c18.real_link(classes, {"jt": "INNER", "l": a % 6, "r": (a + 1 + b) % 6, "li": ["k"], "ri": ["k"]})
    l.uuid = _uu(uid)
    return l


def _real_joinstep(js: List[int]) -> Any:
    from mloda.core.core.step.join_step import JoinStep
    uid, lf, rf = js
    o = JoinStep(_real_plink(uid), _cfws()[lf], _cfws()[rf], set(), set(), set())
    o.uuid = _uu(uid + 1)           # the numbering convention of Model/PlannerL.v: js_uid u = u + 1
    return o


def _nl(l: Any) -> str:
    return cq_list(cq_nat(x) for x in l)


def _cq_js(js: List[int]) -> str:
    return f"({cq_nat(js[0])}, ({cq_nat(js[1])}, {cq_nat(js[2])}))"


def _collections() -> List[List[List[int]]]:
    pairs = [(a, b) for a in range(3) for b in range(3)]
    one = [[[0, a, b]] for a, b in pairs]
    two = [[[0, a, b], [4, c, d]] for a, b in pairs for c, d in pairs]
    ring = [(0, 1), (1, 2), (2, 0)]
    three = [[[0, a, b], [4, c, d], [8, e, f]] for a, b in ring for c, d in ring for e, f in ring]
    return [[]] + one + two + three


def _ints(us: Any) -> Any:
    return sorted(u.int - 1 for u in us) if isinstance(us, (set, frozenset)) else None


def _space_plan(target: str) -> Dict[str, Any]:
    SOME = "Definition osome (a : option (list nat)) (b : list nat) := match a with Some x => PlannerL.sets_eqb x b | None => false end.\n"
    if target == "JoinStep_get_uuids":
        return {"inputs": [{"join_step": [u, a, b]} for u in (0, 4, 8) for a in range(2) for b in range(2)],
                "real": lambda i: _ints(_real_joinstep(i["join_step"]).get_uuids()),
                "term": lambda i, o: f"({_cq_js(i['join_step'])}, {'Some ' + _nl(o) if isinstance(o, list) else 'None'})",
                "type": "(nat * (nat * nat)) * option (list nat)", "req": ["MV.Model.PlannerL"],
                "defs": SOME + "Definition chk (c : (nat * (nat * nat)) * option (list nat)) := "
                               "osome (snd c) [PlannerL.js_uid (fst (fst c)); fst (fst c)]."}
    if target in ("JoinStepCollection_similar_dependent_joins_uuids", "JoinStepCollection_add"):
        from mloda.core.prepare.joinstep_collection import JoinStepCollection

        def coll(steps: List[List[int]]) -> Any:
            c = JoinStepCollection()
            for k, js in enumerate(steps):
                c.collection[_real_joinstep(js)] = {_uu(100 + k)}
            return c
        if target.endswith("_uuids"):
            return {"inputs": [{"collection": c, "left_framework": a, "right_framework": b}
                               for c in _collections() for a in range(3) for b in range(3)],
                    "real": lambda i: _ints(coll(i["collection"]).similar_dependent_joins_uuids(
                        _cfws()[i["left_framework"]], _cfws()[i["right_framework"]])),
                    "term": lambda i, o: (f"(({cq_list(_cq_js(j) for j in i['collection'])}, {cq_nat(i['left_framework'])}, "
                                          f"{cq_nat(i['right_framework'])}), {'Some ' + _nl(o) if isinstance(o, list) else 'None'})"),
                    "type": "(list (nat * (nat * nat)) * nat * nat) * option (list nat)", "req": ["MV.Model.PlannerL"],
                    "defs": SOME + "Definition chk (c : (list (nat * (nat * nat)) * nat * nat) * option (list nat)) := "
                                   "match c with ((jc, lf, rf), o) => osome o (PlannerL.jc_required jc lf rf) end."}

        def real_add(i: dict) -> Any:
            c = coll(i["collection"])
            c.add(_real_joinstep(i["join_step"]))
            return [[k.link.uuid.int - 1, k.left_framework.__name__[-1], k.right_framework.__name__[-1], _ints(v)]
                    for k, v in c.collection.items()]
        cols = [c for c in _collections() if len(c) <= 2]
        return {"inputs": [{"collection": c, "join_step": [12, a, b]} for c in cols for a in range(3) for b in range(3)],
                "real": real_add,
                "term": lambda i, o: (f"(({cq_list(_cq_js(j) for j in i['collection'])}, {_cq_js(i['join_step'])}), "
                                      + (cq_list(f"(({cq_nat(e[0])}, ({e[1]}, {e[2]})), {_nl(e[3])})" for e in o)
                                         if isinstance(o, list) else "[]") + ")"),
                "type": "(list (nat * (nat * nat)) * (nat * (nat * nat))) * list ((nat * (nat * nat)) * list nat)",
                "req": ["MV.Model.PlannerL"],
                # the values of the entries that were there are the markers 100 + position; the new entry is jc_required of the keys
                "defs": "Definition chk (c : (list (nat * (nat * nat)) * (nat * (nat * nat))) * list ((nat * (nat * nat)) * list nat)) := "
                        "match c with ((jc, js), o) => "
                        "PlannerL.list_eqb_by (fun a b => Nat.eqb (fst a) (fst b) && Nat.eqb (fst (snd a)) (fst (snd b)) "
                        "&& Nat.eqb (snd (snd a)) (snd (snd b))) (map fst o) (jc ++ [js]) "
                        "&& PlannerL.list_eqb_by PlannerL.sets_eqb (map snd o) "
                        "(map (fun k => [100 + k]) (seq 0 (List.length jc)) ++ [PlannerL.jc_required jc (fst (snd js)) (snd (snd js))]) end."}
    if target == "ResolveComputeFrameworks_order_queue_by_trekker_order":
        import types
        from collections import OrderedDict
        from mloda.core.prepare.resolve_compute_frameworks import ResolveComputeFrameworks as RCF
        uids = (0, 4, 8)
        links = {u: _real_plink(u) for u in uids}
        fw = {0: (0, 1), 4: (1, 2), 8: (2, 0)}
        groups = _cfws()        # any class that is not a Link stands for a feature group class

        def item(x: List[Any]) -> Any:
            if x[0] == "L":
                return (links[x[1]], _cfws()[x[2]], _cfws()[x[3]])
            return (groups[x[1]], frozenset())

        def back(p: Any) -> Any:
            if isinstance(p, tuple) and len(p) == 3 and getattr(p[0], "uuid", None) is not None:
                return ["L", p[0].uuid.int - 1, _cfws().index(p[1]), _cfws().index(p[2])]
            if isinstance(p, tuple) and len(p) == 2 and p[0] in groups:
                return ["G", groups.index(p[0])]
            raise ValueError("not a queue item")

        def real_oq(i: dict) -> Any:
            lt = types.SimpleNamespace(order=OrderedDict((_uu(k), {_uu(x) for x in v}) for k, v in i["orders"]))
            me = RCF.__new__(RCF)
            return [back(p) for p in me.order_queue_by_trekker_order([item(x) for x in i["queue"]], lt)]
        L = lambda u: ["L", u, fw[u][0], fw[u][1]]  # noqa: E731
        queues = []
        for n in (1, 2, 3):
            for perm in itertools.permutations(uids, n):
                queues.append([L(u) for u in perm])
                if n == 3:
                    queues.append([L(perm[0]), ["G", 0], L(perm[1]), L(perm[2])])
        orders: List[List[Any]] = [[]]
        for n in (1, 2, 3):
            for ks in itertools.permutations(uids, n):
                choices = []
                for k in ks:
                    others = [u for u in uids if u != k]
                    choices.append([[others[0]], [others[1]], others] if n < 3 else [[others[0]], [others[1]], others])
                for vs in itertools.product(*choices):
                    orders.append([[k, list(v)] for k, v in zip(ks, vs)])

        def cq_item(x: List[Any]) -> str:
            return f"PlannerL.PL ({cq_nat(x[1])}, ({cq_nat(x[2])}, {cq_nat(x[3])}))" if x[0] == "L" else f"PlannerL.PG {cq_nat(x[1])} []"
        ty = "(list PlannerL.pitem * PlannerA.amap) * option (list PlannerL.pitem)"
        return {"inputs": [{"queue": q, "orders": o} for q in queues for o in orders],
                "real": real_oq,
                "term": lambda i, o: (f"(({cq_list(cq_item(x) for x in i['queue'])}, "
                                      f"{cq_list(f'({cq_nat(k)}, {_nl(v)})' for k, v in i['orders'])}), "
                                      + (f"Some {cq_list(cq_item(x) for x in o)}" if isinstance(o, list) else "None") + ")"),
                "type": ty, "req": ["MV.Model.PlannerL"],
                # the postponed links of one key are iterated in hash order: the model has to agree under SOME oracle (two
                # links at most wait under one key here: the identity and the reversal are all the orders there are)
                "defs": f"Definition chk (c : {ty}) := match c with ((pq, orders), Some o) => "
                        "existsb (fun od => PlannerL.list_eqb_by PlannerL.pitem_eqb (PlannerL.order_queue od orders pq) o) "
                        "[PlannerA.ord_id; (fun _ l => rev l)] | _ => false end."}
    if target == "ExecutionPlan_validate_required_uuids_are_produced":
        import types
        from mloda.core.prepare.execution_plan import ExecutionPlan
        subs = _subsets(3)

        def real_val(i: dict) -> Any:
            ep = ExecutionPlan.__new__(ExecutionPlan)
            ep.execution_plan = [types.SimpleNamespace(get_uuids=(lambda u=u: {_uu(x) for x in u}), required_uuids={_uu(x) for x in r})
                                 for u, r in i["plan"]]
            ep._validate_steps_do_not_wait_in_a_cycle = lambda: None        # the callee is a parameter of the tie
            try:
                ep._validate_required_uuids_are_produced()
                return True
            except ValueError:
                return False
        one = [[[u], r] for u in range(3) for r in subs]
        few = [[[u], r] for u in range(3) for r in ([], [0], [1, 2], [2])]
        plans = [[]] + [[a] for a in one] + [[a, b] for a in one for b in one] + [[a, b, c] for a in few for b in few for c in few]
        step = lambda k, s: (f"{{| Orch.sid := {cq_nat(k)}; Orch.skind := Orch.KFG; Orch.uuids := {_nl(s[0])}; "  # noqa: E731
                             f"Orch.req := {_nl(s[1])}; Orch.requested := false |}}")
        return {"inputs": [{"plan": p} for p in plans], "real": real_val,
                "term": lambda i, o: f"({cq_list(step(k, s) for k, s in enumerate(i['plan']))}, {_ob(o)})",
                "type": "list Orch.step * option bool", "req": ["MV.Model.PlannerA"],
                "defs": OB + "Definition chk (c : list Orch.step * option bool) := ob (snd c) (PlannerA.validate_A (fst c))."}
    if target.startswith("LinkTrekker_"):
        from collections import OrderedDict
        from mloda.core.prepare.resolve_links import LinkTrekker
        uids = (0, 4, 8)
        links = {u: _real_plink(u) for u in (0, 4, 8, 12)}

        def trekker(data: List[Any], order: List[Any]) -> Any:
            lt = LinkTrekker()
            for (u, l, r), kids in data:
                lt.data[(links[u], _cfws()[l], _cfws()[r])] = {_uu(x) for x in kids}
            lt.order = OrderedDict((_uu(k), {_uu(x) for x in v}) for k, v in order)
            return lt

        def obs_order(lt: Any) -> Any:
            return [[k.int - 1, _ints(v)] for k, v in lt.order.items()]

        def obs_table(d: Any) -> Any:
            return [[[k[0].uuid.int - 1, _cfws().index(k[1]), _cfws().index(k[2])], _ints(v)] for k, v in d.items()]
        cq_key = lambda k: f"({cq_nat(k[0])}, ({cq_nat(k[1])}, {cq_nat(k[2])}))"  # noqa: E731
        cq_amap = lambda m: cq_list(f"({cq_nat(k)}, {_nl(v)})" for k, v in m)  # noqa: E731
        cq_tdata = lambda d: cq_list(f"({cq_key(k)}, {_nl(v)})" for k, v in d)  # noqa: E731
        if target == "LinkTrekker_order_ordered_ids_by_relation":
            subsets = [[u for j, u in enumerate(uids) if msk >> j & 1] for msk in range(1, 8)]
            orders: List[List[Any]] = []
            for n in (1, 2, 3):
                for ks in itertools.permutations(uids, n):
                    for vs in itertools.product(subsets, repeat=n):
                        orders.append([[k, v] for k, v in zip(ks, vs)])
            four = (0, 4, 8, 12)
            for ks in itertools.permutations(four):
                for vs in itertools.product(*[[[x] for x in four if x != k] for k in ks]):
                    orders.append([[k, v] for k, v in zip(ks, vs)])

            def real_reorder(i: dict) -> Any:
                lt = trekker([], i["order"])
                lt.order_ordered_ids_by_relation()
                return obs_order(lt)
            ty = "PlannerA.amap * option PlannerA.amap"
            return {"inputs": [{"order": o} for o in orders], "real": real_reorder,
                    "term": lambda i, o: f"({cq_amap(i['order'])}, {'Some ' + cq_amap(o) if isinstance(o, list) else 'None'})",
                    "type": ty, "req": ["MV.Model.PlannerL"],
                    "defs": f"Definition chk (c : {ty}) := match snd c with Some o => "
                            "PlannerL.amap_exact_eqb (PlannerL.reorder_rel (fst c)) o | None => false end."}
        pairs = [(0, 1), (1, 2), (2, 3), (1, 0), (2, 1)]
        keys = [[u, l, r] for u in uids for l, r in pairs]
        datas = [list(x) for x in itertools.permutations(keys, 2)] + \
                [[[a, *p], [b, *q], [c, *w]] for a, b, c in itertools.permutations(uids) for p in pairs for q in pairs for w in pairs]
        if target == "LinkTrekker_order_links_by_frameworks":
            def real_olbf(i: dict) -> Any:
                lt = trekker([[k, [20]] for k in i["data"]], i["order"])
                lt.drop_dependency_in_case_of_circular_dependencies = lambda: None     # the callee is a parameter of the tie
                lt.order_links_by_frameworks()
                return obs_order(lt)
            ty = "(list PlannerL.lkey * PlannerA.amap) * option PlannerA.amap"
            return {"inputs": [{"data": d, "order": o} for d in datas for o in ([], [[8, [0]]])], "real": real_olbf,
                    "term": lambda i, o: (f"(({cq_list(cq_key(k) for k in i['data'])}, {cq_amap(i['order'])}), "
                                          f"{'Some ' + cq_amap(o) if isinstance(o, list) else 'None'})"),
                    "type": ty, "req": ["MV.Model.PlannerL"],
                    "defs": f"Definition chk (c : {ty}) := match c with ((ks, o0), Some o) => PlannerL.amap_exact_eqb "
                            "(PlannerL.olbf (map (fun k => (k, [20])) ks) o0) o | _ => false end."}
        if target == "LinkTrekker_get_ordered_data":
            def real_god(i: dict) -> Any:
                lt = trekker(i["data"], [])
                r = lt.get_ordered_data()
                return [obs_table(r), obs_order(lt)]
            kids = [[[10], [10, 11], [12]], [[10, 11], [10], [12, 13]]]
            ty = "PlannerL.tdata * option (PlannerL.tdata * PlannerA.amap)"
            return {"inputs": [{"data": [[k, kd[j]] for j, k in enumerate(d)]} for d in datas for kd in kids], "real": real_god,
                    "term": lambda i, o: (f"({cq_tdata(i['data'])}, "
                                          + (f"Some ({cq_tdata(o[0])}, {cq_amap(o[1])})" if isinstance(o, list) else "None") + ")"),
                    "type": ty, "req": ["MV.Model.PlannerL"],
                    "defs": f"Definition chk (c : {ty}) := "
                            "match PlannerL.get_ordered_data {| PlannerL.t_data := fst c; PlannerL.t_dor := []; PlannerL.t_order := [] |}, snd c with "
                            "| PlannerL.Ok t, Some (dor, o) => PlannerL.tdata_eqb (PlannerL.t_dor t) dor && PlannerL.amap_exact_eqb (PlannerL.t_order t) o "
                            "| PlannerL.Err _, None => true | _, _ => false end."}
    raise KeyError(target)


def search(target: str, prop: str = "SrcTie") -> Optional[Dict[str, Any]]:
    """the first input of the target's small exhaustive space on which the real function and the model disagree"""
    try:
        sp = _space(target)
    except Exception as ex:  # noqa: BLE001   (the function cannot even be imported: there is nothing to run)
        raise RuntimeError(f"cannot set up the real function: {type(ex).__name__}: {ex}") from ex
    if sp["req"]:
        ok, log = vlib.make_targets([r.replace("MV.", "").replace(".", "/") + ".vo" for r in sp["req"]])
        if not ok:
            raise RuntimeError("model does not build: " + " ".join(log[-300:].split()))
    obs = [_obs(lambda i=i: sp["real"](i)) for i in sp["inputs"]]
    terms = [sp["term"](i, o) for i, o in zip(sp["inputs"], obs)]
    bad, _ = vlib.run_cases(prop, "srctie_" + target, sp["req"], "chk", terms, case_type=sp["type"], extra_defs=sp["defs"],
                            shard=500)
    if not bad:
        return None
    # the smallest differing input, preferring one without an empty component (an empty uuid set / tuple is a corner case)
    prefer = sp.get("prefer", lambda i: 0)
    k = min(bad, key=lambda j: (prefer(sp["inputs"][j]), any(v in ([], "") for v in sp["inputs"][j].values()),
                                len(json.dumps(sp["inputs"][j])), j))
    return {"input": sp["inputs"][k], "real": obs[k], "differing_inputs": len(bad), "inputs_tried": len(terms)}


def replay(r: Dict[str, Any], show: bool = False) -> None:
    """re-run the real function on a recorded input (called from the checks' replay for kind == 'srctie')"""
    if show:
        print(json.dumps({k: v for k, v in r.items() if k != "log_tail"}, indent=1))
    if "input" in r:
        sp = _space(r["target"])
        print("real function now:", _obs(lambda: sp["real"](r["input"])), " recorded:", r.get("real"))
        print("translation now:", py2coq.translate_all()[1].get(r["target"]) or "translated")
