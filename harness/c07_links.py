"""C07 family "shared polymorphic Link" (round 6): ONE Link object declared on BASE feature-group classes is passed to 2-4
successive run_all / prepare+run calls that use DIFFERENT concrete subclass pairs of the bases.

Per call: deep snapshot of every caller-owned Link object before/after (join type, left/right feature-group class, indexes,
aliases, uuid), the pairs the resolver visited and the links it matched for each (spy around ResolveLinks._find_matching_links:
observation only), the JoinSteps of the plan and the rows of the consumer -- compared with a twin call that is given fresh
equal arguments.  The observed object states are replayed against Model/ArgsLinks.plan_links (wb_none) in coqc (chk_links).
"""
from __future__ import annotations

import json
import random
import time
from typing import Any, Dict, List, Optional, Tuple

from lib import vlib
from lib.vlib import cq_list, cq_nat, cq_str
from harness.universe import cfw_class, native_table, table_rows, load_transformers

IDX = "_idx"
JT = {"inner": "INNER", "left": "LEFT", "outer": "OUTER", "right": "RIGHT", "append": "APPEND", "union": "UNION"}
REQ_L = ["MV.Model.LinkSel", "MV.Model.ArgsLinks"]
_uid = [0]


# ------------------------------------------------------------------------------------------------------------
# generated hierarchy
# ------------------------------------------------------------------------------------------------------------
class LinkUniverse:
    """Two bases (BaseA, BaseB), optionally a middle level (MidA <: BaseA, MidB <: BaseB), n concrete root pairs (A_k, B_k)
    whose sides hang below the base (depth 1) or below the middle class (depth 2), one consumer per pair."""

    def __init__(self, case: Dict[str, Any]) -> None:
        from mloda.provider import DataCreator, FeatureGroup
        from mloda.user import Feature, FeatureName, Index
        _uid[0] += 1
        u = _uid[0]
        self.case = case
        self.ids: Dict[type, int] = {}
        self.names: List[str] = []

        def reg(c: type, name: str) -> type:
            c.__name__ = c.__qualname__ = f"L7_{u}_{name}"
            self.ids[c] = len(self.ids)
            self.names.append(name)
            return c

        def base(name: str) -> type:
            def index_columns(cls: Any) -> Any:
                return [Index((IDX,))]
            return reg(type(name, (FeatureGroup,), {"index_columns": classmethod(index_columns)}), name)

        self.BaseA, self.BaseB = base("BaseA"), base("BaseB")
        self.MidA = reg(type("MidA", (self.BaseA,), {}), "MidA")
        self.MidB = reg(type("MidB", (self.BaseB,), {}), "MidB")
        self.fam: List[Tuple[type, type, type]] = []
        for k, f in enumerate(case["families"]):
            sides = []
            for side, par_b, par_m, cfw, idx in (("a", self.BaseA, self.MidA, f["cfw_l"], f["idx_l"]),
                                                 ("b", self.BaseB, self.MidB, f["cfw_r"], f["idx_r"])):
                col = f"{side}{k}"
                depth = f["depth_l"] if side == "a" else f["depth_r"]

                def input_data(cls: Any, _c: str = col) -> Any:
                    return DataCreator({_c})

                def calculate_feature(cls: Any, data: Any, features: Any, _c: str = col, _cfw: str = cfw, _i: List[int] = idx) -> Any:
                    return native_table(_cfw, {IDX: list(_i), _c: [f"{_c}_{i}" for i in _i]})

                def compute_framework_rule(cls: Any, _cfw: str = cfw) -> Any:
                    return {cfw_class(_cfw)}
                sides.append(reg(type(col.upper(), (par_m if depth == 2 else par_b,), {
                    "input_data": classmethod(input_data), "calculate_feature": classmethod(calculate_feature),
                    "compute_framework_rule": classmethod(compute_framework_rule)}), col.upper()))
            name, left, right, ccfw = f"cons{k}", f"a{k}", f"b{k}", f["cfw_c"]

            def match(cls: Any, feature_name: Any, options: Any, data_access_collection: Any = None, _n: str = name) -> bool:
                return (feature_name.name if isinstance(feature_name, FeatureName) else str(feature_name)) == _n

            def input_features(self: Any, options: Any, feature_name: Any, _l: str = left, _r: str = right) -> Any:
                return {Feature(name=_l), Feature(name=_r)}

            def calc(cls: Any, data: Any, features: Any, _n: str = name, _l: str = left, _r: str = right, _cfw: str = ccfw) -> Any:
                rows = table_rows(data)
                vals = sorted(f"{r.get(_l) if r.get(_l) is not None else 'MISSING'}|{r.get(_r) if r.get(_r) is not None else 'MISSING'}"
                              for r in rows)
                return native_table(_cfw, {_n: vals})

            def cfr(cls: Any, _cfw: str = ccfw) -> Any:
                return {cfw_class(_cfw)}
            cons = type(name, (FeatureGroup,), {"match_feature_group_criteria": classmethod(match), "input_features": input_features,
                                                "calculate_feature": classmethod(calc), "compute_framework_rule": classmethod(cfr)})
            cons.__name__ = cons.__qualname__ = f"L7_{u}_{name}"
            self.fam.append((sides[0], sides[1], cons))

    def cls_of(self, ref: Any) -> type:
        if ref == "A":
            return self.BaseA
        if ref == "B":
            return self.BaseB
        if ref == "MA":
            return self.MidA
        if ref == "MB":
            return self.MidB
        side, k = ref
        return self.fam[k][0 if side == "a" else 1]

    def cid(self, c: Any) -> int:
        return self.ids.get(c, 999)

    def hier(self) -> List[Tuple[int, List[int]]]:
        return [(i, [self.ids[m] for m in c.__mro__ if m in self.ids]) for c, i in self.ids.items()]

    def make_link(self, spec: Dict[str, Any]) -> Any:
        from mloda.user import Index, JoinSpec, Link
        ctor = getattr(Link, spec["jt"])
        return ctor(JoinSpec(self.cls_of(spec["left"]), Index((IDX,))), JoinSpec(self.cls_of(spec["right"]), Index((IDX,))))

    def collector(self, k: int) -> Any:
        from mloda.user import PluginCollector
        return PluginCollector.enabled_feature_groups(set(self.fam[k]))

    def frameworks(self) -> Any:
        return {cfw_class(n) for f in self.case["families"] for n in (f["cfw_l"], f["cfw_r"], f["cfw_c"])}


# ------------------------------------------------------------------------------------------------------------
# observation
# ------------------------------------------------------------------------------------------------------------
def snap(uni: LinkUniverse, l: Any) -> Dict[str, Any]:
    return {"jt": l.jointype.name, "left": uni.cid(l.left_feature_group), "right": uni.cid(l.right_feature_group),
            "li": list(l.left_index.index), "ri": list(l.right_index.index),
            "alias": [repr(l.self_left_alias), repr(l.self_right_alias)], "uuid": str(l.uuid),
            "attrs": sorted(vars(l).keys())}


def model_val(s: Dict[str, Any]) -> Dict[str, Any]:
    return {k: s[k] for k in ("jt", "left", "right", "li", "ri")}


class Spy:
    """Records (left_fg, right_fg, matched links) of every ResolveLinks._find_matching_links call."""

    def __init__(self, uni: LinkUniverse) -> None:
        self.uni = uni
        self.seen: List[Any] = []

    def __enter__(self) -> "Spy":
        from mloda.core.prepare.resolve_links import ResolveLinks
        self.R = ResolveLinks
        self.orig = ResolveLinks._find_matching_links
        spy = self

        def wrapped(rself: Any, left_fg: type, right_fg: type) -> Any:
            res = spy.orig(rself, left_fg, right_fg)
            spy.seen.append((left_fg, right_fg, list(res)))
            return res
        ResolveLinks._find_matching_links = wrapped  # type: ignore[method-assign]
        return self

    def __exit__(self, *a: Any) -> None:
        self.R._find_matching_links = self.orig  # type: ignore[method-assign]

    def result(self) -> List[Any]:
        # the links are read AFTER the call (what the trekker holds)
        return [[self.uni.cid(lf), self.uni.cid(rf), sorted((model_val(snap(self.uni, l)) for l in ls), key=json.dumps)]
                for lf, rf, ls in self.seen]


def join_steps(uni: LinkUniverse, sess: Any) -> List[Any]:
    from mloda.core.core.step.join_step import JoinStep
    out = []
    for st in sess.engine.execution_planner:
        if isinstance(st, JoinStep):
            out.append(json.dumps(model_val(snap(uni, st.link)), sort_keys=True))
    return sorted(out)


def one_call(uni: LinkUniverse, call: Dict[str, Any], links: List[Any], in_set: List[int], on_feature: Optional[int]) -> Dict[str, Any]:
    from mloda.user import Feature, mloda
    k = call["fam"]
    kw: Dict[str, Any] = dict(compute_frameworks=uni.frameworks(), plugin_collector=uni.collector(k),
                              links={links[i] for i in in_set} if in_set or call.get("empty_set") else None)
    if not call.get("copy", True):
        kw["copy_features"] = False
    fkw = {"link": links[on_feature]} if on_feature is not None else {}
    feats = [Feature(name=f"cons{k}", **fkw)]
    res: Dict[str, Any] = {"rows": None, "joins": None, "err": None}
    with Spy(uni) as spy:
        try:
            if call["kind"] == "run_all":
                out = mloda.run_all(feats, **kw)
                res["rows"] = sorted(json.dumps(r, sort_keys=True, default=str) for t in out for r in table_rows(t))
            else:
                sess = mloda.prepare(feats, **kw)
                res["joins"] = join_steps(uni, sess)
                out = sess.run()
                res["rows"] = sorted(json.dumps(r, sort_keys=True, default=str) for t in out for r in table_rows(t))
        except Exception as e:  # noqa: BLE001 - a failure is an outcome
            res["err"] = type(e).__name__ + ":" + (str(e).strip().splitlines()[0][:100] if str(e).strip() else "")
        res["pairs"] = spy.result()
    return res


def run_links_case(case: Dict[str, Any]) -> Dict[str, Any]:
    """case: families, links (specs; link 0 is the shared polymorphic one), calls [{fam, kind, set: [link idx], feat: idx|None}]"""
    load_transformers()
    uni = LinkUniverse(case)
    links = [uni.make_link(s) for s in case["links"]]
    rec: Dict[str, Any] = {"case": case, "hier": uni.hier(), "h0": [model_val(snap(uni, l)) for l in links], "calls": [],
                           "problems": []}
    for n, call in enumerate(case["calls"]):
        before = [snap(uni, l) for l in links]
        got = one_call(uni, call, links, call["set"], call.get("feat"))
        after = [snap(uni, l) for l in links]
        fresh_links = [uni.make_link(s) for s in case["links"]]
        twin = one_call(uni, call, fresh_links, call["set"], call.get("feat"))
        for i, (b, a) in enumerate(zip(before, after)):
            if a != b:
                diff = {key: (b[key], a[key]) for key in b if a[key] != b[key]}
                rec["problems"].append(
                    f"call {n} ({call['kind']}, pair {uni.names[uni.cid(uni.fam[call['fam']][0])]}/{uni.names[uni.cid(uni.fam[call['fam']][1])]}) "
                    f"modified the caller's Link object #{i} {case['links'][i]}: " +
                    json.dumps({key: [uni.names[v] if key in ('left', 'right') and isinstance(v, int) and v < len(uni.names) else v for v in d]
                                for key, d in diff.items()}))
        # the resolver walks sets of uuids: the ORDER of the visited pairs is not a function of the arguments
        gp, tp = sorted(got["pairs"], key=json.dumps), sorted(twin["pairs"], key=json.dumps)
        # without any planned join the consumer is handed ONE of its two parents' tables, whichever the uuid order picks
        # (not a function of the arguments either, links or not): rows are judged when a link was matched in either call
        joined = any(ls for _, _, ls in gp + tp)
        for key, what in (("rows", "rows of the consumer"), ("err", "outcome"), ("joins", "join steps of the prepared plan"),
                          ("pairs", "links matched per resolved pair")):
            g, t = (gp, tp) if key == "pairs" else (got[key], twin[key])
            if key == "rows" and not joined:
                continue
            if g != t:
                rec["problems"].append(
                    f"call {n} ({call['kind']} of cons{call['fam']}) with the RE-USED Link object(s) differs from the call with fresh equal "
                    f"Links in the {what}: reused={json.dumps(got[key])[:300]} fresh={json.dumps(twin[key])[:300]}")
        rec["calls"].append({"call": call, "after": [model_val(a) for a in after], "got": got, "twin": twin,
                             "joined": joined, "same": gp == tp and all(got[k2] == twin[k2] for k2 in ("err", "joins")) and
                             (not joined or got["rows"] == twin["rows"])})
    return rec


# ------------------------------------------------------------------------------------------------------------
# Coq terms
# ------------------------------------------------------------------------------------------------------------
def cq_link(l: Dict[str, Any]) -> str:
    return (f"{{| jt := {l['jt']}; lfg := {cq_nat(l['left'])}; rfg := {cq_nat(l['right'])}; "
            f"lidx := {cq_list([cq_str(x) for x in l['li']])}; ridx := {cq_list([cq_str(x) for x in l['ri']])} |}}")


def cq_links_case(rec: Dict[str, Any]) -> str:
    hier = cq_list([f"({cq_nat(c)}, {cq_list([cq_nat(m) for m in mro])})" for c, mro in rec["hier"]])
    h0 = cq_list([cq_link(l) for l in rec["h0"]])
    obs = []
    for c in rec["calls"]:
        call, got = c["call"], c["got"]
        feat = [call["feat"]] if call.get("feat") is not None else []
        pairs = cq_list([f"({cq_nat(lf)}, {cq_nat(rf)})" for lf, rf, _ in got["pairs"]])
        lcall = f"{{| lc_set := {cq_list([cq_nat(i) for i in call['set']])}; lc_feat := {cq_list([cq_nat(i) for i in feat])}; lc_pairs := {pairs} |}}"
        if got["err"] is not None and "LinkValidator" in got["err"] or (got["err"] or "").startswith("ValueError:Link"):
            out = "LRejected"
        else:
            out = "LPlanned " + cq_list([cq_list([cq_link(l) for l in ls]) for _, _, ls in got["pairs"]])
        obs.append(f"{{| lo_call := {lcall}; lo_after := {cq_list([cq_link(l) for l in c['after']])}; lo_out := {out} |}}")
    return f"({hier}, {h0}, {cq_list(obs)})"


# ------------------------------------------------------------------------------------------------------------
# generator
# ------------------------------------------------------------------------------------------------------------
def gen_links_case(rng: random.Random) -> Dict[str, Any]:
    n = rng.choice([2, 2, 3])
    layout = rng.choice(["dict", "arrow", "pandas", "two", "two"])
    fams = []
    for k in range(n):
        if layout == "two":
            cl, cr = rng.choice([("PyArrowTable", "PandasDataFrame"), ("PandasDataFrame", "PyArrowTable")])
            cc = cl
        else:
            cl = cr = cc = {"dict": "PythonDictFramework", "arrow": "PyArrowTable", "pandas": "PandasDataFrame"}[layout]
        d = rng.choice([1, 1, 1, 2])
        dr = d if rng.random() < 0.85 else 3 - d          # unbalanced depth: the polymorphic rule rejects the link
        lo = rng.randint(0, 1)
        fams.append({"cfw_l": cl, "cfw_r": cr, "cfw_c": cc, "depth_l": d, "depth_r": dr,
                     "idx_l": list(range(lo, lo + 3)), "idx_r": list(range(1, 4))})
    jt = rng.choice(["inner", "inner", "left", "outer"])
    links: List[Dict[str, Any]] = [{"jt": jt, "left": "A", "right": "B"}]
    r = rng.random()
    if r < 0.25:
        k = rng.randrange(n)
        links.append({"jt": jt, "left": ["a", k], "right": ["b", k]})          # an exact link for one family next to it
    elif r < 0.45:
        links.append({"jt": jt, "left": "MA", "right": "MB"})                    # a more specific polymorphic link
    via = rng.choice(["set", "set", "set", "feature", "both"])
    calls = []
    order = list(range(n))
    rng.shuffle(order)
    m = rng.randint(2, 4)
    seq = (order + [rng.randrange(n) for _ in range(4)])[:m]
    for k in seq:
        c: Dict[str, Any] = {"fam": k, "kind": rng.choice(["run_all", "prepare_run"]), "set": [], "feat": None}
        others = list(range(1, len(links)))
        if via == "set":
            c["set"] = [0] + [i for i in others if rng.random() < 0.8]
        elif via == "feature":
            c["feat"] = 0
            c["set"] = [i for i in others if rng.random() < 0.8]
            c["copy"] = rng.random() < 0.5
        else:
            c["set"] = [0] + [i for i in others if rng.random() < 0.8]
            c["feat"] = 0
            c["copy"] = rng.random() < 0.5
        calls.append(c)
    return {"families": fams, "links": links, "via": via, "layout": layout, "calls": calls}


def demo_case(kind2: str = "run_all", via: str = "set") -> Dict[str, Any]:
    """seeded/C07_r6/demo.py as a case: family 0, family 1, family 0 again with ONE Link(BaseA, BaseB)."""
    fam = {"cfw_l": "PythonDictFramework", "cfw_r": "PythonDictFramework", "cfw_c": "PythonDictFramework", "depth_l": 1, "depth_r": 1,
           "idx_l": [0, 1], "idx_r": [0, 1]}
    s, f, cp = ([0], None, True) if via == "set" else ([], 0, False)
    return {"families": [dict(fam), dict(fam)], "links": [{"jt": "inner", "left": "A", "right": "B"}], "via": via, "layout": "dict",
            "calls": [{"fam": 0, "kind": "run_all", "set": s, "feat": f, "copy": cp}, {"fam": 1, "kind": kind2, "set": s, "feat": f, "copy": cp},
                      {"fam": 0, "kind": "run_all", "set": s, "feat": f, "copy": cp}]}


# ------------------------------------------------------------------------------------------------------------
def part_links(rep: vlib.Reporter, tier: str, rng: random.Random) -> bool:
    t0 = time.time()
    n = 1500 if tier == "thorough" else 150
    fixed = [demo_case("run_all"), demo_case("prepare_run"), demo_case("run_all", via="feature")]
    dist: Dict[str, Any] = {"sequences": 0, "calls": 0, "layout": {}, "via": {}, "n_links": {}, "join_type": {}, "kinds": {},
                            "calls_resolving_a_polymorphic_match": 0, "calls_with_an_exact_match": 0, "calls_without_a_match": 0,
                            "sequences_whose_shared_link_met_>=2_concrete_pairs": 0, "outcomes": {}, "pairs_resolved": 0}
    found = False
    recs = []
    for k in range(len(fixed) + n):
        case = fixed[k] if k < len(fixed) else gen_links_case(rng)
        rec = run_links_case(case)
        recs.append(rec)
        dist["sequences"] += 1
        dist["calls"] += len(case["calls"])
        rep.count(2 * len(case["calls"]))
        for key, v in (("layout", case["layout"]), ("via", case["via"]), ("n_links", str(len(case["links"]))),
                       ("join_type", case["links"][0]["jt"])):
            dist[key][v] = dist[key].get(v, 0) + 1
        met = set()
        for c in rec["calls"]:
            dist["kinds"][c["call"]["kind"]] = dist["kinds"].get(c["call"]["kind"], 0) + 1
            dist["pairs_resolved"] += len(c["got"]["pairs"])
            poly = exact = False
            for lf, rf, ls in c["got"]["pairs"]:
                for l in ls:
                    if l["left"] == lf and l["right"] == rf:
                        exact = True
                    else:
                        poly = True
                        if l == rec["h0"][0]:
                            met.add((lf, rf))
            dist["calls_resolving_a_polymorphic_match"] += int(poly)
            dist["calls_with_an_exact_match"] += int(exact)
            dist["calls_without_a_match"] += int(not poly and not exact)
            o = "error" if c["got"]["err"] else ("rows with MISSING" if any("MISSING" in r for r in c["got"]["rows"] or []) else "joined rows")
            dist["outcomes"][o] = dist["outcomes"].get(o, 0) + 1
        if len(met) >= 2:
            dist["sequences_whose_shared_link_met_>=2_concrete_pairs"] += 1
            rep.nontrivial(("L", json.dumps(case, sort_keys=True)))
        dist["problems"] = dist.get("problems", 0) + len(rec["problems"])
        for p in rec["problems"][:3]:
            found = True
            rep.finding("links:" + p[:100] + json.dumps(case, sort_keys=True)[:120], "shared polymorphic Link: " + p,
                        {"kind": "links", "case": case, "problem": p})
    terms = [cq_links_case(r) for r in recs]
    bad, info = vlib.run_cases("C07", "links", REQ_L, "chk_links", terms,
                               case_type="list (cls * list cls) * lheap * list lobs", shard=120)
    for i in bad[:6]:
        r = recs[i]
        found = True
        rep.finding("links-model:" + json.dumps(r["case"], sort_keys=True)[:200],
                    "observed state of the caller's Link objects after a call, or the links the resolver matched for the requested "
                    "pairs, is not what Model/ArgsLinks.plan_links (read-only resolution, LinkSel.find_matching) gives: " +
                    json.dumps([{"after": c["after"], "pairs": c["got"]["pairs"], "err": c["got"]["err"]} for c in r["calls"]])[:700],
                    {"kind": "links", "case": r["case"]})
    dist["wall_s"] = round(time.time() - t0, 1)
    rep.add("shared_polymorphic_link_sequences", dist)
    rep.add("links_model", {**info, "disagreements": len(bad)})
    if len(recs) > len(fixed):
        r0 = recs[len(fixed)]
        rep.sample({"part": "L", "case": r0["case"],
                    "outcomes": [(c["got"]["err"], c["got"]["rows"], c["got"]["pairs"], c["same"]) for c in r0["calls"]]})
    return found
