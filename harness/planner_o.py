"""Correspondence between the real planner and its Coq model for the O-FRAGMENT (coq/Model/PlannerO.v): one compute
framework, no Links, no filter, but NON-DEFAULT OPTIONS (group options, context options, propagated context keys, protected
keys) on requested features and on input edges, and DECLARED DATA TYPES on requested and input features.

O-spec = harness/universe.py spec plus
    request item     {"name", "opt": {group options}, "ctx": {context options}, "prop": [propagated context keys], "type": "INT64"}
    derived feature  {"inputs", "c0", "coefs", "input_opt": {inp: {...}}, "input_ctx": {inp: {...}}, "input_prop": {inp: [...]},
                      "input_type": {inp: "INT64"}}
Option values: ints, strings, lists of strings (handed to mloda as tuples).  Root data depends on the GROUP options of the
instance that is computed (root value + opt_offset(group options)), so that a consumer reading the data of another option
group returns other values.

For each spec the REAL mloda.prepare is run and observed without source hooks:
    Features.__init__ (harness wrapper)            iteration order of list(input_features()) per expanded feature    -> oc_iord
    engine.feature_link_parents + graph nodes      every node WITH ITS Feature OBJECT (name, group / context options,
                                                   propagate keys, declared type, child_options), parents in set order -> oc_x
    group_features_by_compute_framework_and_options (wrapper)   iteration order of the feature set of every group       -> oc_ord0
    graph.queue, parent_to_children_mapping, the plan in plan order, the outcome incl. the rejection class
and compared inside Coq (vm_compute) with the model evaluated under the observed orders:
    chk_request_O   collect (Engine._process_feature recursion with merge_options, de-duplication by Feature.__eq__) yields the
                    observed nodes one by one: same Feature objects (options as dicts in dict order), same parents; a
                    rejection while the graph is built: the same error class
    chk_graph_O / chk_queue_O / chk_closure_O       as for PlannerA, on the labelled graph
    chk_plan_O      the plan step by step IN PLAN ORDER (splits by (group options, type) in the order of the real dict) and
                    the outcome (accepted / incomplete / cycle)
    chk_request_outcome_O, chk_request_plan_O       the outcome / the number of steps computed from the request alone in
                    canonical orders (what the determinism theorems allow; outside kf_ambiguous_O)
In-process and, per hash seed, in a fresh interpreter.  Across all preparations of one spec the canonical plan signature must
coincide, except inside the recorded domain C15-untyped-joins-first-typed-group (kf_ambiguous_O evaluated in Coq).
A sample of accepted specs is RUN in SYNC: every returned column must equal the reference evaluation of ITS instance
(Spec/RefEval.ref_eval over the observed instance graph, evaluated in Coq).

check_plans(specs, rep_prefix, hash_seeds=(1,), run_accepted=0) -> disagreements;  LAST_INFO: counters.
`python3 -m harness.planner_o [n] [seed] [n_run]` self test.
"""
from __future__ import annotations

import json
import logging
import os
import random
import subprocess
import sys
from typing import Any, Dict, List, Optional, Sequence, Tuple

from lib import vlib
from lib.vlib import cq_bool, cq_list, cq_nat, cq_str, cq_z

REQ = ["MV.Model.Orch", "MV.Model.OrchCheck", "MV.Model.Options", "MV.Model.Identity", "MV.Model.Grouping", "MV.Model.PlannerA",
       "MV.Model.PlannerO"]
STAGES = ["chk_request_O", "chk_graph_O", "chk_queue_O", "chk_closure_O", "chk_plan_O"]
OUTCOME = {0: "accepted", 1: "rejected: incomplete plan", 2: "rejected: steps wait in a cycle",
           3: "rejected: option conflict (Duplicate key ... conflicting values)", 4: "rejected: options validator",
           5: "rejected: TypeError while merging options", 6: "rejected: duplicate feature setup", 7: "rejected: no feature group"}
KF_AMBIGUOUS = "C15-untyped-joins-first-typed-group"
KF_ERRCLASS = "C04-nondet-option-error-reported"
LAST_INFO: Dict[str, Any] = {}
OBS: Dict[str, Any] = {}
_installed = [False]
CHAINER = "feature_chainer_parser_key"
import threading as _threading
LOCK = _threading.Lock()
TYPES = ["INT64", "DOUBLE", "INT32"]


# ------------------------------------------------------------------------------------------------------------
# universe with options on requests and input edges
# ------------------------------------------------------------------------------------------------------------

def _val(v: Any) -> Any:
    return tuple(_val(x) for x in v) if isinstance(v, list) else v


def _opts(group: Optional[Dict[str, Any]], ctx: Optional[Dict[str, Any]], prop: Optional[Sequence[str]]) -> Any:
    from mloda.user import Options
    return Options(group={k: _val(v) for k, v in (group or {}).items()}, context={k: _val(v) for k, v in (ctx or {}).items()},
                   propagate_context_keys=frozenset(prop or ()))


def opt_offset(group: Dict[Any, Any]) -> int:
    """what the group options of an instance add to the root data (ints count as they are, strings by their length and first
    character; the protected-key list does not count)"""
    off = 0
    for k in sorted(group, key=str):
        v = group[k]
        w = 1 + (sum(map(ord, str(k))) % 5)
        if isinstance(v, bool) or v is None:
            continue
        if isinstance(v, int):
            off += w * v
        elif isinstance(v, str):
            off += w * (len(v) + (ord(v[0]) % 7 if v else 0))
    return off


def make_universe(spec: Dict[str, Any], listener: Any = None) -> Any:
    from harness.universe import Universe, native_table

    class UniverseO(Universe):
        def _make_group(self, g: Dict[str, Any]) -> type:
            cls = super()._make_group(g)
            uni = self
            if g["kind"] == "derived":
                feats = g["features"]

                def input_features(self_: Any, options: Any, feature_name: Any, _f: Any = feats) -> Any:
                    from mloda.user import Feature
                    from mloda.core.abstract_plugins.components.data_types import DataType
                    n = feature_name.name if hasattr(feature_name, "name") else str(feature_name)
                    d = _f[n]
                    if d.get("from_options"):
                        return options.get_in_features()      # the Feature objects the caller put into the options
                    res = set()
                    for i in d["inputs"]:
                        t = d.get("input_type", {}).get(i)
                        res.add(Feature(i, options=_opts(d.get("input_opt", {}).get(i), d.get("input_ctx", {}).get(i),
                                                         d.get("input_prop", {}).get(i)),
                                        data_type=DataType[t] if t else None))
                    return res
                cls.input_features = input_features  # type: ignore[attr-defined]
            elif g["kind"] == "root":
                cols = g["cols"]

                def calculate_feature(cls_: Any, data: Any, features: Any, _cols: Any = cols) -> Any:
                    fs = list(features.features)
                    names = sorted(f.get_name() for f in fs)
                    uni.listener.on_enter(g["name"], names, [], None, features)
                    off = opt_offset(dict(fs[0].options.group))
                    out = native_table(uni._cfw_name_of(cls_, features), {k: [None if x is None else x + off for x in v] for k, v in _cols.items()})
                    uni.listener.on_exit(g["name"], names)
                    return out
                cls.calculate_feature = classmethod(calculate_feature)  # type: ignore[attr-defined]
            return cls

        def nested(self, i: Dict[str, Any]) -> Any:
            """the caller's Feature object for an in_features entry: ONE object per entry and universe, handed to every call"""
            from mloda.user import Feature
            key = json.dumps(i, sort_keys=True)
            pool = self.__dict__.setdefault("pool", {})
            if key not in pool:
                pool[key] = Feature(i["name"], options=_opts(i.get("opt"), i.get("ctx"), None))
            return pool[key]

        def features(self) -> List[Any]:
            from mloda.user import Feature, Options
            from mloda.core.abstract_plugins.components.data_types import DataType
            out = []
            for r in (getattr(self, "request_override", None) or self.spec["request"]):
                if isinstance(r, str):
                    r = {"name": r}
                dt = DataType[r["type"]] if r.get("type") else None
                if r.get("inf") is not None:
                    group = {k: _val(v) for k, v in (r.get("opt") or {}).items()}
                    if r.get("lock"):
                        group["conn"] = LOCK            # cannot be deep-copied; Options.__deepcopy__ hands the object on
                    group["in_features"] = frozenset(self.nested(i) for i in r["inf"])
                    opts = Options(group=group, context={k: _val(v) for k, v in (r.get("ctx") or {}).items()})
                    out.append(Feature(r["name"], options=opts, data_type=dt))
                else:
                    out.append(Feature(r["name"], options=_opts(r.get("opt"), r.get("ctx"), r.get("prop")), data_type=dt))
            return out

    return UniverseO(spec, listener)


def in_fragment(spec: Dict[str, Any]) -> bool:
    if spec.get("links") or spec.get("api_frameworks"):
        return False
    cfws = {g.get("cfw") for g in spec["groups"]}
    if len(cfws) != 1 or None in cfws:
        return False
    for g in spec["groups"]:
        if g["kind"] not in ("root", "derived") or g.get("index") or g.get("cols_by_opt"):
            return False
    names = [n for g in spec["groups"] for n in (g["cols"] if g["kind"] == "root" else g["features"])]
    return len(names) == len(set(names))


# ------------------------------------------------------------------------------------------------------------
# generators
# ------------------------------------------------------------------------------------------------------------

def _feat(ins: Sequence[str], rng: Optional[random.Random] = None) -> Dict[str, Any]:
    return {"inputs": list(ins), "c0": rng.randrange(-3, 4) if rng else 0,
            "coefs": [rng.choice([1, 1, 2, -1, 3]) if rng else 1 for _ in ins]}


def gen_o(rng: random.Random, cfw: str = "PyArrowTable", conflicts: float = 0.25, typed: float = 0.5) -> Dict[str, Any]:
    """One root, 1-3 derived groups with intra-group chains / diamonds / shared inputs (inputs from ANY earlier feature); 1-3
    option keys with 1-3 values each; the same name may be requested under several option values and with several contexts;
    options / contexts / types on input edges; now and then a conflicting value, a group-vs-context clash, a protected key."""
    cols = {c: [rng.randrange(-5, 20) for _ in range(3)] for c in ["a", "b", "c"][: rng.randrange(1, 4)]}
    n_groups = rng.randrange(1, 4)
    feats: List[Dict[str, Any]] = [dict() for _ in range(n_groups)]
    order: List[str] = list(cols)
    keys = ["k1", "k2", "k3"][: rng.randrange(1, 4)]
    vals = {k: rng.sample([1, 2, 3, "x", "yy"], rng.randrange(1, 4)) for k in keys}
    ckeys = ["c1", "c2"]
    risky = rng.random() < conflicts
    use_types = rng.random() < typed
    for i in range(rng.randrange(1, 7)):
        gi = rng.randrange(n_groups)
        pool = order[-4:] if (rng.random() < 0.5 and len(order) > 2) else order
        ins = rng.sample(pool, rng.randrange(1, min(3, len(pool)) + 1))
        d = _feat(ins, rng)
        for x in ins:
            r = rng.random()
            if r < 0.22:
                k = rng.choice(keys if not risky else keys + ckeys[:1])
                d.setdefault("input_opt", {})[x] = {k: rng.choice(vals.get(k, [1, 2]))}
                if rng.random() < 0.12:
                    d["input_opt"][x][CHAINER] = [rng.choice(keys)]
            elif r < 0.34:
                k = rng.choice(ckeys if not risky else ckeys + keys[:1])
                d.setdefault("input_ctx", {})[x] = {k: rng.choice([7, 8, "z"])}
                if rng.random() < 0.3:
                    d.setdefault("input_prop", {})[x] = [k]
            if use_types and rng.random() < 0.25:
                d.setdefault("input_type", {})[x] = rng.choice(TYPES)
        name = f"f{i + 1}"
        feats[gi][name] = d
        order.append(name)
    groups: List[Dict[str, Any]] = [{"name": "R0", "kind": "root", "cfw": cfw, "cols": cols}]
    for gi, f in enumerate(feats):
        if f:
            groups.append({"name": f"D{gi + 1}", "kind": "derived", "cfw": cfw, "features": f})
    derived = [n for n in order if n not in cols]
    req: List[Dict[str, Any]] = []
    for _ in range(rng.randrange(1, 5)):
        name = rng.choice(derived if rng.random() < 0.85 else order)
        r: Dict[str, Any] = {"name": name}
        opt = {k: rng.choice(vals[k]) for k in keys if rng.random() < 0.6}
        if rng.random() < 0.1 and opt:
            opt[CHAINER] = [rng.choice(keys)]
        if opt:
            r["opt"] = opt
        if rng.random() < 0.3:
            r["ctx"] = {k: rng.choice([7, 8, "z"]) for k in ckeys if rng.random() < 0.6}
            if r["ctx"] and rng.random() < 0.5:
                r["prop"] = rng.sample(sorted(r["ctx"]), rng.randrange(1, len(r["ctx"]) + 1))
            if not r["ctx"]:
                del r["ctx"]
        if use_types and rng.random() < 0.4:
            r["type"] = rng.choice(TYPES)
        req.append(r)
    if rng.random() < 0.05 and not risky:
        req.append(dict(req[0]))               # an equal requested feature: "Duplicate feature setup"
    return {"groups": groups, "request": req}


def gen_o_run(rng: random.Random, cfw: str = "PyArrowTable") -> Dict[str, Any]:
    """Requests whose accepted plans are run: no declared types (the run-time type validation is C17's business), no
    protected keys, no conflicts; several option values per name, fan-out (one input, several consumers in different groups)
    inside every option group, options added on input edges, contexts."""
    cols = {c: [rng.randrange(-5, 20) for _ in range(3)] for c in ["a", "b"]}
    groups: List[Dict[str, Any]] = [{"name": "R0", "kind": "root", "cfw": cfw, "cols": cols}]
    keys = ["k1", "k2"][: rng.randrange(1, 3)]
    vals = {k: rng.sample([1, 2, 3, 5], rng.randrange(2, 4)) for k in keys}
    order = list(cols)
    n_groups = rng.randrange(2, 4)
    feats: List[Dict[str, Any]] = [dict() for _ in range(n_groups)]
    for i in range(rng.randrange(2, 6)):
        gi = rng.randrange(n_groups)
        ins = rng.sample(order, rng.randrange(1, min(2, len(order)) + 1))
        d = _feat(ins, rng)
        if rng.random() < 0.25:
            e = {"e": rng.choice([1, 4])}          # the same added option on EVERY input: all inputs stay on one data object
            d["input_opt"] = {x: dict(e) for x in ins}
        for x in ins:
            if rng.random() < 0.15:
                d.setdefault("input_ctx", {})[x] = {"c1": rng.choice([7, 8])}
        feats[gi][f"f{i + 1}"] = d
        order.append(f"f{i + 1}")
    for gi, f in enumerate(feats):
        if f:
            groups.append({"name": f"D{gi + 1}", "kind": "derived", "cfw": cfw, "features": f})
    derived = [n for n in order if n not in cols]
    req = []
    seen = set()
    for _ in range(rng.randrange(2, 6)):
        name = rng.choice(derived)
        opt = {k: rng.choice(vals[k]) for k in keys if rng.random() < 0.8}
        sig = (name, json.dumps(opt, sort_keys=True))
        if sig in seen:
            continue
        seen.add(sig)
        r: Dict[str, Any] = {"name": name}
        if opt:
            r["opt"] = opt
        if rng.random() < 0.2:
            r["ctx"] = {"c2": rng.choice([1, 2])}
        req.append(r)
    return {"groups": groups, "request": req}


def gen_o_typed(rng: random.Random, cfw: str = "PyArrowTable") -> Dict[str, Any]:
    """Typed / untyped mixes: 1-2 feature groups whose features are requested (and used as inputs) with declared types on FEW
    distinct options, so that one group is split by type, untyped features meet typed ones of one or two types (C15's ambiguity),
    and - declared types do not propagate - the splits of ONE group may require each other (rejected: cycle)."""
    cols = {c: [rng.randrange(0, 20) for _ in range(3)] for c in ["a", "b"][: rng.randrange(1, 3)]}
    if rng.random() < 0.2:
        # ONE group; x, y from the root; fx <- x (declared T1), fy <- y (declared T2); requested fx : T2, fy : T1 (+ extras): the
        # split {x, fy} (T1) requires y, the split {y, fx} (T2) requires x
        t1, t2 = rng.sample(TYPES, 2)
        src = rng.choice(list(cols))
        f = {"x": _feat([src], rng), "y": _feat([src], rng), "fx": {**_feat(["x"], rng), "input_type": {"x": t1}},
             "fy": {**_feat(["y"], rng), "input_type": {"y": t2}}}
        req = [{"name": "fx", "type": t2}, {"name": "fy", "type": t1}]
        if rng.random() < 0.5:
            req.append({"name": rng.choice(["x", "y"])})
        if rng.random() < 0.3:
            req[0]["opt"] = {"k1": 1}       # other options: no cycle any more
        rng.shuffle(req)
        return {"groups": [{"name": "R0", "kind": "root", "cfw": cfw, "cols": cols}, {"name": "D1", "kind": "derived", "cfw": cfw, "features": f}],
                "request": req}
    n_groups = rng.randrange(1, 3)
    feats: List[Dict[str, Any]] = [dict() for _ in range(n_groups)]
    order = list(cols)
    types = rng.sample(TYPES, rng.randrange(1, 3))
    for i in range(rng.randrange(2, 7)):
        gi = rng.randrange(n_groups)
        ins = rng.sample(order, rng.randrange(1, min(2, len(order)) + 1))
        d = _feat(ins, rng)
        for x in ins:
            if rng.random() < 0.45:
                d.setdefault("input_type", {})[x] = rng.choice(types)
        feats[gi][f"f{i + 1}"] = d
        order.append(f"f{i + 1}")
    groups: List[Dict[str, Any]] = [{"name": "R0", "kind": "root", "cfw": cfw, "cols": cols}]
    for gi, f in enumerate(feats):
        if f:
            groups.append({"name": f"D{gi + 1}", "kind": "derived", "cfw": cfw, "features": f})
    derived = [n for n in order if n not in cols]
    optv = [None, None, {"k1": 1}] if rng.random() < 0.5 else [None]
    req, seen = [], set()
    for name in rng.sample(order, min(len(order), rng.randrange(2, 6))):
        r: Dict[str, Any] = {"name": name}
        o = rng.choice(optv)
        if o:
            r["opt"] = dict(o)
        if rng.random() < 0.6:
            r["type"] = rng.choice(types)
        sig = json.dumps(r, sort_keys=True)
        if sig not in seen:
            seen.add(sig)
            req.append(r)
    if derived and rng.random() < 0.4:
        # the same name once more with another type / untyped: typed and untyped instances of one name
        extra = {"name": rng.choice(derived)}
        if rng.random() < 0.5:
            extra["type"] = rng.choice(TYPES)
        if json.dumps(extra, sort_keys=True) not in seen:
            req.append(extra)
    return {"groups": groups, "request": req}


def gen_o_clash(rng: random.Random, cfw: str = "PyArrowTable") -> Dict[str, Any]:
    """Small requests around the error classes of the graph stage: a key that is a group option on one side and a context option
    on the other (with equal or different values), propagated context keys meeting group keys of the inputs, protected-key lists
    (on the input: protects; on the consumer: does not), a protected-key entry that cannot be iterated, several failing inputs."""
    cols = {c: [1, 2, 3] for c in ["a", "b"]}
    k = rng.choice(["k1", "c1"])
    v = rng.choice([1, 2])
    other = v if rng.random() < 0.5 else 3 - v
    ins = rng.sample(["a", "b"], rng.randrange(1, 3))
    d = _feat(ins, rng)
    for x in ins:
        r = rng.random()
        if r < 0.35:
            d.setdefault("input_opt", {})[x] = {k: other}
        elif r < 0.6:
            d.setdefault("input_ctx", {})[x] = {k: other}
        elif r < 0.75:
            d.setdefault("input_opt", {})[x] = {k: other, CHAINER: rng.choice([[k], ["zz"], 5, "k1"])}
        elif r < 0.85:
            d.setdefault("input_ctx", {})[x] = {k: other}
            d.setdefault("input_prop", {})[x] = [k]
    feats = {"f1": d}
    if rng.random() < 0.5:
        feats["f2"] = {**_feat(["f1"], rng), **({"input_opt": {"f1": {k: other}}} if rng.random() < 0.5 else {})}
    req: Dict[str, Any] = {"name": rng.choice(list(feats))}
    r = rng.random()
    if r < 0.45:
        req["opt"] = {k: v}
    elif r < 0.8:
        req["opt"] = {"k2": 1}
        req["ctx"] = {k: v}
        if rng.random() < 0.6:
            req["prop"] = [k]
    else:
        req["opt"] = {k: v, CHAINER: [k]}
    return {"groups": [{"name": "R0", "kind": "root", "cfw": cfw, "cols": cols}, {"name": "D1", "kind": "derived", "cfw": cfw, "features": feats}],
            "request": [req]}


def gen_o_chain(rng: random.Random, cfw: str = "PyArrowTable") -> Dict[str, Any]:
    """A feature whose inputs are Feature OBJECTS handed over in its options (in_features, as the chained built-in groups do):
    the engine works on them (name, frameworks, child_options, merged group options).  The request is prepared AFTER another
    call that was given the same caller objects with another option value (reuse_first); half of the requests carry a value that
    cannot be deep-copied next to in_features.  mloda plans on copies, so the observed call must equal the model of ITS request."""
    cols = {c: [1, 2, 3] for c in ["a", "b"]}
    feats1 = {"x": _feat(["a"], rng), "y": _feat([rng.choice(["a", "b"])], rng)}
    names = rng.sample(["x", "y"], 1)       # ONE object: with two, Feature.__hash__ (deep copy of the cyclic child_options) does not
    inf = []                                # return within minutes on the unchanged tree (NOTES_plano.md)
    for n in names:
        i: Dict[str, Any] = {"name": n}
        if rng.random() < 0.4:
            i["opt"] = {"e": rng.choice([1, 4])}
        inf.append(i)
    v1, v2 = rng.sample([1, 2, 3], 2)
    if rng.random() < 0.2:
        v2 = v1
    lock = rng.random() < 0.6
    item = {"name": "g", "opt": {"k1": v2}, "inf": inf, "lock": lock}
    first = {"name": "g", "opt": {"k1": v1}, "inf": inf, "lock": lock}
    return {"groups": [{"name": "R0", "kind": "root", "cfw": cfw, "cols": cols},
                       {"name": "D1", "kind": "derived", "cfw": cfw, "features": feats1},
                       {"name": "D2", "kind": "derived", "cfw": cfw, "features": {"g": {"inputs": names, "c0": 0, "coefs": [1] * len(names), "from_options": True}}}],
            "request": [item] + ([{"name": "x", "opt": {"k1": v2}}] if rng.random() < 0.3 else []), "reuse_first": [first]}


def gen_any(rng: random.Random) -> Dict[str, Any]:
    r = rng.random()
    return gen_o(rng) if r < 0.5 else (gen_o_typed(rng) if r < 0.72 else (gen_o_clash(rng) if r < 0.9 else gen_o_chain(rng)))


def _base(feats: Dict[str, Dict[str, Any]], cols: Sequence[str] = ("a",), cfw: str = "PyArrowTable") -> List[Dict[str, Any]]:
    groups: List[Dict[str, Any]] = [{"name": "R0", "kind": "root", "cfw": cfw, "cols": {c: [1, 2, 3] for c in cols}}]
    for gname, f in feats.items():
        groups.append({"name": gname, "kind": "derived", "cfw": cfw, "features": f})
    return groups


def witness_specs() -> Dict[str, Dict[str, Any]]:
    w: Dict[str, Dict[str, Any]] = {}
    # one name under two option values: two instances of everything below it, no cross-talk
    w["two_values"] = {"groups": _base({"D1": {"f1": _feat(["a"])}, "D2": {"f2": _feat(["f1"])}}),
                       "request": [{"name": "f2", "opt": {"k1": 1}}, {"name": "f2", "opt": {"k1": 2}}]}
    # diamond: f1 reached under two option values through input edges; fan-out inside each option group (seed C02_r3's shape)
    w["diamond"] = {"groups": _base({"D1": {"base": _feat(["a"])},
                                     "D2": {"p": _feat(["base"])}, "D3": {"t": _feat(["base"])},
                                     "D4": {"top": {**_feat(["p", "t"]), "input_opt": {"p": {"k2": 5}}}}}),
                    "request": [{"name": "top", "opt": {"k1": 2}}, {"name": "top", "opt": {"k1": 3}}, {"name": "p", "opt": {"k1": 2}},
                                {"name": "t", "opt": {"k1": 2}}, {"name": "t", "opt": {"k1": 3}}]}
    # context options never split: one step holds the three f1
    w["contexts"] = {"groups": _base({"D1": {"f1": _feat(["a"])}}),
                     "request": [{"name": "f1", "opt": {"k1": 1}}, {"name": "f1", "opt": {"k1": 1}, "ctx": {"c1": 7}},
                                 {"name": "f1", "opt": {"k1": 1}, "ctx": {"c1": 8}, "prop": ["c1"]}]}
    # conflicting value on an input edge: rejected (code 3)
    w["conflict"] = {"groups": _base({"D1": {"f1": {**_feat(["a"]), "input_opt": {"a": {"k1": 2}}}}}),
                     "request": [{"name": "f1", "opt": {"k1": 1}}]}
    # ... allowed when the input feature declares the key protected
    w["protected"] = {"groups": _base({"D1": {"f1": {**_feat(["a"]), "input_opt": {"a": {"k1": 2, CHAINER: ["k1"]}}}}}),
                      "request": [{"name": "f1", "opt": {"k1": 1}}]}
    # the protected-key list of the CONSUMER does not protect (seed C15_r3 reads it from both sides)
    w["protected_wrong_side"] = {"groups": _base({"D1": {"f1": {**_feat(["a"]), "input_opt": {"a": {"k1": 2}}}}}),
                                 "request": [{"name": "f1", "opt": {"k1": 1, CHAINER: ["k1"]}}]}
    # a group key of the consumer is a context key of the input: validator error (code 4)
    w["group_vs_context"] = {"groups": _base({"D1": {"f1": {**_feat(["a"]), "input_ctx": {"a": {"k1": 1}}}}}),
                             "request": [{"name": "f1", "opt": {"k1": 1}}]}
    # ... the same with equal values: the conflict test passes, the validator of update_with_protected_keys raises (code 4)
    w["propagated_vs_group"] = {"groups": _base({"D1": {"f1": {**_feat(["a"]), "input_opt": {"a": {"c1": 7}}}}}),
                                "request": [{"name": "f1", "opt": {"k1": 1}, "ctx": {"c1": 7}, "prop": ["c1"]}]}
    # feature_chainer_parser_key of the input holds something that cannot be iterated: TypeError (code 5)
    w["chainer_not_iterable"] = {"groups": _base({"D1": {"f1": {**_feat(["a"]), "input_opt": {"a": {CHAINER: 5}}}}}),
                                 "request": [{"name": "f1", "opt": {"k1": 1}}]}
    # two failing inputs with different error classes: which one is reported depends on the iteration order of input_features()
    w["two_errors"] = {"groups": _base({"D1": {"f1": {**_feat(["a", "b"]), "input_opt": {"a": {"k1": 2}}, "input_ctx": {"b": {"k1": 1}}}}}, cols=("a", "b")),
                       "request": [{"name": "f1", "opt": {"k1": 1}}]}
    w["duplicate"] = {"groups": _base({"D1": {"f1": _feat(["a"])}}),
                      "request": [{"name": "f1", "opt": {"k1": 1}}, {"name": "f1", "opt": {"k1": 1}}]}
    # typed / untyped mix in one group: INT64, DOUBLE and an untyped feature on the same options (C15's ambiguity)
    w["typed_ambiguous"] = {"groups": _base({"D1": {"f1": _feat(["a"]), "f2": _feat(["a"]), "f3": _feat(["a"])}}),
                            "request": [{"name": "f1", "type": "INT64"}, {"name": "f2", "type": "DOUBLE"}, {"name": "f3"}]}
    w["typed_split"] = {"groups": _base({"D1": {"f1": _feat(["a"]), "f2": _feat(["a"]), "f3": _feat(["a"])}}),
                        "request": [{"name": "f1", "type": "INT64"}, {"name": "f2", "type": "INT64"}, {"name": "f3", "type": "DOUBLE"}]}
    # declared types on input edges do not propagate: ONE group, two splits that require each other (rejected: cycle)
    w["type_cycle"] = {"groups": _base({"D1": {"x": _feat(["a"]), "y": _feat(["a"]),
                                                "fx": {**_feat(["x"]), "input_type": {"x": "INT64"}},
                                                "fy": {**_feat(["y"]), "input_type": {"y": "DOUBLE"}}}}),
                       "request": [{"name": "fx", "type": "DOUBLE"}, {"name": "fy", "type": "INT64"}]}
    # propagated context key reaches the inputs (one level)
    w["propagate"] = {"groups": _base({"D1": {"f1": _feat(["a"])}, "D2": {"f2": _feat(["f1"])}}),
                      "request": [{"name": "f2", "opt": {"k1": 1}, "ctx": {"c1": 7, "c2": 8}, "prop": ["c1"]}, {"name": "f1", "opt": {"k1": 1}}]}
    # input Feature OBJECTS handed over in the options, next to a value that cannot be deep-copied; the same caller objects were
    # given to an earlier call with k1 = 1 (seed C07: the engine then works on the caller's objects and this call is rejected)
    inf = [{"name": "x", "opt": {"e": 4}}]
    w["in_features_reused"] = {"groups": _base({"D1": {"x": _feat(["a"]), "y": _feat(["a"])},
                                                "D2": {"g": {"inputs": ["x"], "c0": 0, "coefs": [1], "from_options": True}}}),
                               "request": [{"name": "g", "opt": {"k1": 2}, "inf": inf, "lock": True}],
                               "reuse_first": [{"name": "g", "opt": {"k1": 1}, "inf": inf, "lock": True}]}
    return w


# ------------------------------------------------------------------------------------------------------------
# observation
# ------------------------------------------------------------------------------------------------------------

def install_capture() -> None:
    from harness.planner_a import install_capture as ic
    ic()
    if _installed[0]:
        return
    _installed[0] = True
    from mloda.core.abstract_plugins.components.feature_collection import Features
    from mloda.core.prepare.execution_plan import ExecutionPlan
    orig_init = Features.__init__

    def __init__(self: Any, features: Any, child_options: Any = None, child_uuid: Any = None, parent_domain: Any = None) -> None:
        if child_uuid is not None and "iord" in OBS:
            OBS["iord"].append((child_uuid, [f if isinstance(f, str) else f.name.name if hasattr(f.name, "name") else str(f.name) for f in features]))
        orig_init(self, features, child_options, child_uuid, parent_domain)
    Features.__init__ = __init__  # type: ignore[method-assign]
    orig_group = ExecutionPlan.group_features_by_compute_framework_and_options

    def group_features_by_compute_framework_and_options(self: Any, features: Any) -> Any:
        if "ord0" in OBS:
            OBS["ord0"].append([f.uuid for f in features])
        return orig_group(self, features)
    ExecutionPlan.group_features_by_compute_framework_and_options = group_features_by_compute_framework_and_options  # type: ignore[method-assign]


def classify_rejection(e: BaseException) -> Optional[int]:
    msg = str(e)
    if isinstance(e, TypeError):
        return 5
    if not isinstance(e, ValueError):
        return None
    if "Execution plan is incomplete" in msg:
        return 1
    if "wait for each other in a cycle" in msg:
        return 2
    if "Duplicate key" in msg and "conflicting values" in msg:
        return 3
    if "Cannot update group" in msg or "Cannot propagate context" in msg or ("Context key" in msg and "conflict" in msg):
        return 4
    if "Duplicate feature setup" in msg:
        return 6
    return None


def _dtypes() -> List[str]:
    from mloda.core.abstract_plugins.components.data_types import DataType
    return [m.name for m in DataType]


class Tables:
    def __init__(self, spec: Dict[str, Any]) -> None:
        self.group_idx = {g["name"]: i + 1 for i, g in enumerate(spec["groups"])}
        cf = sorted({g["cfw"] for g in spec["groups"]})
        self.cfw_idx = {c: i + 1 for i, c in enumerate(cf)}
        self.dt = _dtypes()

    def ty(self, t: Optional[str]) -> str:
        return "None" if not t else f"(Some {cq_nat(self.dt.index(t))})"


TOK_INF, TOK_LOCK = "(VOpq 7%nat true)", "(VOpq 9%nat true)"


def pairs_term_o(items: Any) -> str:
    """option dictionaries; a frozenset of Feature objects under in_features and the lock are opaque hashable objects"""
    from harness.c15 import key_term, val_term
    out = []
    for k, v in items:
        if v is LOCK or v == "__LOCK__":
            t = TOK_LOCK
        elif v == "__INF__" or (isinstance(v, frozenset) and v and all(type(x).__name__ == "Feature" for x in v)):
            t = TOK_INF
        else:
            t = val_term(v)
        out.append(f"({key_term(k)}, {t})")
    return cq_list(out)


def ostate_term(group: Any, ctx: Any, prop: Any) -> str:
    from harness.c15 import keys_term
    return f"{{| og := {pairs_term_o(group)}; oc := {pairs_term_o(ctx)}; opk := {keys_term(prop)} |}}"


def options_term(o: Any) -> str:
    return ostate_term(o.group.items(), o.context.items(), o.propagate_context_keys)


def spec_opt_term(group: Optional[Dict[str, Any]], ctx: Optional[Dict[str, Any]], prop: Optional[Sequence[str]]) -> str:
    g = {k: _val(v) for k, v in (group or {}).items()}
    c = {k: _val(v) for k, v in (ctx or {}).items()}
    return ostate_term(g.items(), c.items(), list(dict.fromkeys(prop or ())))


def defs_term(spec: Dict[str, Any], t: Tables) -> str:
    """the definitions in a topological order (inputs first): what odefs_okb checks; the model looks names up, the order of the
    list means nothing to it"""
    items: Dict[str, Tuple[str, List[str]]] = {}
    for g in spec["groups"]:
        gi, ci = cq_nat(t.group_idx[g["name"]]), cq_nat(t.cfw_idx[g["cfw"]])
        if g["kind"] == "root":
            for c in g["cols"]:
                items[c] = (f"{{| od_name := {cq_str(c)}; od_grp := {gi}; od_cfw := {ci}; od_ins := [] |}}", [])
        else:
            for n, d in g["features"].items():
                if d.get("from_options"):
                    # input_features() returns the Feature objects of options[in_features]: the declaration is the request item's
                    infs = [r["inf"] for r in spec["request"] if not isinstance(r, str) and r["name"] == n and r.get("inf") is not None]
                    inf = infs[0] if infs else []
                    ins = cq_list(f"{{| oi_name := {cq_str(i['name'])}; oi_opt := {spec_opt_term(i.get('opt'), i.get('ctx'), None)}; oi_ty := None |}}" for i in inf)
                    items[n] = (f"{{| od_name := {cq_str(n)}; od_grp := {gi}; od_cfw := {ci}; od_ins := {ins} |}}", [i["name"] for i in inf])
                    continue
                ins = cq_list(f"{{| oi_name := {cq_str(i)}; oi_opt := {spec_opt_term(d.get('input_opt', {}).get(i), d.get('input_ctx', {}).get(i), d.get('input_prop', {}).get(i))}; "
                              f"oi_ty := {t.ty(d.get('input_type', {}).get(i))} |}}" for i in d["inputs"])
                items[n] = (f"{{| od_name := {cq_str(n)}; od_grp := {gi}; od_cfw := {ci}; od_ins := {ins} |}}", list(d["inputs"]))
    out, placed, todo = [], set(), list(items)
    while todo:
        ready = [n for n in todo if all(i in placed or i not in items for i in items[n][1])] or todo[:1]
        for n in ready:
            out.append(items[n][0])
            placed.add(n)
            todo.remove(n)
    return cq_list(out)


def req_term(spec: Dict[str, Any], t: Tables) -> str:
    out = []
    for r in spec["request"]:
        if isinstance(r, str):
            r = {"name": r}
        if r.get("inf") is not None:
            group = dict(r.get("opt") or {})
            if r.get("lock"):
                group["conn"] = "__LOCK__"
            group["in_features"] = "__INF__"
            out.append(f"{{| rq_name := {cq_str(r['name'])}; rq_opt := {spec_opt_term(group, r.get('ctx'), None)}; rq_ty := {t.ty(r.get('type'))} |}}")
            continue
        out.append(f"{{| rq_name := {cq_str(r['name'])}; rq_opt := {spec_opt_term(r.get('opt'), r.get('ctx'), r.get('prop'))}; rq_ty := {t.ty(r.get('type'))} |}}")
    return cq_list(out)


def feat_term(f: Any, t: Tables) -> str:
    cf = f.compute_frameworks
    cfs = "None" if cf is None else f"(Some {cq_list(sorted(cq_nat(t.cfw_idx[c.__name__]) for c in cf))})"
    child = "None" if f.child_options is None else f"(Some {options_term(f.child_options)})"
    return (f"{{| f_name := {cq_str(f.get_name())}; f_opt := {options_term(f.options)}; f_domain := None; f_cfw := {cfs}; "
            f"f_dtype := {t.ty(f.data_type.name if f.data_type else None)}; f_child := {child}; f_child_inf := None |}}")


def _nl(xs: Any) -> str:
    return cq_list(cq_nat(x) for x in xs)


def ident(f: Any) -> str:
    """uuid-free description of a Feature object (for signatures across preparations)"""
    def rv(v: Any) -> str:
        if v is LOCK:
            return "<lock>"
        if isinstance(v, frozenset) and v and all(type(x).__name__ == "Feature" for x in v):
            return "<features " + ",".join(sorted(x.get_name() for x in v)) + ">"
        return repr(v)

    def d(x: Any) -> str:
        return json.dumps(sorted((str(k), rv(v)) for k, v in x.items()))
    return f"{f.get_name()}|{d(f.options.group)}|{d(f.options.context)}|{f.data_type.name if f.data_type else None}|" \
           f"{None if f.child_options is None else d(f.child_options.group)}"


def observe(spec: Dict[str, Any], keep_session: bool = False) -> Dict[str, Any]:
    """Run the real prepare; returns {"term": Coq ocase, "outcome", "sig", "nodes", "steps", ...} or {"error": ...}."""
    from harness.orch import LAST
    from harness.planner_a import CAP
    from mloda.core.core.step.feature_group_step import FeatureGroupStep
    install_capture()
    LAST.pop("graph", None)
    CAP.clear()
    OBS.clear()
    OBS["iord"] = []
    OBS["ord0"] = []
    t = Tables(spec)
    uni = make_universe(spec)
    head = f"oc_defs := {defs_term(spec, t)}; oc_req := {req_term(spec, t)}"
    if spec.get("reuse_first"):
        # ANOTHER call made first with the same caller objects (the nested in_features Feature objects are shared): by default
        # mloda works on copies, so the call that is observed must behave as if it were the first
        uni.request_override = spec["reuse_first"]
        try:
            uni.prepare()
        except Exception:  # noqa: BLE001
            pass
        uni.request_override = None
        LAST.pop("graph", None)
        CAP.clear()
        OBS["iord"] = []
        OBS["ord0"] = []
    try:
        sess = None
        outcome = 0
        exc = None
        try:
            sess = uni.prepare()
        except Exception as e:  # noqa: BLE001
            code = classify_rejection(e)
            if code is None:
                return {"error": f"prepare raised {type(e).__name__}: {str(e)[:200]}"}
            outcome = code
            exc = f"{type(e).__name__}: {str(e)[:160]}"
        eng = CAP.get("engine")
        if outcome >= 3:
            # rejected while the graph was built: only the input orders seen so far are handed to the model
            pos: Dict[Any, int] = {u: k for k, u in enumerate(eng.feature_link_parents.keys())} if eng is not None else {}
            iord = [(pos[u], names) for u, names in OBS["iord"] if u in pos]
            term = (f"{{| {head}; oc_iord := {cq_list('(' + cq_nat(k) + ', ' + cq_list(cq_str(n) for n in names) + ')' for k, names in iord)}; "
                    f"oc_x := []; oc_ord0 := []; oc_queue := []; oc_p2c := []; oc_plan := []; oc_outcome := {cq_nat(outcome)} |}}")
            return {"term": term, "outcome": outcome, "sig": f"rejected:{outcome}", "nodes": 0, "steps": 0, "exc": exc, "splits": 0, "instances": 0}
        graph = LAST.get("graph")
        ep = CAP.get("ep")
        if graph is None or eng is None or ep is None or not hasattr(ep, "execution_plan"):
            return {"error": "feature graph / execution plan of the preparation not observed"}
        nodes = graph.get_nodes()
        pos = {u: k for k, u in enumerate(eng.feature_link_parents.keys())}
        xs = []
        for u, parents in eng.feature_link_parents.items():
            np_ = nodes[u]
            f = np_.feature
            cf = f.compute_frameworks
            if cf is None or len(cf) != 1:
                return {"error": f"feature {f.get_name()} has compute frameworks {cf}"}
            if any(p not in pos for p in parents):
                return {"error": f"feature {f.get_name()} has a parent that is not a key of feature_link_parents"}
            xs.append(f"{{| xf := {feat_term(f, t)}; xgrp := {cq_nat(t.group_idx[uni.group_display(np_.feature_group_class)])}; "
                      f"xcfw := {cq_nat(t.cfw_idx[next(iter(cf)).__name__])}; xreq := {cq_bool(bool(f.initial_requested_data))}; "
                      f"xins := {_nl(pos[p] for p in parents)} |}}")
        iord = [(pos[u], names) for u, names in OBS["iord"] if u in pos]
        ord0 = [[pos[u] for u in l] for l in OBS["ord0"]]
        queue = [pos[u] for u in graph.queue]
        p2c = [(pos[c], sorted(pos[p] for p in ps)) for c, ps in graph.parent_to_children_mapping.items() if ps]
        plan = []
        sig = []
        inst = set()
        for st in ep.execution_plan:
            if not isinstance(st, FeatureGroupStep):
                return {"error": f"plan contains a {type(st).__name__}"}
            feats = list(st.features.features)
            plan.append((sorted(pos[f.uuid] for f in feats), sorted(pos[u] for u in st.required_uuids),
                         any(f.initial_requested_data for f in feats), sorted(pos[u] for u in st.children_if_root)))
            sig.append((sorted(ident(f) for f in feats), sorted(ident(nodes[u].feature) for u in st.required_uuids)))
        for u in pos:
            f = nodes[u].feature
            inst.add((f.get_name(), ident(f).split("|")[1]))
        term = (f"{{| {head}; oc_iord := {cq_list('(' + cq_nat(k) + ', ' + cq_list(cq_str(n) for n in names) + ')' for k, names in iord)}; "
                f"oc_x := {cq_list(xs)}; oc_ord0 := {cq_list(_nl(l) for l in ord0)}; oc_queue := {_nl(queue)}; "
                f"oc_p2c := {cq_list('(' + cq_nat(c) + ', ' + _nl(ps) + ')' for c, ps in p2c)}; "
                f"oc_plan := {cq_list('(' + _nl(us) + ', ' + _nl(rq) + ', ' + cq_bool(rqd) + ', ' + _nl(cir) + ')' for us, rq, rqd, cir in plan)}; "
                f"oc_outcome := {cq_nat(outcome)} |}}")
        out: Dict[str, Any] = {"term": term, "outcome": outcome, "sig": json.dumps([outcome, sorted(sig)]), "nodes": len(pos), "steps": len(plan),
                               "exc": exc, "splits": len(plan), "instances": len(inst),
                               "names": len({n for n, _ in inst})}
        if keep_session and sess is not None:
            out["session"] = sess
            out["uni"] = uni
            out["graph"] = [(nodes[u].feature, [p for p in parents]) for u, parents in eng.feature_link_parents.items()]
            out["pos"] = pos
        return out
    finally:
        if not keep_session:
            uni.dispose()


def observe_subprocess(specs: List[Dict[str, Any]], hash_seed: int, workdir: Any) -> List[Dict[str, Any]]:
    workdir.mkdir(parents=True, exist_ok=True)
    f = workdir / f"specs_{hash_seed}.json"
    f.write_text(json.dumps(specs))
    env = dict(os.environ, PYTHONHASHSEED=str(hash_seed))
    env["PYTHONPATH"] = f"{vlib.REPO}:{vlib.VERIF}"
    p = subprocess.run([vlib.PY, "-m", "harness.planner_o", "--observe", str(f)], env=env, cwd=str(vlib.VERIF),
                       stdout=subprocess.PIPE, stderr=subprocess.PIPE, text=True, timeout=3600)
    if p.returncode != 0:
        raise RuntimeError(f"observation subprocess (hash seed {hash_seed}) failed:\n{p.stderr[-2000:]}")
    return json.loads(p.stdout)


# ------------------------------------------------------------------------------------------------------------
# SYNC runs: values per option instance against Spec/RefEval.ref_eval
# ------------------------------------------------------------------------------------------------------------

def run_values(spec: Dict[str, Any], o: Dict[str, Any], timeout: float = 15.0) -> Dict[str, Any]:
    """Run the accepted session; returns {"status", "term" (C02 chk_values case over the observed instance graph) | "what"}."""
    from harness.orch import run_observed
    from harness.universe import columns_of, column_values
    from harness.c02 import norm, cq_col
    sess, graph, pos = o["session"], o["graph"], o["pos"]
    defs = {n: d for g in spec["groups"] if g["kind"] == "derived" for n, d in g["features"].items()}
    root = spec["groups"][0]
    n_rows = len(next(iter(root["cols"].values())))
    # merge-free?  every root instance is its own data object; a derived feature is computed on the object of its inputs, which
    # must be ONE object (two option instances of the root inside one consumer would need a Link: outside the fragment)
    obj: Dict[int, Optional[int]] = {}

    def obj_of(k: int) -> Optional[int]:
        if k not in obj:
            f, parents = graph[k]
            if f.get_name() in root["cols"]:
                # root instances with equal group options are computed by one step on one object
                obj[k] = min(j for j, (f2, _) in enumerate(graph) if f2.get_name() in root["cols"] and f2.options.group == f.options.group)
            else:
                os_ = {obj_of(pos[p]) for p in parents}
                obj[k] = next(iter(os_)) if (len(os_) == 1 and None not in os_) else None
        return obj[k]
    if any(obj_of(k) is None for k in range(len(graph))):
        return {"status": "skipped", "what": "a consumer reads two option instances of the root (needs a Link)"}
    from mloda.core.core.step.feature_group_step import FeatureGroupStep as _FGS
    written: Dict[Tuple[Optional[int], str], int] = {}
    for si, st in enumerate(sess.engine.execution_planner):
        # one step works on ONE object: features of one split whose inputs live on different root instances would need a Link too
        if isinstance(st, _FGS) and len({obj_of(pos[f.uuid]) for f in st.features.features}) != 1:
            return {"status": "skipped", "what": "the features of one step live on different data objects (needs a Link)"}
        # two option instances of one name computed by two steps on ONE object (an option added on an input edge that the
        # consumer already carries) give two columns of that name on one table: outside the fragment of the value check
        if isinstance(st, _FGS):
            for f in st.features.features:
                if f.get_name() not in root["cols"] and written.setdefault((obj_of(pos[f.uuid]), f.get_name()), si) != si:
                    return {"status": "skipped", "what": "two steps write a column of the same name on one data object"}
    r = run_observed(sess, timeout=timeout)
    if r["status"] != "ok":
        return {"status": r["status"], "what": f"SYNC run of an accepted O-fragment plan: {r['status']} ({str(r.get('exc'))[-200:]})"}
    # the instance graph as observed (validated against the model by chk_request_O): node k = Feature k
    src, fdefs = [], {}
    for k, (f, parents) in enumerate(graph):
        name = f.get_name()
        if name in root["cols"]:
            off = opt_offset(dict(f.options.group))
            src.append(f"({cq_nat(k)}, {cq_col([None if x is None else x + off for x in root['cols'][name]])})")
        else:
            d = defs[name]
            by_name = {graph[pos[p]][0].get_name(): pos[p] for p in parents}
            fdefs[k] = (f"{{| fname := {cq_nat(k)}; inputs := {cq_list(cq_nat(by_name[i]) for i in d['inputs'])}; c0 := {cq_z(d['c0'])}; "
                        f"coefs := {cq_list(cq_z(c) for c in d['coefs'])} |}}", [by_name[i] for i in d["inputs"]])
    placed: List[int] = []
    todo = list(fdefs)
    while todo:
        ready = [k for k in todo if all((i not in fdefs) or (i in placed) for i in fdefs[k][1])] or todo[:1]
        for k in ready:
            placed.append(k)
            todo.remove(k)
    # expected: per requested NAME the columns of the steps that return it.  A step returns one column per requested name;
    # requested instances of one name inside one step have the same group options, hence the same reference values.
    from mloda.core.core.step.feature_group_step import FeatureGroupStep
    want: Dict[str, List[int]] = {}
    for st in sess.engine.execution_planner:
        if isinstance(st, FeatureGroupStep):
            seen = set()
            for f in st.features.features:
                if f.initial_requested_data and f.get_name() not in seen:
                    seen.add(f.get_name())
                    want.setdefault(f.get_name(), []).append(pos[f.uuid])
    got: Dict[str, List[List[Optional[int]]]] = {}
    for tb in r["result"]:
        for c in columns_of(tb):
            got.setdefault(c, []).append([norm(v) for v in column_values(tb, c)])
    if sorted(got) != sorted(want) or any(len(got[c]) != len(want[c]) for c in want):
        return {"status": "shape", "what": "returned columns per name " + json.dumps({c: len(v) for c, v in got.items()}) +
                ", expected one per step and requested name: " + json.dumps({c: len(v) for c, v in want.items()})}
    return {"status": "ok", "head": f"({cq_nat(n_rows)}, {cq_list(src)}, {cq_list(fdefs[k][0] for k in placed)})", "want": want, "got": got}


EXTRA_VALUES = """
Definition col_in (c : column) (l : list column) : bool := existsb (col_eqb c) l.
(* per requested name: the returned columns and the reference columns of the instances are the same multiset *)
Fixpoint remove_col (c : column) (l : list column) : option (list column) :=
  match l with [] => None | x :: t => if col_eqb c x then Some t else option_map (cons x) (remove_col c t) end.
Fixpoint multiset_eq (a b : list column) : bool :=
  match a with [] => match b with [] => true | _ => false end
  | x :: t => match remove_col x b with Some b' => multiset_eq t b' | None => false end end.
Definition chk_values_O (c : (nat * env * list fdef) * list (list nat * list column)) : bool :=
  match c with ((n, src, defs), obs) =>
    let e := ref_eval n src defs in
    wf_request src defs && solution n src defs e &&
    forallb (fun kv => match seq_opt_cols (map (lookup e) (fst kv)) with Some exp => multiset_eq exp (snd kv) | None => false end) obs end.
"""
EXTRA_VALUES_PRE = """
Fixpoint seq_opt_cols (l : list (option column)) : option (list column) :=
  match l with [] => Some [] | None :: _ => None | Some x :: t => match seq_opt_cols t with Some r => Some (x :: r) | None => None end end.
"""


# ------------------------------------------------------------------------------------------------------------
# the check
# ------------------------------------------------------------------------------------------------------------

def check_plans(specs: List[Dict[str, Any]], rep_prefix: str, hash_seeds: Sequence[int] = (1,), in_process: int = 1,
                run_specs: Optional[List[Dict[str, Any]]] = None, run_timeout: float = 15.0) -> List[Dict[str, Any]]:
    """Disagreements between the real planner and the model on the O-fragment specs among `specs` (+ run_specs, which are
    additionally RUN in SYNC and judged per option instance).  A disagreement: {"spec", "stage", "what", "run"}; stage
    "determinism" with "known": KF_AMBIGUOUS marks a difference between preparations inside the recorded ambiguity domain."""
    logging.disable(logging.CRITICAL)
    from harness.c02 import cq_col
    out: List[Dict[str, Any]] = []
    run_specs = run_specs or []
    frag = [s for s in specs if in_fragment(s)] + [s for s in run_specs if in_fragment(s)]
    n_plain = len(frag) - len([s for s in run_specs if in_fragment(s)])
    runs: List[Tuple[str, List[Dict[str, Any]]]] = []
    first = [observe(s, keep_session=(k >= n_plain)) for k, s in enumerate(frag)]
    runs.append(("in-process", first))
    for j in range(1, in_process):
        runs.append((f"in-process#{j + 1}", [observe(s) for s in frag]))
    for hs in hash_seeds:
        runs.append((f"PYTHONHASHSEED={hs}", observe_subprocess(frag, hs, vlib.BUILD / rep_prefix / "planO_sub")))
    terms: List[str] = []
    origin: List[Tuple[int, str]] = []
    for rname, obs in runs:
        for k, o in enumerate(obs):
            if "error" in o:
                out.append({"spec": frag[k], "stage": "observe", "run": rname,
                            "what": o["error"] + " (the model: an O-fragment request is planned with feature-group steps only, or rejected "
                                                 "with one of the modelled error classes)"})
                continue
            terms.append(o["term"])
            origin.append((k, rname))
    info: Dict[str, Any] = {"specs": len(specs) + len(run_specs), "in_fragment": len(frag), "preparations": sum(len(o) for _, o in runs),
                            "compared": len(terms), "hash_seeds": list(hash_seeds)}
    amb_specs: set = set()
    if terms:
        def failing(name: str, checker: str, ts: List[str] = terms) -> List[int]:
            return vlib.run_cases(rep_prefix, name, REQ, checker, ts, case_type="ocase", shard=25)[0]
        bad_any, ci = vlib.run_cases(rep_prefix, "planO_all", REQ, "chk_everything_O", terms, case_type="ocase", shard=25)
        info["coq"] = ci
        amb = set(range(len(terms))) - set(failing("planO_amb", "model_amb_O"))
        plain = set(range(len(terms))) - set(failing("planO_plain", "model_plain_O"))
        amb_specs = {origin[k][0] for k in amb}
        bad, bad_ro, bad_rp, bad_cov, bad_st, bad_iff, bad_hyp = [], [], [], [], [], [], []
        if bad_any:
            # diagnosis, on the failing cases only
            sub_any = [terms[k] for k in bad_any]

            def failing_of(name: str, checker: str) -> List[int]:
                return [bad_any[j] for j in failing(name, checker, sub_any)]
            bad = failing_of("planO_planner", "chk_planner_O")
            bad_ro = failing_of("planO_reqout", "chk_request_outcome_O")
            bad_rp = failing_of("planO_reqplan", "chk_request_plan_O")
            bad_cov = failing_of("planO_cov", "model_req_covers_O")
            bad_st = failing_of("planO_struct", "model_struct_O")
            bad_iff = failing_of("planO_iff", "model_accept_iff_wf_O")
            bad_hyp = failing_of("planO_hyps", "model_hyps_O")
        stage_of: Dict[int, str] = {}
        if bad:
            sub = [terms[k] for k in bad]
            for stage in STAGES:
                for j in failing("planO_diag", stage, sub):
                    stage_of.setdefault(bad[j], stage)
        for k in bad:
            si, rname = origin[k]
            o = dict(runs)[rname][si]
            out.append({"spec": frag[si], "stage": stage_of.get(k, "chk_planner_O"), "run": rname,
                        "what": f"real planner and planner-O model differ at {stage_of.get(k, '?')} (real prepare: {OUTCOME.get(o['outcome'])}"
                                f"{'; ' + o['exc'] if o.get('exc') else ''}; {o['nodes']} graph nodes, {o['steps']} steps)"})
        for name, lst, what in (("chk_request_outcome_O", bad_ro, "the request alone (canonical orders) decides otherwise than the real prepare"),
                                ("chk_request_plan_O", bad_rp, "the plan computed from the request alone (canonical orders) has another number of steps / another "
                                                               "outcome although the request is outside kf_ambiguous_O"),
                                ("model_req_covers_O", bad_cov, "model plan does not require the ancestor closure (contradicts PlannerO_plan_req_covers)"),
                                ("model_struct_O", bad_st, "model plan violates wf_struct (contradicts PlannerO_plan_struct)"),
                                ("model_accept_iff_wf_O", bad_iff, "model accepts a plan that is not well formed or rejects a well-formed one"),
                                ("model_hyps_O", bad_hyp, "the generated request does not satisfy the hypotheses of the request-level theorems "
                                                          "(odefs_okb / decl_okb / one_cfwb)")):
            for k in lst:
                if k in bad:
                    continue
                si, rname = origin[k]
                o = dict(runs)[rname][si]
                if name == "chk_request_outcome_O" and o["outcome"] >= 3:
                    # which of several failing merges raises first depends on the observed input order: the class may differ from
                    # the canonical-order class only if both are rejections of the graph stage
                    pass
                out.append({"spec": frag[si], "stage": name, "run": rname, "what": what + f" (real prepare: {OUTCOME.get(o['outcome'])})"})
        info["ambiguous_domain"] = len(amb)
        info["plain_A_fragment"] = len(plain)
    # determinism across preparations (the property itself): one canonical signature per spec
    n_nondet = 0
    for k, s in enumerate(frag):
        sigs = {rname: obs[k].get("sig") for rname, obs in runs if "error" not in obs[k]}
        if len(set(sigs.values())) > 1:
            n_nondet += 1
            outs = sorted({json.loads(v)[0] if v and v.startswith("[") else v for v in sigs.values()}, key=str)
            known = None
            if all(isinstance(x, str) and x in ("rejected:3", "rejected:4", "rejected:5") for x in outs):
                known = KF_ERRCLASS
            elif k in amb_specs and all(x in (0, 2) for x in outs):     # the plan of a rejected request is observed too
                known = KF_AMBIGUOUS
            out.append({"spec": s, "stage": "determinism", "run": "all", "known": known,
                        "what": f"preparing the same O-fragment request gives different plans / outcomes between preparations ({outs}); "
                                + ("inside kf_ambiguous_O (an untyped feature next to typed features of two types: PlannerO_share_iff_refuted)"
                                   if known == KF_AMBIGUOUS else
                                   "every preparation is rejected while the graph is built, with different errors (two inputs fail in "
                                   "different ways: PlannerO_error_class_refuted)" if known == KF_ERRCLASS else
                                   "outside kf_ambiguous_O: contradicts PlannerO_plan_deterministic_partial"),
                        "sigs": sigs})
    info["nondeterministic"] = n_nondet
    # SYNC runs of the run sample
    n_run, n_skip, val_terms, val_idx = 0, 0, [], []
    for k in range(n_plain, len(frag)):
        o = first[k]
        if "error" in o or o.get("outcome") != 0 or "session" not in o:
            continue
        n_run += 1
        try:
            rv = run_values(frag[k], o, timeout=run_timeout)
        finally:
            o["uni"].dispose()
        if rv["status"] == "skipped":
            n_skip += 1
            continue
        if rv["status"] != "ok":
            out.append({"spec": frag[k], "stage": "run", "run": "in-process", "what": rv["what"]})
            continue
        obs_t = cq_list(f"({_nl(rv['want'][c])}, {cq_list(cq_col(col) for col in rv['got'][c])})" for c in sorted(rv["want"]))
        val_terms.append(f"({rv['head']}, {obs_t})")
        val_idx.append(k)
    if val_terms:
        from harness.c02 import REQ as REQ2, EXTRA
        badv, vi = vlib.run_cases(rep_prefix, "planO_values", REQ2, "chk_values_O", val_terms, extra_defs=EXTRA_VALUES_PRE + EXTRA + EXTRA_VALUES,
                                  case_type="(nat * env * list fdef) * list (list nat * list column)", shard=60)
        info["coq_values"] = vi
        for j in badv:
            out.append({"spec": frag[val_idx[j]], "stage": "values", "run": "in-process",
                        "what": "SYNC run: the returned columns differ from the reference evaluation of the requested option instances "
                                "(ref_eval over the observed instance graph)"})
    for k in range(n_plain, len(frag)):
        first[k].pop("session", None)
        first[k].pop("uni", None)
        first[k].pop("graph", None)
    info["runs"] = n_run - n_skip
    info["run_skipped_not_merge_free"] = n_skip
    info["values_compared"] = len(val_terms)
    oc: Dict[str, int] = {}
    for o in first:
        if "error" not in o:
            oc[OUTCOME.get(o["outcome"], str(o["outcome"]))] = oc.get(OUTCOME.get(o["outcome"], str(o["outcome"])), 0) + 1
    info["outcomes"] = oc
    acc = [o for o in first if "error" not in o and o["outcome"] == 0]
    info["multi_instance_names"] = sum(1 for o in acc if o.get("instances", 0) > o.get("names", 0))
    info["max_nodes"] = max([o["nodes"] for o in acc] or [0])
    info["disagreements"] = len(out)
    LAST_INFO.clear()
    LAST_INFO.update(info)
    return out


def judge(spec: Dict[str, Any], n: int = 6, timeout: float = 15.0) -> Optional[Dict[str, Any]]:
    """Search for a failure of C04 / C02 themselves on one O-fragment request: different outcomes or plans between preparations
    (outside the two recorded domains this is decided by the caller), an accepted plan that does not return, returned values that
    differ from the reference evaluation of the option instances."""
    obs = [observe(spec, keep_session=(j == 0)) for j in range(n)]
    try:
        sigs = sorted({o.get("sig", o.get("error")) for o in obs}, key=str)
        if len(sigs) > 1:
            return {"kind": "det", "signatures": [str(x)[:300] for x in sigs[:3]]}
        if spec.get("reuse_first"):
            # the same request from FRESH objects, no earlier call: must plan alike (the caller's objects are left alone)
            fresh = observe({k: v for k, v in spec.items() if k != "reuse_first"})
            if fresh.get("sig", fresh.get("error")) != sigs[0]:
                return {"kind": "reuse", "after_an_earlier_call_with_the_same_objects": str(sigs[0])[:200],
                        "with_fresh_objects": str(fresh.get("sig", fresh.get("error")))[:200]}
        o = obs[0]
        if "error" not in o and o.get("outcome") == 0 and "session" in o:
            rv = run_values(spec, o, timeout=timeout)
            if rv["status"] == "ok":
                from harness.c02 import REQ as REQ2, EXTRA, cq_col
                obs_t = cq_list(f"({_nl(rv['want'][c])}, {cq_list(cq_col(col) for col in rv['got'][c])})" for c in sorted(rv["want"]))
                badv, _ = vlib.run_cases("PlannerO", "judge_values", REQ2, "chk_values_O", [f"({rv['head']}, {obs_t})"],
                                         extra_defs=EXTRA_VALUES_PRE + EXTRA + EXTRA_VALUES,
                                         case_type="(nat * env * list fdef) * list (list nat * list column)")
                if badv:
                    return {"kind": "values", "returned": {c: v for c, v in rv["got"].items()}}
            elif rv["status"] not in ("skipped",):
                return {"kind": "run", "what": rv["what"][:300]}
        return None
    finally:
        for o in obs:
            if "uni" in o:
                o["uni"].dispose()


def main(argv: List[str]) -> int:
    if len(argv) > 2 and argv[1] == "--observe":
        logging.disable(logging.CRITICAL)
        specs = json.load(open(argv[2]))
        print(json.dumps([{k: v for k, v in observe(s).items()} for s in specs]))
        return 0
    n = int(argv[1]) if len(argv) > 1 else 100
    seed = int(argv[2]) if len(argv) > 2 else 0
    n_run = int(argv[3]) if len(argv) > 3 else 20
    rng = random.Random(seed)
    specs = list(witness_specs().values()) + [gen_any(rng) for _ in range(n)]
    pr = vlib.build_props("PlannerO")
    print("Props/PlannerO.v:", "ok" if pr.ok else "BROKEN", f"{pr.discharged}/{pr.obligations} statements,", sorted(set(pr.assumptions)))
    dis = check_plans(specs, "PlannerO", hash_seeds=(1, 2), run_specs=[gen_o_run(rng) for _ in range(n_run)], run_timeout=8.0)
    print({k: v for k, v in LAST_INFO.items() if k not in ("coq", "coq_values")})
    for d in dis[:12]:
        print("DISAGREEMENT" if not d.get("known") else "KNOWN", d["stage"], d.get("run"), d["what"][:400], json.dumps(d["spec"])[:700])
    return 1 if ([d for d in dis if not d.get("known")] or not pr.ok) else 0


if __name__ == "__main__":
    sys.exit(main(sys.argv))
