"""C09 family "re-run sessions in MULTIPROCESSING": ONE prepared session is run 2-4 times (run / stream drained / stream abandoned
after its first item / run with a failing calculation, in PRNG mixes) against ONE long-lived Arrow Flight server; after every call
the keys of the store are listed.

Model: coq/Model/FlightKeys.v (theorems: Props/C09.v, C09_swept_run_leaves_nothing ... C09_rerun_checker_sound).  The identity of the
dataset keys is what this family is about: the objects of feature-group steps get uuid4() keys, the object of a
TransformFrameworkStep gets the uuid OF THE STEP, and a prepared session deep-copies one and the same plan for every run -> that key
repeats in every run of the session.  The end-of-run sweep (_drop_uploaded_datasets) has to remove it every time.

Observation without source hooks: class-level wrappers around the two static client helpers FlightServer.upload_table /
FlightServer.drop_tables, installed in the harness process and inherited by the forked workers; every call appends one JSON line
(process id, REQUESTED keys, outcome) to an O_APPEND file *after* the server has answered, so the lines of all processes are in the
order the server saw the requests.  What the helper does with the request is the implementation's business - the model says what
the store must hold afterwards.

Judged directly: no key that was not in the store before the session is in it after ANY call of the session; no worker / manager
process is left.  Replayed in Coq (chk_rerun): (i) every observed key is a plan-derived key of the session's plan (a transform
step's uuid) or a key that occurs in exactly one run; (ii) workers touch only keys of objects the sweep knows; (iii) the store
listed after every call is the model's store after that many runs (client CDirect); (iv) after a swept run none of its keys is
listed.  which_client tells whether a deviating observation is the memoising client of C09_memoising_sweep_refuted.
"""
from __future__ import annotations

import json
import logging
import multiprocessing
import os
import random
import time
from typing import Any, Dict, List, Optional, Set, Tuple

from lib import vlib
from lib.vlib import cq_list, cq_nat
from harness import mp_obs
from harness.universe import Universe, Listener, export_plan
from harness.orch import cq_plan, flight_server, flight_keys

REQ = ["MV.Model.Orch", "MV.Model.Worker", "MV.Model.Session", "MV.Model.FlightKeys"]
OPS = ("run", "stream", "abandon", "fail")
_SINK: Dict[str, Optional[mp_obs.Sink]] = {"s": None}
_installed = [False]
STATS: Dict[str, int] = {"stalled_sessions_reobserved": 0}


def _emit(obj: Dict[str, Any]) -> None:
    s = _SINK["s"]
    if s is not None:
        try:
            s.write(obj)
        except Exception:  # noqa: BLE001
            pass


def _k(x: Any) -> str:
    return x.decode() if isinstance(x, bytes) else str(x)


def install() -> None:
    """Wrap the two client helpers (pass-through; inert while no session of this family is observed)."""
    if _installed[0]:
        return
    _installed[0] = True
    from mloda.core.runtime.flight.flight_server import FlightServer
    o_up, o_drop = FlightServer.upload_table, FlightServer.drop_tables

    def upload_table(location: str, table: Any, table_key: str) -> Any:
        try:
            r = o_up(location, table, table_key)
        except BaseException:
            _emit({"ev": "up", "key": _k(table_key), "ok": False})
            raise
        _emit({"ev": "up", "key": _k(table_key), "ok": True})
        return r

    def drop_tables(location: str, table_key: Any) -> Any:
        try:
            keys = sorted(_k(x) for x in table_key)
        except Exception:  # noqa: BLE001
            keys = []
        try:
            r = o_drop(location, table_key)
        except BaseException:
            _emit({"ev": "drop", "keys": keys, "ok": False})
            raise
        _emit({"ev": "drop", "keys": keys, "ok": True})
        return r
    FlightServer.upload_table = staticmethod(upload_table)  # type: ignore[method-assign]
    FlightServer.drop_tables = staticmethod(drop_tables)  # type: ignore[method-assign]


def _scratch() -> str:
    d = str(vlib.BUILD / "c09_rerun")
    os.makedirs(d, exist_ok=True)
    return d


# ------------------------------------------------------------------------------------------------------------
# generation
# ------------------------------------------------------------------------------------------------------------
def has_tfs(plan: Dict[str, Any]) -> bool:
    return any(s["kind"] == "TFS" for s in plan["steps"])


def gen_sessions(rng: random.Random, n_tfs: int, n_plain: int) -> Tuple[List[Dict[str, Any]], Dict[str, int]]:
    """Requests with a framework change (a transform step in the plan) and without, each with a mix of 2-4 operations.  Only plans
    outside the recorded planner-defect domains are used (python mirror of Model/PlanDefects.v: a SELECTION of inputs, not a verdict)
    and only link-free ones (a joined plan has further plan-derived uuids; kept out to keep the runs quick)."""
    from harness import planner_b
    out: List[Dict[str, Any]] = []
    stats = {"generated": 0, "rejected_prepare": 0, "skipped_defect_domain": 0, "skipped_kind": 0}
    want = {"tfs": n_tfs, "plain": n_plain}
    while (want["tfs"] > 0 or want["plain"] > 0) and stats["generated"] < 60 * (n_tfs + n_plain + 1):
        stats["generated"] += 1
        r = rng.random()
        if want["plain"] > 0 and (want["tfs"] == 0 or r < 0.3):
            spec = planner_b.gen_chain(rng, 1) if rng.random() < 0.6 else planner_b.gen_fanin(rng, 1)
        elif r < 0.55:
            spec = planner_b.gen_chain(rng, 2 if rng.random() < 0.7 else 3)
        elif r < 0.8:
            spec = planner_b.gen_fanin(rng, 2)
        else:
            spec = planner_b.gen_shared(rng, 2)
        uni = Universe(spec, Listener())
        try:
            plan = export_plan(uni.prepare(), uni)
        except Exception:  # noqa: BLE001
            stats["rejected_prepare"] += 1
            uni.dispose()
            continue
        uni.dispose()
        if planner_b.python_classify(plan):
            stats["skipped_defect_domain"] += 1
            continue
        kind = "tfs" if has_tfs(plan) else "plain"
        if want[kind] <= 0:
            stats["skipped_kind"] += 1
            continue
        want[kind] -= 1
        first = len([s for s in out if s["kind"] == kind]) == 0
        n_ops = 3 if first else rng.choice([2, 3, 3, 4])
        # at least two calls that run to the end (a key can only repeat when two calls reach the transform step), the rest any mix
        ops = ["run", "run", "stream"] if first else [rng.choice(("abandon", "fail", "abandon", "fail", "run", "stream")) for _ in range(n_ops)]
        if not first:
            for pos in rng.sample(range(n_ops), 2):
                if ops[pos] not in ("run", "stream"):
                    ops[pos] = rng.choice(("run", "stream"))
        fg = [s for s in plan["steps"] if s["kind"] == "FG"]
        f = rng.choice(fg)
        out.append({"spec": spec, "ops": ops, "fail": [f["group"], f["names"][0]], "kind": kind})
    return out, stats


# ------------------------------------------------------------------------------------------------------------
# observation
# ------------------------------------------------------------------------------------------------------------
def _purge(keys: Set[Any]) -> None:
    if not keys:
        return
    import pyarrow.flight as fl
    try:
        with fl.FlightClient(flight_server().get_location()) as client:
            for key in keys:
                for _ in client.do_action(fl.Action("drop_table", key if isinstance(key, bytes) else str(key).encode("utf-8"))):
                    pass
    except Exception:  # noqa: BLE001
        pass


def _observe_once(case: Dict[str, Any], timeout: float) -> Dict[str, Any]:
    from mloda.user import ParallelizationMode
    from mloda.core.core.step.transform_frame_work_step import TransformFrameworkStep
    install()
    logging.disable(logging.CRITICAL)
    spec, ops = case["spec"], list(case["ops"])
    uni = Universe(spec, Listener())
    sess = uni.prepare()
    plan = export_plan(sess, uni)
    ren = {str(u): n for u, n in plan["_ren"].items()}
    tfs_uuids = sorted(str(st.uuid) for st in sess.engine.execution_planner if isinstance(st, TransformFrameworkStep))
    fs = flight_server()
    main_pid = os.getpid()
    store0 = {_k(x) for x in flight_keys()}
    sink = mp_obs.Sink(os.path.join(_scratch(), f"events_{main_pid}.jsonl"))
    modes = {ParallelizationMode.MULTIPROCESSING}
    runs: List[Dict[str, Any]] = []
    stalled = False
    for op in ops:
        sink.reset()
        _SINK["s"] = sink
        if op == "fail":
            uni.fail.add((case["fail"][0], case["fail"][1]))

        def call(op: str = op) -> Any:
            if op in ("run", "fail"):
                return len(sess.run(parallelization_modes=modes, flight_server=fs))
            if op == "stream":
                return len(list(sess.stream_run(parallelization_modes=modes, flight_server=fs)))
            g = sess.stream_run(parallelization_modes=modes, flight_server=fs)
            try:
                next(g)
            except StopIteration:
                pass
            g.close()
            return 0
        t0 = time.time()
        status, val = mp_obs.watchdog(call, timeout)
        _SINK["s"] = None
        uni.fail.clear()
        left_procs = mp_obs.stray_children(2.0) if status != "hang" else []
        keys_after = {_k(x) for x in flight_keys()}
        r = {"op": op, "status": status, "exc": (f"{type(val).__name__}: {str(val)[-160:]}" if status == "raised" else None),
             "wall": round(time.time() - t0, 3), "events": sink.read(), "keys_after": sorted(keys_after), "procs_left": len(left_procs)}
        runs.append(r)
        if status == "hang" or left_procs:
            mp_obs.kill_stray_children()
        if status == "hang":
            stalled = True
            break
    sink.reset()
    _purge({k for r in runs for k in r["keys_after"]} - store0)        # later families start from the store this one found
    uni.dispose()
    return {"spec": spec, "ops": ops, "fail": case["fail"], "kind": case.get("kind"), "plan": plan, "ren": ren, "tfs_uuids": tfs_uuids,
            "store0": sorted(store0), "runs": runs, "stalled": stalled, "main_pid": main_pid}


def observe_session(case: Dict[str, Any], timeout: float = 40.0) -> Dict[str, Any]:
    """One prepared session, its operations one after the other.  A session in which a call does not return within the watchdog is
    abandoned (its processes are killed, what it left in the store is removed) and observed ONCE more from a new prepare - the
    re-observation policy of harness/orch.py for MULTIPROCESSING runs that stall on a loaded machine; two stalls in a row are
    reported.  The number of re-observed sessions goes into the evidence."""
    ob = _observe_once(case, timeout)
    if ob["stalled"]:
        STATS["stalled_sessions_reobserved"] += 1
        ob = _observe_once(case, timeout)
        ob["reobserved"] = True
    return ob


# ------------------------------------------------------------------------------------------------------------
# canonical key history -> Coq
# ------------------------------------------------------------------------------------------------------------
class Namer:
    """store keys -> nat: a key that is the uuid of something in the session's plan keeps the plan's number (so that the model's
    stable_keys recognises transform-step uuids), keys present before the session get 2000.., all others 1000.. by first
    appearance.  The same key always gets the same number: repetition across runs is visible to the model."""

    def __init__(self, ren: Dict[str, int], store0: List[str]) -> None:
        self.m: Dict[str, int] = dict(ren)
        for i, k in enumerate(sorted(store0)):
            self.m.setdefault(k, 2000 + i)
        self.n = 0

    def __call__(self, k: str) -> int:
        if k not in self.m:
            self.m[k] = 1000 + self.n
            self.n += 1
        return self.m[k]


def key_history(ob: Dict[str, Any]) -> Dict[str, Any]:
    """Per run: keys the sweep was asked to drop (fresh / plan-derived), worker events, sweep outcome, store listed afterwards."""
    nm = Namer(ob["ren"], ob["store0"])
    stable = {nm(u) for u in ob["tfs_uuids"]}
    hist: List[Dict[str, Any]] = []
    problems: List[str] = []
    for i, r in enumerate(ob["runs"]):
        body: List[Tuple[str, int]] = []
        writers: Dict[int, Set[int]] = {}
        main_drops: List[Dict[str, Any]] = []
        for e in r["events"]:
            if e.get("child"):
                if e["ev"] == "up":
                    if e.get("ok"):
                        body.append(("SUp", nm(e["key"])))
                    writers.setdefault(nm(e["key"]), set()).add(e["pid"])
                elif e.get("ok"):
                    for k in e["keys"]:
                        body.append(("SWDrop", nm(k)))
                        writers.setdefault(nm(k), set()).add(e["pid"])
            elif e["ev"] == "drop":
                main_drops.append(e)
            elif e.get("ok"):
                problems.append(f"run {i + 1}: the main process uploaded {e['key']} (the model has uploads in workers only)")
                body.append(("SUp", nm(e["key"])))
        for e in main_drops[:-1]:                       # drops of the main process before the sweep (none seen so far): same effect as a
            if e.get("ok"):                             # worker-side drop of those keys
                body += [("SWDrop", nm(k)) for k in e["keys"]]
        sweep: Optional[bool] = None
        keys: List[int] = []
        if main_drops:
            sweep = bool(main_drops[-1].get("ok"))
            keys = [nm(k) for k in main_drops[-1]["keys"]]
        else:
            keys = sorted({k for _, k in body})
        for k, ps in writers.items():
            if len(ps) > 1:
                problems.append(f"run {i + 1}: key {k} was written by {len(ps)} worker processes (the model has one worker per object)")
        hist.append({"fresh": sorted(k for k in keys if k not in stable), "stable": sorted(k for k in keys if k in stable),
                     "body": body, "sweep": sweep, "after": sorted(nm(k) for k in r["keys_after"]), "n_main_drops": len(main_drops)})
    allk = [set(h["fresh"]) | set(h["stable"]) | {k for _, k in h["body"]} for h in hist]
    rep = sorted({k for i, a in enumerate(allk) for j, b in enumerate(allk) if i < j for k in a & b})
    return {"stable": sorted(stable), "store0": sorted(nm(k) for k in ob["store0"]), "runs": hist, "repeated": rep, "problems": problems,
            "names": {v: k for k, v in nm.m.items() if v >= 1000 or v in stable}}


def cq_sev(e: Tuple[str, int]) -> str:
    return f"{e[0]} {cq_nat(e[1])}"


def cq_case(plan: Dict[str, Any], kh: Dict[str, Any]) -> str:
    runs = []
    for h in kh["runs"]:
        sw = "None" if h["sweep"] is None else ("Some true" if h["sweep"] else "Some false")
        runs.append(f"{{| or_run := {{| r_fresh := {cq_list(cq_nat(k) for k in h['fresh'])}; r_stable := {cq_list(cq_nat(k) for k in h['stable'])}; "
                    f"r_body := {cq_list(cq_sev(e) for e in h['body'])}; r_sweep := {sw} |}}; or_after := {cq_list(cq_nat(k) for k in h['after'])} |}}")
    return f"{{| hc_plan := {cq_plan(plan)}; hc_store0 := {cq_list(cq_nat(k) for k in kh['store0'])}; hc_runs := {cq_list(runs)} |}}"


def which_client(rep_prefix: str, terms: List[str]) -> List[int]:
    import re
    if not terms:
        return []
    body = ("Definition cs : list hcase := " + cq_list(terms) + ".\nEval vm_compute in (map which_client cs).")
    out = vlib.coq_eval(rep_prefix, "rerun_diag", REQ, body)
    m = re.search(r"=\s*\[(.*?)\]\s*:\s*list nat", out, re.S)
    return [int(x) for x in re.findall(r"\d+", m.group(1))] if m else []


# ------------------------------------------------------------------------------------------------------------
# judge
# ------------------------------------------------------------------------------------------------------------
def judge(ob: Dict[str, Any], kh: Dict[str, Any]) -> List[str]:
    """The property's statement on the observed session, without any model."""
    msgs: List[str] = []
    s0 = set(kh["store0"])
    for i, (r, h) in enumerate(zip(ob["runs"], kh["runs"])):
        label = f"call {i + 1}/{len(ob['ops'])} ({r['op']}: {r['status']}) of the session [{', '.join(ob['ops'])}]"
        if r["status"] == "hang":
            msgs.append(f"{label} did not return within the watchdog, also when the session was observed again")
            continue
        new = [k for k in h["after"] if k not in s0]
        if new:
            what = []
            for k in new:
                name = kh["names"].get(k, "?")
                prev = [j + 1 for j in range(i) if k in kh["runs"][j]["fresh"] + kh["runs"][j]["stable"]]
                kind = "the uuid of a transform step of the session's plan" if k in kh["stable"] else "a uuid4 key"
                what.append(f"{name} ({kind}; uploaded in this call: {any(e == ('SUp', k) for e in h['body'])}; "
                            f"key of earlier calls: {prev or 'none'}; in this call's sweep request: {k in h['fresh'] + h['stable']})")
            msgs.append(f"{label} left {len(new)} dataset(s) in the long-lived Flight store: " + "; ".join(what))
        if r["procs_left"]:
            msgs.append(f"{label} left {r['procs_left']} worker/manager process(es) alive")
    return msgs


# ------------------------------------------------------------------------------------------------------------
# the family
# ------------------------------------------------------------------------------------------------------------
def check(rep: Any, tier: str, seed: int) -> bool:
    """Runs the family, reports findings through rep; returns True when a failing input was found."""
    rng = random.Random(seed * 7919 + 95)
    big = tier == "thorough"
    t_all = time.time()
    cases, gstats = gen_sessions(rng, 60 if big else 6, 20 if big else 2)
    found = False
    obs, khs, terms = [], [], []
    t0 = time.time()
    for case in cases:
        ob = observe_session(case)
        kh = key_history(ob)
        obs.append(ob)
        khs.append(kh)
        terms.append(cq_case(ob["plan"], kh))
    wall_runs = round(time.time() - t0, 2)
    bad, info = vlib.run_cases("C09", "rerun", REQ, "chk_rerun", terms, case_type="hcase", shard=40)
    diag = dict(zip(bad, which_client("C09", [terms[i] for i in bad]))) if bad else {}
    dist: Dict[str, Any] = {"sessions": len(cases), "with_transform_step": sum(1 for c in cases if c["kind"] == "tfs"), "calls": 0,
                            "ops": {}, "status": {}, "calls_with_upload": 0, "worker_side_drops": 0, "sweeps": 0, "sessions_with_repeated_key": 0,
                            "repeated_keys": 0, "calls_leaving_keys": 0, "generation": gstats, "wall_runs_s": wall_runs,
                            "stalled_sessions_reobserved": STATS["stalled_sessions_reobserved"], **info}
    for i, (case, ob, kh) in enumerate(zip(cases, obs, khs)):
        replay = {"kind": "rerun", "spec": case["spec"], "ops": case["ops"], "fail": case["fail"],
                  "observed": {"status": [r["status"] for r in ob["runs"]], "key_history": {k: v for k, v in kh.items() if k != "names"},
                               "keys": {str(k): v for k, v in kh["names"].items()}}}
        rep.count(len(ob["runs"]))
        dist["calls"] += len(ob["runs"])
        if kh["repeated"]:
            dist["sessions_with_repeated_key"] += 1
            dist["repeated_keys"] += len(kh["repeated"])
        for r, h in zip(ob["runs"], kh["runs"]):
            dist["ops"][r["op"]] = dist["ops"].get(r["op"], 0) + 1
            dist["status"][f"{r['op']}:{r['status']}"] = dist["status"].get(f"{r['op']}:{r['status']}", 0) + 1
            dist["calls_with_upload"] += any(e[0] == "SUp" for e in h["body"])
            dist["worker_side_drops"] += sum(1 for e in h["body"] if e[0] == "SWDrop")
            dist["sweeps"] += h["sweep"] is not None
            dist["calls_leaving_keys"] += any(k not in kh["store0"] for k in h["after"])
        rep.nontrivial(("rerun", json.dumps(case["spec"], sort_keys=True), tuple(case["ops"])))
        key = json.dumps([case["spec"], case["ops"]], sort_keys=True)
        msgs = judge(ob, kh)
        for m in msgs[:1]:
            rep.finding(f"rerun-judge:{key}", m, replay)
            found = True
        for m in kh["problems"][:2]:
            rep.finding(f"rerun-model-assumption:{key}", f"observation outside what Model/FlightKeys.v describes: {m}", replay)
            found = True
        if i in bad:
            d = diag.get(i)
            why = {1: "the listed stores are those of the MEMOISING client of C09_memoising_sweep_refuted (a sweep that skips keys this process "
                      "dropped in an earlier run), not those of the code's client",
                   0: "the stores agree with the model; the key identities do not (a key that is neither plan-derived nor new, a worker touching "
                      "a key the sweep does not know, or a swept key still listed)",
                   2: "the listed stores are neither those of the code's client nor those of the memoising client"}.get(d, "no diagnosis")
            stores = [h["after"] for h in kh["runs"]]
            rep.finding(f"rerun-model:{key}", f"key history of the session [{', '.join(case['ops'])}] is not a history of Model/FlightKeys.v (chk_rerun): "
                        f"stores after the calls {stores}, repeated keys {kh['repeated']}, plan-derived {kh['stable']}: {why}", replay)
            found = True
    dist["wall_family_s"] = round(time.time() - t_all, 2)
    rep.add("rerun_sessions", dist)
    if obs:
        rep.sample({"rerun_case": {"ops": obs[0]["ops"], "key_history": {k: v for k, v in khs[0].items() if k != "names"}}})
    return found


def replay_main(r: Dict[str, Any]) -> int:
    ob = observe_session({"spec": r["spec"], "ops": r["ops"], "fail": r["fail"]})
    kh = key_history(ob)
    term = cq_case(ob["plan"], kh)
    bad, _ = vlib.run_cases("C09", "rerun_replay", REQ, "chk_rerun", [term], case_type="hcase")
    print(json.dumps({"status": [x["status"] for x in ob["runs"]], "key_history": {k: v for k, v in kh.items() if k != "names"},
                      "keys": {str(k): v for k, v in kh["names"].items()}, "judge": judge(ob, kh), "chk_rerun": not bad,
                      "which_client": which_client("C09", [term]) if bad else [0]}, indent=1, default=str))
    return 1 if (bad or judge(ob, kh) or kh["problems"]) else 0
