"""Witness family "one polymorphic Link used by two concrete pairs of feature groups" (found through seed C04_r5's side note).

    Link.inner(BaseLeft.idx, BaseRight.idx)      LeftOne@FwA <-join- RightOne@FwB  -> consumer TotalOne@FwA
                                                 LeftTwo@FwC <-join- RightTwo@FwD  -> consumer TotalTwo@FwC

The planner makes TWO JoinSteps out of the one Link; JoinStep.get_uuids() = {own uuid, link.uuid}, so both produce the Link's
uuid, and the consumers wait for the LINK uuid (not for a JoinStep's own uuid).  As soon as ONE of the joins has finished, both
consumers are startable: the second consumer can begin before ITS join ran (C01), and the THREADING result differs from the
SYNC result (C06).  Exposed deterministically: the TransformFramework / Join steps are gated (harness/orch.py wrappers); the
second pair's JoinStep is held until its consumer has begun or nothing happens any more.

Decidable domain (Coq): the exported plan has two steps that produce one uuid (`OrchCheck.shared_uuid`, i.e. the premise
"produced sets pairwise disjoint" of C01_start_once / wf_plan_auto fails).  Props/C01.v C01_shared_uuid_starts_early_refuted
replays the observed schedule on the model: the model (faithful to the plan) starts the consumer too.
"""
from __future__ import annotations

import logging
import threading
import time
from typing import Any, Dict, List, Optional, Set, Type

from lib import vlib
from lib.vlib import cq_list, cq_nat

KF_KEY = "polymorphic-link-join-steps-share-link-uuid"
REQ = ["MV.Model.Orch", "MV.Model.OrchCheck"]


def _classes() -> Dict[str, Any]:
    from mloda.provider import BaseInputData, DataCreator, FeatureGroup, FeatureSet
    from mloda.user import Feature, FeatureName, Options
    from mloda_plugins.compute_framework.base_implementations.pyarrow.table import PyArrowTable
    ns: Dict[str, Any] = {}
    for n in ("VPolyFwA", "VPolyFwB", "VPolyFwC", "VPolyFwD"):
        ns[n] = type(n, (PyArrowTable,), {"__module__": __name__})

    class _VPolySource(FeatureGroup):
        FW: Any = None
        VALUES: List[int] = []

        @classmethod
        def input_data(cls) -> Optional[BaseInputData]:
            return DataCreator({cls.get_class_name()})

        @classmethod
        def calculate_feature(cls, data: Any, features: FeatureSet) -> Any:
            return {cls.get_class_name(): cls.VALUES, "idx": ["a", "b", "c"]}

        @classmethod
        def compute_framework_rule(cls) -> Any:
            return {cls.FW}

    class VPolyBaseLeft(_VPolySource):
        pass

    class VPolyBaseRight(_VPolySource):
        pass
    ns["_VPolySource"], ns["VPolyBaseLeft"], ns["VPolyBaseRight"] = _VPolySource, VPolyBaseLeft, VPolyBaseRight
    for n, base, fw, vals in (("VPolyLeftOne", VPolyBaseLeft, "VPolyFwA", [1, 2, 3]), ("VPolyRightOne", VPolyBaseRight, "VPolyFwB", [10, 20, 30]),
                              ("VPolyLeftTwo", VPolyBaseLeft, "VPolyFwC", [4, 5, 6]), ("VPolyRightTwo", VPolyBaseRight, "VPolyFwD", [40, 50, 60])):
        ns[n] = type(n, (base,), {"__module__": __name__, "FW": ns[fw], "VALUES": vals})

    def row_total(data: Any) -> List[int]:
        cols = [data.column(name).to_pylist() for name in data.column_names if name != "idx"]
        return [sum(v) for v in zip(*cols)]

    def mk_total(name: str, ins: List[str], fw: str) -> Any:
        def input_features(self: Any, options: Options, feature_name: FeatureName) -> Optional[Set[Feature]]:
            return {Feature.int32_of(i) for i in ins}

        def calculate_feature(cls: Any, data: Any, features: FeatureSet) -> Any:
            return {name: row_total(data)}

        def compute_framework_rule(cls: Any) -> Any:
            return {ns[fw]}
        return type(name, (FeatureGroup,), {"__module__": __name__, "input_features": input_features,
                                            "calculate_feature": classmethod(calculate_feature),
                                            "compute_framework_rule": classmethod(compute_framework_rule)})
    ns["VPolyTotalOne"] = mk_total("VPolyTotalOne", ["VPolyLeftOne", "VPolyRightOne"], "VPolyFwA")
    ns["VPolyTotalTwo"] = mk_total("VPolyTotalTwo", ["VPolyLeftTwo", "VPolyRightTwo"], "VPolyFwC")
    for k, v in ns.items():
        v.__qualname__ = k
    return ns


_NS: Dict[str, Any] = {}


def _ns() -> Dict[str, Any]:
    if not _NS:
        _NS.update(_classes())
        globals().update(_NS)          # module-level names: the THREADING back end pickles classes for its manager
    return _NS


EXPECTED = {"VPolyTotalOne": [11, 22, 33], "VPolyTotalTwo": [44, 55, 66]}


def prepare() -> Any:
    from mloda.user import Feature, Index, JoinSpec, Link, PluginCollector, mloda
    ns = _ns()
    idx = Index(("idx",))
    link = Link.inner(JoinSpec(ns["VPolyBaseLeft"], idx), JoinSpec(ns["VPolyBaseRight"], idx))
    fgs = {ns[n] for n in ("VPolyLeftOne", "VPolyRightOne", "VPolyLeftTwo", "VPolyRightTwo", "VPolyTotalOne", "VPolyTotalTwo")}
    return mloda.prepare([Feature(name="VPolyTotalOne"), Feature(name="VPolyTotalTwo")],
                         compute_frameworks={ns[n] for n in ("VPolyFwA", "VPolyFwB", "VPolyFwC", "VPolyFwD")}, links={link},
                         plugin_collector=PluginCollector.enabled_feature_groups(fgs))


def export(session: Any) -> Dict[str, Any]:
    """Plan in the format of harness/orch.cq_plan (uuids renamed by first occurrence)."""
    from mloda.core.core.step.feature_group_step import FeatureGroupStep
    from mloda.core.core.step.join_step import JoinStep
    ren: Dict[Any, int] = {}

    def r(u: Any) -> int:
        return ren.setdefault(u, len(ren) + 1)
    steps = []
    for i, st in enumerate(session.engine.execution_planner):
        kind = "FG" if isinstance(st, FeatureGroupStep) else "JOIN" if isinstance(st, JoinStep) else "TFS"
        names = sorted(str(f.get_name()) for f in st.features.features) if kind == "FG" else []
        steps.append({"sid": i, "kind": kind, "uuids": sorted(r(u) for u in st.get_uuids()), "req": sorted(r(u) for u in st.required_uuids),
                      "requested": kind == "FG" and any(n.startswith("VPolyTotal") for n in names), "names": names,
                      "group": names[0] if names else None,
                      "left_fw": st.left_framework.get_class_name() if kind == "JOIN" else None})
    return {"steps": steps}


def _tables(res: Any) -> Dict[str, Any]:
    out: Dict[str, Any] = {}
    for t in res or []:
        d = t.to_pydict() if hasattr(t, "to_pydict") else dict(t)
        out.update({k: list(v) for k, v in d.items()})
    return out


def observe(hold_s: float = 1.5, timeout: float = 30.0) -> Dict[str, Any]:
    """One SYNC run and one gated THREADING run (second pair's JoinStep held) of two fresh preparations."""
    from mloda.user import ParallelizationMode
    from harness.orch import REC, install
    logging.disable(logging.CRITICAL)
    install()
    threading.excepthook = lambda args: None
    rec: Dict[str, Any] = {}
    s0 = prepare()
    try:
        rec["sync"] = _tables(s0.run(parallelization_modes={ParallelizationMode.SYNC}))
    except BaseException as e:  # noqa: BLE001
        rec["sync"] = f"raised {type(e).__name__}: {str(e)[-120:]}"
    sess = prepare()
    plan = export(sess)
    rec["plan"] = plan
    steps = list(sess.engine.execution_planner)
    sid_of = {st.uuid: i for i, st in enumerate(steps)}
    join2 = next((st for st, p in zip(steps, plan["steps"]) if p["kind"] == "JOIN" and p["left_fw"] == "VPolyFwC"), None)
    cons2 = next((st for st, p in zip(steps, plan["steps"]) if p["kind"] == "FG" and p["names"] == ["VPolyTotalTwo"]), None)
    if join2 is None or cons2 is None:
        rec["problem"] = "unexpected plan shape"
        return rec
    rec["join2"], rec["cons2"] = sid_of[join2.uuid], sid_of[cons2.uuid]
    REC.reset()
    REC.gating = True
    out: Dict[str, Any] = {}

    def target() -> None:
        try:
            out["result"] = sess.run(parallelization_modes={ParallelizationMode.THREADING})
            out["status"] = "ok"
        except BaseException as e:  # noqa: BLE001
            out["status"] = "raised"
            out["exc"] = f"{type(e).__name__}: {' '.join(str(e).split())[-160:]}"
    th = threading.Thread(target=target, daemon=True)
    t0 = time.time()
    th.start()
    held_since: Optional[float] = None
    try:
        while th.is_alive() and time.time() - t0 < timeout:
            with REC.lock:
                blocked = list(REC.blocked)
                began_cons2 = ("begin", cons2.uuid) in REC.events
            for k in blocked:
                if k == join2.uuid and not began_cons2:
                    held_since = held_since or time.time()
                    if time.time() - held_since < hold_s:
                        continue            # hold the second pair's join: does its consumer start without it?
                with REC.lock:
                    ev = REC.gates.get(k)
                if ev is not None:
                    ev.set()
            time.sleep(0.002)
    finally:
        REC.gating = False
        with REC.lock:
            for ev in REC.gates.values():
                ev.set()
    th.join(10)
    ev_sids = [(k, sid_of.get(u, -1)) for k, u in REC.events]
    rec["events"] = ev_sids
    rec["status"] = out.get("status", "hang")
    rec["exc"] = out.get("exc")
    rec["threading"] = _tables(out.get("result")) if out.get("status") == "ok" else None
    b = next((i for i, e in enumerate(ev_sids) if e == ("begin", rec["cons2"])), None)
    j = next((i for i, e in enumerate(ev_sids) if e == ("end", rec["join2"])), None)
    rec["consumer_began_before_its_join_ended"] = b is not None and (j is None or b < j)
    return rec


def shared_uuid_terms(plan: Dict[str, Any]) -> str:
    from harness.orch import cq_plan
    return cq_plan(plan)


def check(rep: Any, prop: str) -> bool:
    """Run the witness; classify; returns True when something outside the recorded finding was reported."""
    rec = observe()
    rep.count(2)
    found = False
    if rec.get("problem"):
        rep.finding(f"polylink:{rec['problem']}", "polymorphic-link witness: " + rec["problem"], {"kind": "polylink", **rec}, found_input=False)
        return True
    # domain, decided in Coq: two steps of the exported plan produce one uuid
    bad, _ = vlib.run_cases(prop, "polylink_dom", REQ, "chk_no_shared_uuid", [shared_uuid_terms(rec["plan"])], case_type="plan",
                            extra_defs="Definition chk_no_shared_uuid (p : plan) : bool := nodupb (all_uuids p).\n")
    in_domain = bool(bad)
    early = rec["consumer_began_before_its_join_ended"]
    wrong = rec["status"] != "ok" or rec["threading"] != EXPECTED
    sync_wrong = rec["sync"] != EXPECTED
    info = {"in_domain_two_steps_produce_one_uuid": in_domain, "consumer_began_before_its_join_ended": early, "threading_status": rec["status"],
            "threading_result": rec["threading"], "sync_result": rec["sync"]}
    rep.add("polymorphic_link_witness", info)
    rep.nontrivial(("polylink", in_domain, early))
    replay = {"kind": "polylink", **{k: v for k, v in rec.items() if k != "events"}, "events": rec["events"][:60]}
    if early or wrong or sync_wrong:
        what = (f"one polymorphic Link used by two pairs of feature groups: "
                + (f"the second consumer (step {rec['cons2']}) began before its own JoinStep (step {rec['join2']}) had ended; " if early else "")
                + (f"THREADING run {rec['status']} with {rec['threading'] if rec['status'] == 'ok' else rec['exc']} instead of {EXPECTED}; " if wrong else "")
                + (f"the SYNC run gives {rec['sync']} instead of {EXPECTED}" if sync_wrong else ""))
        if in_domain:
            rep.finding(f"{prop}-{KF_KEY}", what, replay)           # recorded finding (domain decided in Coq on the exported plan)
        else:
            rep.finding("polylink-outside-domain", what + " although no two steps of the plan produce one uuid", replay)
            found = True
    return found


def replay(r: Dict[str, Any]) -> int:
    rec = observe()
    print({k: v for k, v in rec.items() if k not in ("events", "plan")})
    return 0
