"""C10 — each feature resolves to one admissible feature group and framework, or is rejected.

Model: coq/Model/Resolve.v, rule: coq/Spec/ResolveRule.v, theorems: coq/Props/C10.v.
T2 (correspondence, evaluated by vm_compute on the same inputs), everything through the public API:
  e2e   : generated universes of <= 6 real feature-group classes (type(...), unique names, inheritance chains <= 3,
          overlapping DataCreator name sets + class-name / prefix matching, 2 domains, framework rules over PyArrowTable /
          PandasDataFrame / PythonDictFramework / PolarsDataFrame (exists, not installed), index columns), each created in
          several class-creation orders; per universe several requests (API framework list as names or classes, every
          kind of PluginCollector, feature-level framework / domain through parameter or options, links, simulated
          unavailability of an installed framework).  observed = class chosen by mloda.prepare, the framework sets it
          recorded, which generated calculate_feature ran in session.run(), the Python type of every returned table; or
          the exception skeleton (and, for "Multiple feature groups", the classes listed).
  order : the same (universe, request) under all creation orders must give the identical canonical observation
  seeds : a few universes re-run in fresh subprocesses under different PYTHONHASHSEED values
  doc   : plugin_docs.resolve_feature on the same universes against doc_resolve
  hist  : second family, harness/c10_hist.py: histories of ONE process in which feature-group classes (criteria over name /
          group options / context options) and compute-framework subclasses are created BETWEEN requests of 1..4 features;
          Model/ResolveHist.v run_history on the same operation prefix; last request re-observed after a different history
          in other / fresh processes
"""
from __future__ import annotations

import gc
import json
import logging
import os
import random
import re
import subprocess
import sys
from typing import Any, Dict, List, Optional, Tuple

LEVEL = "proof"
logging.disable(logging.CRITICAL)
REQ = ["MV.Model.Resolve", "MV.Spec.ResolveRule"]

FW_NAMES = ["PyArrowTable", "PandasDataFrame", "PythonDictFramework", "PolarsDataFrame"]
FW_ID = {n: i for i, n in enumerate(FW_NAMES)}
NO_SUCH_FW = "NoSuchFw10"           # a name that resolves to no compute-framework class: model number 9
BG_CID = 99                          # every FeatureGroup subclass outside the generated universe (matches no generated name)
ERRS = ["EFwUnknown", "ENoApiFramework", "EFeatureFwNotInApi", "ENoAccessible", "ENoGroup", "EMultiple", "ENoFramework",
        "EFwUnsupported"]

EXTRA = """
Inductive obs := OChosen (n : nat) (gf ff tabs ran : list nat) | OErr (e : err) (names : list nat) | OOther.
Definition err_eqb (a b : err) : bool :=
  match a, b with
  | EFwUnknown, EFwUnknown | ENoApiFramework, ENoApiFramework | EFeatureFwNotInApi, EFeatureFwNotInApi
  | ENoAccessible, ENoAccessible | ENoGroup, ENoGroup | EMultiple, EMultiple | ENoFramework, ENoFramework
  | EFwUnsupported, EFwUnsupported => true
  | _, _ => false
  end.
Definition one_eqb (l : list nat) (n : nat) := match l with [x] => Nat.eqb x n | _ => false end.
(* observed outcome = model; every returned table has the type of a framework admissible for the feature *)
Definition chk (c : (env * list fgclass * request) * obs) : bool :=
  match c with
  | ((e, u, rq), o) =>
      match resolve e u rq, o with
      | Chosen n gf, OChosen n' gf' ff' tabs ran =>
          Nat.eqb n n' && set_eqb gf gf' && set_eqb (feature_fws rq gf) ff' && nonempty tabs
          && forallb (fun t => mem t (feature_fws rq gf)) tabs && one_eqb ran n
      | Rejected er, OErr er' names =>
          err_eqb er er' && (match er with
                             | EMultiple => set_eqb (map (fun p => cid (fst p)) (survivors e rq u)) names
                             | _ => true end)
      | _, _ => false
      end
  end.
(* classification only (no verdict): request lies in the domain where literal subclass preference and the implemented
   rule can differ; at least two classes pass the name criteria; several frameworks stay admissible *)
Definition not_in_kf (c : (env * list fgclass * request) * obs) : bool :=
  match c with ((e, u, rq), _) => match precheck e u rq with None => negb (kf_fw_mismatch_b e u rq) | _ => true end end.
Definition chk_doc (c : (list fgclass * string) * option (option nat)) : bool :=
  match doc_resolve (fst (fst c)) (snd (fst c)), snd c with
  | None, None => true
  | Some None, Some None => true
  | Some (Some a), Some (Some b) => Nat.eqb a b
  | _, _ => false
  end.
"""
CASE_TY = "(env * list fgclass * request) * obs"
DOC_TY = "(list fgclass * string) * option (option nat)"


# ------------------------------------------------------------------------------------------------------------
# generation of universe / request descriptions (plain JSON; no mloda objects)
# ------------------------------------------------------------------------------------------------------------
INDEXES = [["k"], ["j"], ["k", "j"], ["j", "k"], ["k", "j", "k"]]


def gen_universe(rng: random.Random, uid: int, n_orders: int, n_req: int) -> dict:
    n = rng.choice([1, 2, 2, 3, 3, 4, 4, 5, 6])
    pool = ["a", "b", "c"]
    classes: List[dict] = []
    depth: List[int] = []
    style = rng.random()          # 0..: how much the classes overlap
    for i in range(n):
        cands = [j for j in range(i) if depth[j] < 3]
        p = rng.choice(cands) if cands and rng.random() < 0.65 else None
        depth.append(1 if p is None else depth[p] + 1)
        if p is not None and rng.random() < 0.55:
            acc: Any = None                                        # inherit input_data
        else:
            pa_ = 0.75 if style < 0.7 else 0.95
            acc = [x for x, pr_ in (("a", pa_), ("b", 0.4), ("c", 0.25)) if rng.random() < pr_]
        dom = None if (p is not None and rng.random() < 0.6) else rng.choice(["default", "default", "dA"])
        r = rng.random()
        if p is not None and r < 0.45:
            rule: Any = None                                       # inherit compute_framework_rule
        elif r < 0.70:
            rule = True
        else:
            rule = sorted(rng.sample(FW_NAMES, rng.choice([0, 1, 1, 1, 1, 2, 2, 2, 3, 3])), key=FW_NAMES.index)
        r = rng.random()
        if p is not None and r < 0.6:
            idx: Any = None                                        # inherit index_columns
        elif r < 0.88:
            idx = "none"
        else:
            idx = [list(x) for x in rng.sample(INDEXES, rng.choice([0, 1, 1, 2]))]
        classes.append({"parent": p, "accepts": acc, "dom": dom, "rule": rule, "idx": idx})
    orders = [list(range(n))]
    for _ in range(n_orders - 1):
        orders.append(linear_extension(rng, [c["parent"] for c in classes]))
    u = {"uid": uid, "classes": classes, "orders": orders}
    u["requests"] = [gen_request(rng, u) for _ in range(n_req)]
    return u


def linear_extension(rng: random.Random, parents: List[Optional[int]]) -> List[int]:
    """A random creation order in which every parent precedes its children (biased towards late parents' children)."""
    left, out = set(range(len(parents))), []
    while left:
        ready = [i for i in left if parents[i] is None or parents[i] in out]
        i = rng.choice(ready)
        out.append(i)
        left.discard(i)
    return out


def gen_request(rng: random.Random, u: dict) -> dict:
    n = len(u["classes"])
    r = rng.random()
    if r < 0.60:
        name: Any = {"plain": "a"}
    elif r < 0.80:
        name = {"plain": rng.choice(["b", "b", "b", "c"])}
    elif r < 0.88:
        name = {"cls": rng.randrange(n)}                           # feature name = class name of class i
    elif r < 0.95:
        name = {"prefix": rng.randrange(n)}                        # class name + "_x"
    else:
        name = {"plain": "zz"}
    r = rng.random()
    if r < 0.50:
        api: Any = None
    else:
        k = rng.choice([1, 1, 2, 2, 3])
        names = rng.sample(FW_NAMES[:3] + FW_NAMES + [NO_SUCH_FW], k)
        names = sorted(set(names), key=(FW_NAMES + [NO_SUCH_FW]).index)
        if rng.random() < 0.5 or NO_SUCH_FW in names:
            api = {"names": names}                                 # list[str]
        else:
            api = {"classes": names}                               # set of classes
        if r > 0.97:
            api = {"names": []}
    r = rng.random()
    ids = list(range(n))
    if r < 0.15:
        col: Any = None
    elif r < 0.55:
        col = {"en": ids, "dis": []}
    elif r < 0.75:
        col = {"en": sorted(rng.sample(ids, rng.randrange((n + 1) // 2, n + 1))), "dis": []}
    elif r < 0.90:
        col = {"en": [], "dis": sorted(rng.sample(ids, rng.randrange(0, n // 2 + 1)))}
    else:
        col = {"en": sorted(rng.sample(ids, rng.randrange(1, n + 1))), "dis": sorted(rng.sample(ids, rng.randrange(0, n + 1)))}
    fdom = rng.choice([None] * 11 + ["default_domain"] * 4 + ["dA"] * 4 + ["dB"])
    ffw = None
    if rng.random() < 0.3:
        cand = (api.get("names") or api.get("classes")) if (api and rng.random() < 0.7) else None
        ffw = rng.choice(cand or FW_NAMES)
    if rng.random() < 0.02:
        ffw = NO_SUCH_FW
    links = None
    if rng.random() < 0.3:
        links = []
        for _ in range(rng.choice([1, 1, 2])):
            l = [rng.choice(INDEXES[:4]), rng.choice(INDEXES[:4])]
            if l not in links:
                links.append(l)
    unavailable = None
    if rng.random() < 0.12:
        unavailable = rng.choice(["PandasDataFrame", "PythonDictFramework", "PyArrowTable"])
    return {"name": name, "api": api, "col": col, "fdom": fdom, "ffw": ffw, "links": links,
            "via_options": rng.random() < 0.3, "unavailable": unavailable}


# ------------------------------------------------------------------------------------------------------------
# what the description means (model side; written from the documented rules, never by calling mloda)
# ------------------------------------------------------------------------------------------------------------
def cname(uid: int, k: int, i: int) -> str:
    return f"K10u{uid}o{k}c{i}"


def fname_of(u: dict, k: int, name: dict) -> str:
    if "plain" in name:
        return f"q{u['uid']}o{k}{name['plain']}"
    if "cls" in name:
        return cname(u["uid"], k, name["cls"])
    return cname(u["uid"], k, name["prefix"]) + "_x"


def effective(u: dict, k: int) -> List[dict]:
    """Effective attributes of every class after Python inheritance; the names a class accepts follow the documented
    default criteria: DataCreator names, feature name == class name, feature name starts with '<class name>_'."""
    uid, out = u["uid"], []
    all_names = sorted({fname_of(u, k, r["name"]) for r in u["requests"]})
    for i, c in enumerate(u["classes"]):
        p = out[c["parent"]] if c["parent"] is not None else None
        acc = c["accepts"] if c["accepts"] is not None else (p["dc"] if p else [])
        dom = c["dom"] if c["dom"] is not None else (p["dom"] if p else "default")
        rule = c["rule"] if c["rule"] is not None else (p["rule"] if p else True)
        idx = c["idx"] if c["idx"] is not None else (p["idx"] if p else "none")
        me = cname(uid, k, i)
        dcn = [f"q{uid}o{k}{a}" for a in acc] if c["accepts"] is not None else (p["dcn"] if p else [])
        accepts = [nm for nm in all_names if nm in dcn or nm == me or nm.startswith(me + "_")]
        sup = [] if p is None else [c["parent"]] + p["supers"]
        out.append({"cid": i, "supers": sup, "dc": acc, "dcn": dcn, "accepts": accepts, "dom": dom, "rule": rule, "idx": idx})
    return out


# ------------------------------------------------------------------------------------------------------------
# real classes
# ------------------------------------------------------------------------------------------------------------
RAN: List[str] = []
_holders: List[type] = []


def fw_classes() -> Dict[str, type]:
    from mloda_plugins.compute_framework.base_implementations.pyarrow.table import PyArrowTable
    from mloda_plugins.compute_framework.base_implementations.pandas.dataframe import PandasDataFrame
    from mloda_plugins.compute_framework.base_implementations.python_dict.python_dict_framework import PythonDictFramework
    from mloda_plugins.compute_framework.base_implementations.polars.dataframe import PolarsDataFrame
    return {"PyArrowTable": PyArrowTable, "PandasDataFrame": PandasDataFrame, "PythonDictFramework": PythonDictFramework,
            "PolarsDataFrame": PolarsDataFrame}


def link_holders() -> List[type]:
    """Two feature groups that only carry the links of a request (never enabled, match no generated name)."""
    if not _holders:
        from mloda.provider import FeatureGroup, DataCreator
        for nm in ("L10holderA", "L10holderB"):
            _holders.append(type(nm, (FeatureGroup,), {"input_data": classmethod(lambda cls: DataCreator(set()))}))
    return _holders


def realize(u: dict, k: int) -> List[type]:
    """Create the classes of universe u in creation order u['orders'][k]; a class defines exactly the methods its
    description overrides (everything else is inherited by Python)."""
    from mloda.provider import FeatureGroup, DataCreator
    from mloda.user import Index
    from mloda.core.abstract_plugins.components.domain import Domain
    fwc = fw_classes()
    uid = u["uid"]
    classes: List[Optional[type]] = [None] * len(u["classes"])
    for i in u["orders"][k]:
        c = u["classes"][i]
        base = FeatureGroup if c["parent"] is None else classes[c["parent"]]
        d: Dict[str, Any] = {}

        def calculate_feature(cls: Any, data: Any, features: Any) -> Any:
            RAN.append(cls.__name__)
            return {n: [1, 2] for n in features.get_all_names()}

        d["calculate_feature"] = classmethod(calculate_feature)
        if c["accepts"] is not None:
            names = {f"q{uid}o{k}{a}" for a in c["accepts"]}
            d["input_data"] = classmethod(lambda cls, _n=names: DataCreator(set(_n)))
        elif c["parent"] is None:
            d["input_data"] = classmethod(lambda cls: DataCreator(set()))
        if c["dom"] is not None:
            dn = "default_domain" if c["dom"] == "default" else c["dom"]
            d["get_domain"] = classmethod(lambda cls, _d=dn: Domain(_d))
        if c["rule"] is not None:
            if c["rule"] is True:
                d["compute_framework_rule"] = classmethod(lambda cls: True)
            else:
                rs = [fwc[x] for x in c["rule"]]
                d["compute_framework_rule"] = classmethod(lambda cls, _r=rs: set(_r))
        if c["idx"] is not None:
            if c["idx"] == "none":
                d["index_columns"] = classmethod(lambda cls: None)
            else:
                ix = [tuple(x) for x in c["idx"]]
                d["index_columns"] = classmethod(lambda cls, _i=ix: [Index(t) for t in _i])
        classes[i] = type(cname(uid, k, i), (base,), d)
    return classes  # type: ignore[return-value]


def classify(e: BaseException) -> Tuple[str, List[str]]:
    m = str(e)
    if not isinstance(e, ValueError):
        return f"Other:{type(e).__name__}:{m[:120]}", []
    if re.match(r"Compute framework via (parameter|options) .* not found\.", m):
        return "EFwUnknown", []
    if m.startswith("No given compute frameworks ") and "found in available compute frameworks" in m:
        return "ENoApiFramework", []
    if re.match(r"Feature \S+ has compute frameworks .* not in ", m):
        return "EFeatureFwNotInApi", []
    if m == "No accessible feature groups found.":
        return "ENoAccessible", []
    if re.match(r"No feature groups found for feature name: \S+\.$", m):
        return "ENoGroup", []
    if m.startswith("Multiple feature groups found for feature '"):
        return "EMultiple", re.findall(r"^  - (\S+) \(", m, re.M)
    if m.endswith("has no compute framework."):
        return "ENoFramework", []
    if "does not support compute framework" in m:
        return "EFwUnsupported", []
    return f"Other:ValueError:{m[:120]}", []


def table_fw(x: Any) -> int:
    import pyarrow as pa
    import pandas as pd
    if isinstance(x, pa.Table):
        return 0
    if isinstance(x, pd.DataFrame):
        return 1
    if isinstance(x, list):
        return 2
    return 50


def fw_num(c: type) -> int:
    return FW_ID.get(c.__name__, 10 + (sum(map(ord, c.__name__)) % 20))


def observe(u: dict, k: int, classes: List[type], req: dict, rng: random.Random) -> dict:
    """Run one request against the real implementation. Returns {'env':..., 'obs':...} in canonical form."""
    from mloda.user import mloda, Feature, PluginCollector, Link, JoinSpec, Index
    from mloda.core.abstract_plugins.compute_framework import ComputeFramework
    from mloda.core.abstract_plugins.components.utils import get_all_subclasses
    fwc = fw_classes()
    name = fname_of(u, k, req["name"])
    patched = None
    if req["unavailable"]:
        cls_ = fwc[req["unavailable"]]
        patched = (cls_, cls_.__dict__.get("is_available"))
        cls_.is_available = staticmethod(lambda: False)          # simulate a missing dependency (harness side only)
    try:
        allfw = get_all_subclasses(ComputeFramework)
        env = {"existing": sorted(fw_num(c) for c in allfw), "available": sorted(fw_num(c) for c in allfw if c.is_available())}
        cls_index = {c.__name__: i for i, c in enumerate(classes)}
        try:
            kw: Dict[str, Any] = {}
            opts: Dict[str, Any] = {}
            if req["via_options"]:
                if req["fdom"]:
                    opts["domain"] = req["fdom"]
                if req["ffw"]:
                    opts["compute_framework"] = req["ffw"]
            else:
                if req["fdom"]:
                    kw["domain"] = req["fdom"]
                if req["ffw"]:
                    kw["compute_framework"] = req["ffw"]
            feat = Feature(name, options=opts, **kw)
            api: Any = None
            if req["api"] is not None:
                if "names" in req["api"]:
                    api = list(req["api"]["names"])
                    rng.shuffle(api)
                else:
                    api = {fwc[x] for x in req["api"]["classes"]}
            pc = None
            if req["col"] is not None:
                pc = PluginCollector()
                en, dis = list(req["col"]["en"]), list(req["col"]["dis"])
                rng.shuffle(en)
                rng.shuffle(dis)
                if en:
                    pc.add_enabled_feature_group_classes({classes[i] for i in en})
                if dis:
                    pc.add_disabled_feature_group_classes({classes[i] for i in dis})
            links = None
            if req["links"] is not None:
                ha, hb = link_holders()
                links = {Link.inner(JoinSpec(ha, Index(tuple(l[0]))), JoinSpec(hb, Index(tuple(l[1])))) for l in req["links"]}
            session = mloda.prepare([feat], compute_frameworks=api, links=links, plugin_collector=pc)
        except Exception as e:  # noqa: BLE001
            kind, names = classify(e)
            if kind.startswith("Other"):
                return {"env": env, "obs": {"other": kind}}
            unknown = [n for n in names if n not in cls_index]
            if unknown:
                return {"env": env, "obs": {"other": f"Other:foreign classes in message {unknown}"}}
            return {"env": env, "obs": {"err": kind, "names": sorted(cls_index[n] for n in names)}}
        try:
            coll = session.engine.feature_group_collection
            chosen = [(c, f) for c, fs in coll.items() for f in fs]
            if len(chosen) != 1 or chosen[0][0].__name__ not in cls_index:
                return {"env": env, "obs": {"other": f"Other:planned groups {[c.__name__ for c, _ in chosen]}"}}
            ccls, f = chosen[0]
            gf = sorted(fw_num(x) for x in session.engine.accessible_plugins[ccls])
            ff = sorted(fw_num(x) for x in (f.compute_frameworks or []))
            RAN.clear()
            res = session.run()
            tabs = sorted(table_fw(t) for t in res)
            cols_ok = all(_has_column(t, name) for t in res)
            ran = [cls_index.get(n, 98) for n in RAN]
            if not cols_ok:
                return {"env": env, "obs": {"other": "Other:result lacks the requested column"}}
            return {"env": env, "obs": {"chosen": cls_index[ccls.__name__], "gf": gf, "ff": ff, "tabs": tabs, "ran": ran}}
        except Exception as e:  # noqa: BLE001
            return {"env": env, "obs": {"other": f"Other:run:{type(e).__name__}:{str(e)[:120]}"}}
    finally:
        if patched is not None:
            if patched[1] is None:
                del patched[0].is_available
            else:
                patched[0].is_available = patched[1]


def _has_column(t: Any, name: str) -> bool:
    fw = table_fw(t)
    if fw == 0:
        return name in t.column_names
    if fw == 1:
        return name in t.columns
    if fw == 2:
        return all(name in row for row in t)
    return False


def observe_doc(u: dict, k: int, classes: List[type], name: str) -> Any:
    from mloda.core.api.plugin_docs import resolve_feature
    cls_index = {c.__name__: i for i, c in enumerate(classes)}
    r = resolve_feature(name)
    if r.feature_group is not None:
        return ["some", cls_index.get(r.feature_group.__name__, 98)]
    if r.error and r.error.startswith("No FeatureGroup found"):
        return ["none"]
    if r.error and r.error.startswith("Multiple FeatureGroups match"):
        return ["multi"]
    return ["other", str(r.error)[:80]]


def run_universe(u: dict, seed: int, with_doc: bool = True) -> List[dict]:
    """All orders x all requests of one universe -> list of case dicts."""
    out = []
    for k in range(len(u["orders"])):
        classes = realize(u, k)
        eff = effective(u, k)
        for ri, req in enumerate(u["requests"]):
            rng = random.Random(seed * 1000003 + u["uid"] * 101 + k * 17 + ri)
            o = observe(u, k, classes, req, rng)
            out.append({"uid": u["uid"], "k": k, "ri": ri, "env": o["env"], "obs": o["obs"]})
        if with_doc:
            for nm in sorted({fname_of(u, k, r["name"]) for r in u["requests"]}):
                out.append({"uid": u["uid"], "k": k, "doc": nm, "obs": observe_doc(u, k, classes, nm)})
        del classes
    gc.collect()
    return out


# ------------------------------------------------------------------------------------------------------------
# Coq terms
# ------------------------------------------------------------------------------------------------------------
def nl(xs: Any) -> str:
    from lib.vlib import cq_list, cq_nat
    return cq_list(cq_nat(int(x)) for x in xs)


def cq_class(c: dict) -> str:
    from lib.vlib import cq_list, cq_str, cq_nat
    dom = "default_domain" if c["dom"] == "default" else c["dom"]
    rule = "None" if c["rule"] is True else f"(Some {nl(FW_ID[x] for x in c['rule'])})"
    idx = "None" if c["idx"] == "none" else "(Some " + cq_list(cq_list(cq_str(s) for s in t) for t in c["idx"]) + ")"
    return (f"{{| cid := {cq_nat(c['cid'])}; supers := {nl(c['supers'])}; accepts := {cq_list(cq_str(a) for a in c['accepts'])}; "
            f"dom := {cq_str(dom)}; rule := {rule}; idxcols := {idx} |}}")


BG = ("{| cid := 99%nat; supers := []; accepts := []; dom := \"default_domain\"; rule := None; idxcols := None |}")


def cq_universe(eff: List[dict]) -> str:
    from lib.vlib import cq_list
    return cq_list([cq_class(c) for c in eff] + [BG])


def cq_request(u: dict, k: int, req: dict) -> str:
    from lib.vlib import cq_list, cq_str
    # API entries by KIND: a str selects by class name, a class object by identity.  In this family class names are unique and a
    # class is numbered by its name (cname = identity function), so the two kinds select the same classes here; same-named
    # twins are the subject of the third family (harness/c10_twin.py)
    if req["api"] is None:
        api = []
    elif "names" in req["api"]:
        api = [f"AName {FW_ID.get(x, 9)}%nat" for x in req["api"]["names"]]
    else:
        api = [f"AClass {FW_ID.get(x, 9)}%nat" for x in req["api"]["classes"]]
    col = "None" if req["col"] is None else f"(Some ({nl(req['col']['en'])}, {nl(req['col']['dis'])}))"
    fdom = "None" if not req["fdom"] else f"(Some {cq_str(req['fdom'])})"
    ffw = "None" if not req["ffw"] else f"(Some {FW_ID.get(req['ffw'], 9)}%nat)"
    if req["links"] is None:
        links = "None"
    else:
        links = "(Some " + cq_list(f"({cq_list(cq_str(s) for s in l[0])}, {cq_list(cq_str(s) for s in l[1])})" for l in req["links"]) + ")"
    return (f"{{| api := {cq_list(api)}; collector := {col}; fname := {cq_str(fname_of(u, k, req['name']))}; fdom := {fdom}; "
            f"ffw := {ffw}; links := {links} |}}")


def cq_obs(o: dict) -> str:
    if "other" in o:
        return "OOther"
    if "err" in o:
        return f"(OErr {o['err']} {nl(o['names'])})"
    return f"(OChosen {int(o['chosen'])}%nat {nl(o['gf'])} {nl(o['ff'])} {nl(o['tabs'])} {nl(o['ran'])})"


def case_term(u: dict, c: dict) -> str:
    eff = effective(u, c["k"])
    env = f"{{| existing := {nl(c['env']['existing'])}; available := {nl(c['env']['available'])}; cname := fun x => x |}}"
    return f"(({env}, {cq_universe(eff)}, {cq_request(u, c['k'], u['requests'][c['ri']])}), {cq_obs(c['obs'])})"


def doc_term(u: dict, c: dict) -> str:
    from lib.vlib import cq_str
    eff = effective(u, c["k"])
    o = c["obs"]
    obs = {"none": "None", "multi": "(Some None)"}.get(o[0]) or (f"(Some (Some {int(o[1])}%nat))" if o[0] == "some" else "(Some (Some 97%nat))")
    return f"(({cq_universe(eff)}, {cq_str(c['doc'])}), {obs})"


# ------------------------------------------------------------------------------------------------------------
def canon(o: dict) -> Any:
    """What must not depend on creation order / hash seed: everything except WHICH admissible framework ran."""
    if "chosen" in o:
        return ("chosen", o["chosen"], tuple(o["gf"]), tuple(o["ff"]), tuple(o["ran"]))
    if "err" in o:
        return ("err", o["err"], tuple(o["names"]))
    return ("other", o["other"])


def worker_main() -> int:
    spec = json.load(sys.stdin)
    out = []
    for u in spec["universes"]:
        out += run_universe(u, spec["seed"], with_doc=False)
    json.dump(out, sys.stdout)
    return 0


def run_in_subprocess(universes: List[dict], seed: int, hashseed: int) -> List[dict]:
    env = dict(os.environ)
    env["PYTHONHASHSEED"] = str(hashseed)
    p = subprocess.run([sys.executable, "-m", "harness.c10", "--worker"], input=json.dumps({"universes": universes, "seed": seed}),
                       capture_output=True, text=True, timeout=600, env=env,
                       cwd=os.path.dirname(os.path.dirname(os.path.abspath(__file__))))
    if p.returncode != 0:
        raise RuntimeError(f"hash-seed worker failed (PYTHONHASHSEED={hashseed}):\n{p.stderr[-2000:]}")
    return json.loads(p.stdout)


def model_says(term: str) -> str:
    """The model's verdict for one case, for messages (frameworks 0..3 = FW_NAMES, classes by index)."""
    from lib import vlib
    try:
        out = vlib.coq_eval("C10", "says", REQ, EXTRA + f"\nDefinition the_case : {CASE_TY} := {term}.\n"
                            "Eval vm_compute in (let '((e, u, rq), _) := the_case in "
                            "(resolve e u rq, map (fun p => cid (fst p)) (survivors e rq u))).")
        m = re.search(r"=\s*(.*?)\s*:\s*result \* list nat", out, re.S)
        return " ".join(m.group(1).split()) if m else out[-200:]
    except Exception as e:  # noqa: BLE001
        return f"(model evaluation failed: {e})"


def run(rep: Any, tier: str, seed: int) -> None:
    from lib import vlib
    rng = random.Random(seed * 7919 + 10)
    pr = vlib.build_props("C10")
    rep.proof(pr)
    rep.coverage["trusted_base"] += [
        "hand-written model Model/Resolve.v of SetupComputeFramework, PreFilterPlugins, PluginCollector.applicable_feature_group_class, "
        "IdentifyFeatureGroupClass (_filter_loop, filter_subclasses, validate, get), Engine.set_compute_framework, "
        "plugin_docs.resolve_feature; tied by correspondence (T2) through mloda.prepare / session.run on generated universes",
        "match_feature_group_criteria is modelled by its graph on the names of the request pool; the pool is built from the "
        "documented default criteria (DataCreator names, class name, '<class name>_' prefix), never by calling mloda",
        "Python issubclass/__mro__ on single-inheritance chains = list of ancestors; class object identity = unique generated name",
        "FeatureGroup subclasses outside the generated universe (3 mloda classes, 2 link holders, not yet collected classes of "
        "earlier cases) are one background record that matches no generated feature name (names are unique per universe and order)",
        "index prefix rule: Model/LinkSel.v is_a_part_of/supports_index (property C18) is reused",
        "next(iter(set)) of Feature.get_compute_framework is a choice parameter: only membership of the table type is checked",
        "Link validation, planning after resolution and the data path of session.run are outside this model (only their "
        "observable outcome: one generated calculate_feature ran, the table type)",
        "hand-written model Model/ResolveHist.v of Features(...) duplicate check / Feature.__eq__, the phase order of mlodaAPI.__init__, "
        "Engine.setup_features_recursion with the growing link set, and of the process as a growing list of classes; the generated "
        "match_feature_group_criteria is a criteria term interpreted twice (Python closure in harness/c10_hist.py, crit_eval in Coq)",
        "late compute frameworks are modelled by number, installed root and the value of is_available() (Python attribute "
        "inheritance is computed by the harness from the description); frameworks of other histories still alive are observed with a "
        "harness-side walk of ComputeFramework.__subclasses__() and passed to the model as part of the initial process state",
        "requested features are identified in Engine.feature_group_collection by their uuid (kept by mloda's deepcopy)"]
    big = tier == "thorough"
    n_univ, n_orders, n_req = (3000, 3, 5) if big else (150, 3, 5)
    universes = [gen_universe(rng, uid, n_orders, n_req) for uid in range(n_univ)]
    cases: List[Tuple[dict, dict]] = []
    docs: List[Tuple[dict, dict]] = []
    for n_done, u in enumerate(universes):
        for c in run_universe(u, seed):
            (docs if "doc" in c else cases).append((u, c))
        if n_done % 50 == 49:
            gc.freeze()        # the records collected so far hold no classes: keep them out of the per-universe gc.collect()
    found = False

    # ---- hash seeds: fresh processes
    hs_univ = universes[: (120 if big else 24)]
    hs = list(range(1, 9)) if big else [1, 2, 3, 4]
    hs_cases: List[Tuple[dict, dict, int]] = []
    for h in hs:
        for c in run_in_subprocess(hs_univ, seed, h):
            hs_cases.append((universes[c["uid"]], c, h))

    # ---- model vs implementation (Coq)
    all_cases = cases + [(u, c) for u, c, _ in hs_cases]
    terms = [case_term(u, c) for u, c in all_cases]
    bad, info = vlib.run_cases("C10", "e2e", REQ, "chk", terms, case_type=CASE_TY, extra_defs=EXTRA, shard=400)
    rep.count(len(all_cases))
    for i in bad[:8]:
        u, c = all_cases[i]
        rep.finding(f"e2e:{json.dumps([u['classes'], u['orders'][c['k']], u['requests'][c['ri']]], sort_keys=True)}",
                    f"resolution observed through mloda.prepare/run ({c['obs']}) differs from the modelled rule "
                    f"(unique admissible group after preferring same-framework subclasses; table type admissible); "
                    f"model: {model_says(terms[i])}; classes {json.dumps(u['classes'])} created in order {u['orders'][c['k']]}, "
                    f"request {json.dumps(u['requests'][c['ri']])}",
                    {"kind": "e2e", "universe": u, "k": c["k"], "ri": c["ri"], "env": c["env"], "obs": c["obs"]})
        found = True

    # ---- order / hash independence, checked directly on the observations (no model involved)
    by_req: Dict[Tuple[int, int], Dict[Any, List[Any]]] = {}
    for u, c in cases:
        by_req.setdefault((c["uid"], c["ri"]), {}).setdefault(canon(c["obs"]), []).append(("order", c["k"]))
    for u, c, h in hs_cases:
        by_req.setdefault((c["uid"], c["ri"]), {}).setdefault(canon(c["obs"]), []).append(("hashseed", h, c["k"]))
    unstable = [(key, v) for key, v in by_req.items() if len(v) > 1]
    for (uid, ri), v in unstable[:5]:
        u = universes[uid]
        rep.finding(f"order:{json.dumps([u['classes'], u['requests'][ri]], sort_keys=True)}",
                    f"the outcome of one request depends on class creation order / hash seed: {[(list(k), w[:3]) for k, w in v.items()]}",
                    {"kind": "order", "universe": u, "ri": ri, "outcomes": [[list(map(str, k)), w] for k, w in v.items()]})
        found = True
    tab_variety = {}
    for u, c in all_cases:
        if "chosen" in c["obs"] and len(c["obs"]["ff"]) > 1:
            tab_variety.setdefault((c["uid"], c["ri"]), set()).update(c["obs"]["tabs"])

    # ---- plugin_docs.resolve_feature
    dterms = [doc_term(u, c) for u, c in docs]
    dbad, dinfo = vlib.run_cases("C10", "doc", REQ, "chk_doc", dterms, case_type=DOC_TY, extra_defs=EXTRA, shard=500)
    rep.count(len(docs))
    for i in dbad[:5]:
        u, c = docs[i]
        rep.finding(f"doc:{json.dumps([u['classes'], u['orders'][c['k']], c['doc']], sort_keys=True)}",
                    f"plugin_docs.resolve_feature({c['doc']!r}) = {c['obs']} differs from the unique most specific matching class",
                    {"kind": "doc", "universe": u, "k": c["k"], "name": c["doc"], "obs": c["obs"]})
        found = True

    # ---- classification for the evidence (Coq side: the kf domain; Python side: everything else)
    n_kf = min(len(cases), 9000)
    kf_idx, _ = vlib.run_cases("C10", "kf", REQ, "not_in_kf", terms[:n_kf], case_type=CASE_TY, extra_defs=EXTRA, shard=400)
    kf_rej = sum(1 for i in kf_idx if cases[i][1]["obs"].get("err") == "EMultiple")
    outcome: Dict[str, int] = {}
    for u, c in all_cases:
        o = c["obs"]
        key = "chosen" if "chosen" in o else o.get("err") or "other"
        outcome[key] = outcome.get(key, 0) + 1
    for u, c in cases:
        eff = effective(u, c["k"])
        nm = fname_of(u, c["k"], u["requests"][c["ri"]]["name"])
        if sum(1 for e in eff if nm in e["accepts"]) >= 2:
            rep.nontrivial((u["uid"], c["ri"], u["classes"], u["requests"][c["ri"]]))
    link_app = link_drop = 0
    for u in universes:
        eff0 = effective(u, 0)
        for r in u["requests"]:
            if r["links"] is None:
                continue
            nm = fname_of(u, 0, r["name"])
            for e_ in eff0:
                if nm in e_["accepts"] and e_["idx"] != "none":
                    link_app += 1
                    link_drop += not any(col[:len(i)] == i for col in e_["idx"] for l in r["links"] for i in l)
    sizes: Dict[int, int] = {}
    depths: Dict[int, int] = {}
    for u in universes:
        sizes[len(u["classes"])] = sizes.get(len(u["classes"]), 0) + 1
        d = max(len(e["supers"]) + 1 for e in effective(u, 0))
        depths[d] = depths.get(d, 0) + 1
    reqs = [r for u in universes for r in u["requests"]]
    rep.add("e2e", {**info, "universes": n_univ, "orders_per_universe": n_orders, "requests_per_universe": n_req,
                    "cases_main_process": len(cases), "cases_hash_seed_subprocesses": len(hs_cases), "hash_seeds": hs,
                    "disagreements": len(bad), "outcomes": outcome, "universe_sizes": sizes, "max_chain_length": depths,
                    "requests_with_collector": sum(1 for r in reqs if r["col"] is not None),
                    "requests_with_api_list": sum(1 for r in reqs if r["api"] is not None),
                    "requests_with_feature_framework": sum(1 for r in reqs if r["ffw"]),
                    "requests_with_feature_domain": sum(1 for r in reqs if r["fdom"]),
                    "requests_with_links": sum(1 for r in reqs if r["links"] is not None),
                    "link_filter_applicable_class_request_pairs": link_app, "of_those_dropped_by_the_prefix_rule": link_drop,
                    "requests_with_simulated_unavailable_framework": sum(1 for r in reqs if r["unavailable"]),
                    "chosen_with_several_admissible_frameworks": len(tab_variety),
                    "of_those_seen_on_more_than_one_table_type": sum(1 for v in tab_variety.values() if len(v) > 1)})
    rep.add("order_independence", {"requests_compared": len(by_req), "unstable": len(unstable),
                                   "runs_per_request_main_process": n_orders,
                                   "requests_also_run_under_other_hash_seeds": len(hs_univ) * n_req,
                                   "extra_runs_per_such_request": len(hs) * n_orders})
    rep.add("kf_fw_mismatch_domain", {"cases_classified": n_kf, "cases_in_domain": len(kf_idx),
                                      "of_those_rejected_as_multiple": kf_rej,
                                      "note": "admissible parent and child with different usable framework sets: the implementation "
                                              "keeps both and rejects (Coq: C10_unconditional_preference_refuted); rejection is "
                                              "allowed by the property, so this is counted, not a verdict"})
    rep.add("doc", {**dinfo, "cases": len(docs), "disagreements": len(dbad),
                    "resolved": sum(1 for _, c in docs if c["obs"][0] == "some"),
                    "multiple": sum(1 for _, c in docs if c["obs"][0] == "multi")})
    rep.add("rule", "PRNG universes (VERIF_SEED) of 1-6 generated classes, chains <= 3, each created in 3 orders, 5 requests each "
                    "(API list / collector / feature framework+domain / links / simulated unavailability), all through "
                    "mloda.prepare + session.run; a subset re-run in fresh processes under other PYTHONHASHSEED values. "
                    "non-trivial = at least two generated classes accept the requested name (distinct universe+request). "
                    "Second family (harness/c10_hist.py): PRNG histories of one process = interleaved creation of feature-group classes "
                    "(criteria over name / group options / context options), of compute-framework subclasses of installed or late "
                    "frameworks, and requests with 1-4 features; every request compared with run_history on its operation prefix, the "
                    "last request also after a definitions-first history in other processes. non-trivial there = request with several "
                    "features or made after a class was created later than the first request (distinct operation prefix)")
    for u, c in (cases[0], cases[7], cases[len(cases) // 2]):
        rep.sample({"classes": u["classes"], "order": u["orders"][c["k"]], "request": u["requests"][c["ri"]], "obs": c["obs"]})

    # ---- second family: histories of one process (classes created between requests), requests with several features
    from harness import c10_hist
    gc.freeze()
    found = c10_hist.run(rep, tier, seed) or found
    gc.unfreeze()
    # ---- third family: same-named compute-framework classes; API entries by name / by class object (harness/c10_twin.py)
    from harness import c10_twin
    gc.collect()
    found = c10_twin.run(rep, tier, seed) or found
    if not pr.ok and not found:
        rep.finding("proof-broken", "Props/C10.v no longer checks",
                    {"failed_files": pr.failed_files, "forbidden": pr.forbidden, "log_tail": pr.log[-3000:]}, found_input=False)


def replay(path: str) -> int:
    r = json.load(open(path))["replay"]
    print(json.dumps({k: v for k, v in r.items() if k != "universe"}, indent=1))
    if r.get("kind") in ("hist", "hist-dep"):
        from harness import c10_hist
        c10_hist.replay(r)
        return 0
    if r.get("kind") in ("twin", "twin-order"):
        from harness import c10_twin
        c10_twin.replay(r)
        return 0
    u = r.get("universe")
    if not u:
        return 0
    print("classes:", json.dumps(u["classes"]))
    if r.get("kind") == "e2e":
        classes = realize(u, r["k"])
        o = observe(u, r["k"], classes, u["requests"][r["ri"]], random.Random(0))
        print("request:", json.dumps(u["requests"][r["ri"]]))
        print("recorded:", r["obs"])
        print("now     :", o["obs"])
        print("model case term:\n", case_term(u, {"k": r["k"], "ri": r["ri"], "env": o["env"], "obs": o["obs"]}))
    elif r.get("kind") == "order":
        for k in range(len(u["orders"])):
            classes = realize(u, k)
            o = observe(u, k, classes, u["requests"][r["ri"]], random.Random(0))
            print(f"order {u['orders'][k]}: {o['obs']}")
    elif r.get("kind") == "doc":
        classes = realize(u, r["k"])
        print("now:", observe_doc(u, r["k"], classes, r["name"]), "recorded:", r["obs"])
    return 0


if __name__ == "__main__":
    if "--worker" in sys.argv:
        sys.exit(worker_main())
