"""C10, second family — histories of one process and requests with several features.

Model: coq/Model/ResolveHist.v (run_history / request_outcome), spec: coq/Spec/ResolveHistRule.v, theorems: coq/Props/C10.v
(C10_history_invariant, C10_history_independent, C10_resolve_all_map_partial, C10_feature_group_matches_own_options, ...).

A *history* is a list of operations executed in ONE Python process:
  group : a real FeatureGroup subclass is created (type(...)); its match_feature_group_criteria is generated from a criteria
          term over the feature NAME, the GROUP options and the CONTEXT options (Options.get / .group / .context), either on
          top of the default criteria (DataCreator names, class name, prefix) or on an explicit name set
  fw    : a real ComputeFramework subclass is created as a subclass of an installed framework or of an earlier late
          framework (an INDIRECT subclass of ComputeFramework), is_available inherited or overridden
  req   : mloda.prepare + session.run of a request with 1..4 features (same name / group options, different context options;
          group-option, domain, framework variants; features that carry a Link), API framework list naming installed and late
          frameworks by class or by name, PluginCollector over the groups created so far
Every request's canonical observation is compared, inside Coq, with `run_history` evaluated on the SAME operation prefix.
The last request of every history is also observed in other processes after a DIFFERENT history with the same classes (all
class definitions first, no earlier request; some of them in a process of their own) and the observations are compared
directly.
"""
from __future__ import annotations

import gc
import json
import logging
import os
import random
import re
import subprocess
import sys
from concurrent.futures import ThreadPoolExecutor
from typing import Any, Dict, List, Optional, Tuple

logging.disable(logging.CRITICAL)
REQ = ["MV.Model.Resolve", "MV.Spec.ResolveRule", "MV.Model.ResolveHist", "MV.Spec.ResolveHistRule"]
INSTALLED = ["PyArrowTable", "PandasDataFrame", "PythonDictFramework", "PolarsDataFrame"]
FW_ID = {n: i for i, n in enumerate(INSTALLED)}
NO_SUCH = "NoSuchFw10"
BG_CID = 99
INDEXES = [["k"], ["j"], ["k", "j"], ["j", "k"]]
KF_LINK = "C10-feature-link-changes-later-features"
KF_DOMAIN = "C10-domain-none-vs-domain-compare-raises"

EXTRA = """
Inductive hobs :=
| HAns (l : list (option ((nat * list nat) * list nat))) (tabs : list nat) (ran : list (nat * nat))
| HErr (e : err) (names : option (list nat))
| HDup | HDomCmp | HOther.
Definition herr_eqb (a b : err) : bool :=
  match a, b with
  | EFwUnknown, EFwUnknown | ENoApiFramework, ENoApiFramework | EFeatureFwNotInApi, EFeatureFwNotInApi
  | ENoAccessible, ENoAccessible | ENoGroup, ENoGroup | EMultiple, EMultiple | ENoFramework, ENoFramework
  | EFwUnsupported, EFwUnsupported => true
  | _, _ => false
  end.
Definition ffs (f : feat) (gf : list nat) : list nat := match f_ffw f with Some x => [x] | None => gf end.
(* per requested feature: stored or not as the model says; a stored feature sits in the collection of the modelled group with
   the modelled framework sets *)
Fixpoint items_ok (fs : list feat) (l : list ((nat * list nat) * bool)) (o : list (option ((nat * list nat) * list nat))) : bool :=
  match fs, l, o with
  | [], [], [] => true
  | f :: fs', ((n, gf), st) :: l', x :: o' =>
      (match x, st with
       | None, false => true
       | Some ((n', gf'), ff'), true => Nat.eqb n n' && set_eqb gf gf' && set_eqb (ffs f gf) ff'
       | _, _ => false end) && items_ok fs' l' o'
  | _, _, _ => false
  end.
Fixpoint stored_pairs (i : nat) (l : list ((nat * list nat) * bool)) : list (nat * nat) :=
  match l with [] => [] | ((n, _), st) :: t => (if st then [(n, i)] else []) ++ stored_pairs (S i) t end.
Definition pmem (p : nat * nat) (l : list (nat * nat)) := existsb (fun q => Nat.eqb (fst p) (fst q) && Nat.eqb (snd p) (snd q)) l.
Definition pset_eqb (a b : list (nat * nat)) := forallb (fun p => pmem p b) a && forallb (fun p => pmem p a) b.
Fixpoint all_ffs (fs : list feat) (l : list ((nat * list nat) * bool)) : list nat :=
  match fs, l with f :: fs', ((_, gf), true) :: l' => ffs f gf ++ all_ffs fs' l' | _ :: fs', _ :: l' => all_ffs fs' l' | _, _ => [] end.
Definition no_flink (fs : list feat) := negb (existsb has_link fs).
Definition multi_names (e : env) (u : list xclass) (mrq : mrequest) : option (list nat) :=
  match find (fun f => match resolve_feat e u mrq (m_links mrq) f with Rejected EMultiple => true | _ => false end) (m_feats mrq) with
  | Some f => Some (map (fun p => cid (fst p)) (survivors e (as_request mrq (m_links mrq) f) (map (as_class f) u)))
  | None => None
  end.
Definition outcome_matches (st : pstate) (mrq : mrequest) (o : routcome) (h : hobs) : bool :=
  match o, h with
  | RAnswered l, HAns items tabs ran =>
      items_ok (m_feats mrq) l items && nonempty tabs
      && forallb (fun t => mem t (map (root_of (p_fws st)) (all_ffs (m_feats mrq) l))) tabs
      && pset_eqb (stored_pairs 0 l) ran
  | RRejected (RErr er), HErr er' names =>
      herr_eqb er er' && (match er, names with
                          | EMultiple, Some ns =>
                              if no_flink (m_feats mrq) then
                                match multi_names (env_of (fun x => x) (p_fws st)) (p_groups st) mrq with
                                | Some ms => set_eqb ms ns | None => false end
                              else true
                          | _, _ => true end)
  | RRejected RDuplicate, HDup => true
  | RRejected RDomainCompare, HDomCmp => true
  | _, _ => false
  end.
Definition last_req (ops : list op) : mrequest :=
  match last ops (Request {| m_api := []; m_collector := None; m_links := None; m_feats := [] |}) with
  | Request rq => rq | _ => {| m_api := []; m_collector := None; m_links := None; m_feats := [] |} end.
(* faithful model: the process model run on the whole operation prefix; the observation of its last request *)
Definition chk_hist (c : (pstate * list op) * hobs) : bool :=
  match c with ((st, ops), h) =>
    let r := run_history (fun x => x) (fun _ => id_walk) st ops in
    outcome_matches (fst r) (last_req ops) (last (snd r) (RRejected RDuplicate)) h
  end.
(* the two recorded deviations repaired: every feature resolved with the API links only, the duplicate check by identity *)
Fixpoint seq_fixed (e : env) (u : list xclass) (mrq : mrequest) (coll : stored) (fs : list feat) : list (result * bool) :=
  match fs with
  | [] => []
  | f :: t =>
      match resolve_feat e u mrq (m_links mrq) f with
      | Chosen n gf =>
          let ff := ffs f gf in
          if is_stored coll n f ff then (Chosen n gf, false) :: seq_fixed e u mrq coll t
          else (Chosen n gf, true) :: seq_fixed e u mrq (coll ++ [((n, f), ff)]) t
      | Rejected er => (Rejected er, false) :: seq_fixed e u mrq coll t
      end
  end.
Definition outcome_fixed (e : env) (u : list xclass) (mrq : mrequest) : routcome :=
  let rs := seq_fixed e u mrq [] (m_feats mrq) in
  let r1 := map fst rs in
  match first_err is_unknown r1 with
  | Some er => RRejected (RErr er)
  | None =>
      if negb (dup_free (m_feats mrq)) then RRejected RDuplicate else
      match orelse (first_err is_noapi r1) (orelse (first_err is_notinapi r1) (orelse (first_err is_noacc r1)
                   (first_err (fun _ => true) r1))) with
      | Some er => RRejected (RErr er)
      | None => RAnswered (answered_of rs)
      end
  end.
Definition chk_fixed (c : (pstate * list op) * hobs) : bool :=
  match c with ((st, ops), h) =>
    let s := final_state st ops in
    outcome_matches s (last_req ops) (outcome_fixed (env_of (fun x => x) (p_fws s)) (p_groups s) (last_req ops)) h
  end.
(* classification: the request lies in one of the two decidable deviation domains *)
Definition in_kf_link (c : (pstate * list op) * hobs) : bool :=
  match c with ((st, ops), _) => kf_feature_link (p_groups (final_state st ops)) (m_feats (last_req ops)) end.
Definition in_kf_dom (c : (pstate * list op) * hobs) : bool :=
  match c with ((st, ops), _) => kf_domain_mix (m_feats (last_req ops)) end.
Definition not_in_kf (c : (pstate * list op) * hobs) : bool := negb (in_kf_link c || in_kf_dom c).
"""
CASE_TY = "(pstate * list op) * hobs"


# ------------------------------------------------------------------------------------------------------------
# generation (plain JSON, no mloda objects)
# ------------------------------------------------------------------------------------------------------------
def gen_crit(rng: random.Random, names: List[str], dc: List[str]) -> dict:
    r = rng.random()
    leaf: dict = {"default": True} if (dc and r < 0.45) else {"names": sorted(set(names))}
    r = rng.random()
    if r < 0.30:
        return leaf
    unit, src = rng.choice(["c", "k"]), rng.choice(["p", "q"])
    if r < 0.55:
        o: dict = {"ctx": ["unit", unit]}
    elif r < 0.67:
        o = {"grp": ["src", src]}
    elif r < 0.77:
        o = {"get": ["unit", unit]}
    elif r < 0.83:
        o = {"get": ["domain", "dA"]}
    elif r < 0.90:
        o = {"not": {"ctx": ["unit", unit]}}
    elif r < 0.95:
        o = {"or": [{"ctx": ["unit", unit]}, {"grp": ["src", src]}]}
    else:
        o = {"and": [{"ctx": ["unit", unit]}, {"grp": ["src", src]}]}
    return {"and": [leaf, o]}


def fw_pool(ops: List[dict]) -> List[str]:
    return INSTALLED + [f"late{o['j']}" for o in ops if o["op"] == "fw"]


def gen_group(rng: random.Random, ops: List[dict], i: int) -> dict:
    groups = [o for o in ops if o["op"] == "group"]
    cands = [g["i"] for g in groups if g["depth"] < 3]
    p = rng.choice(cands) if cands and rng.random() < 0.5 else None
    depth = 1 if p is None else next(g["depth"] for g in groups if g["i"] == p) + 1
    pool = ["r", "r", "r", "s", "t"]
    if p is not None and rng.random() < 0.4:
        dc: Any = None                                              # inherit input_data
    else:
        dc = sorted({rng.choice(pool) for _ in range(rng.choice([1, 1, 2]))})
    twins = [g for g in groups if g["crit"] and "and" in g["crit"] and ("ctx" in g["crit"]["and"][1] or "get" in g["crit"]["and"][1])
             and (g["crit"]["and"][1].get("ctx") or g["crit"]["and"][1].get("get"))[0] == "unit"]
    if p is not None and rng.random() < 0.45:
        crit: Any = None                                            # inherit match_feature_group_criteria
    elif twins and rng.random() < 0.55:
        # the same names as an existing group, selected by the OTHER value of the option `unit`
        t = rng.choice(twins)
        kind = "ctx" if "ctx" in t["crit"]["and"][1] else "get"
        other = "k" if t["crit"]["and"][1][kind][1] == "c" else "c"
        crit = {"and": [t["crit"]["and"][0], {kind: ["unit", other]}]}
        if "default" in crit["and"][0]:
            dc = own_or_inherited(ops, t["i"], "dc", [])
    else:
        crit = gen_crit(rng, [rng.choice(pool) for _ in range(rng.choice([1, 1, 2]))], dc or [])
    dom = None if (p is not None and rng.random() < 0.6) else rng.choice(["default"] * 6 + ["dA"])
    r = rng.random()
    fws = fw_pool(ops)
    late = [x for x in fws if x.startswith("late")]
    if p is not None and r < 0.4:
        rule: Any = None
    elif r < 0.72:
        rule = True
    else:
        k = rng.choice([1, 1, 2, 2, 3])
        rule = sorted(set(rng.sample(fws + late * 2, min(k, len(fws)))), key=fws.index)
    r = rng.random()
    if p is not None and r < 0.6:
        idx: Any = None
    elif r < 0.8:
        idx = "none"
    else:
        idx = [list(x) for x in rng.sample(INDEXES, rng.choice([1, 1, 2]))]
    roots = [g for g in groups if g["parent"] is None and g["crit"] is not None and g["idx"] == "none"]
    if roots and rng.random() < 0.14:
        # an unrelated group with the SAME criteria that declares index columns: only links tell the two apart
        t = rng.choice(roots)
        p, depth, dc, crit, dom, rule = None, 1, t["dc"], t["crit"], t["dom"], True
        idx = [list(x) for x in rng.sample(INDEXES[:2], 1)]
    return {"op": "group", "i": i, "parent": p, "depth": depth, "dc": dc, "crit": crit, "dom": dom, "rule": rule, "idx": idx}


def gen_fw(rng: random.Random, ops: List[dict], j: int) -> dict:
    late = [o for o in ops if o["op"] == "fw"]
    if late and rng.random() < 0.3:
        parent = f"late{rng.choice(late)['j']}"
    else:
        parent = rng.choice(["PyArrowTable", "PyArrowTable", "PandasDataFrame", "PandasDataFrame", "PythonDictFramework",
                             "PolarsDataFrame"])
    r = rng.random()
    avail: Any = None
    if r < 0.15:
        avail = False
    elif r < 0.22 and root_name(ops, parent) != "PolarsDataFrame":
        avail = True
    return {"op": "fw", "j": j, "parent": parent, "avail": avail}


def root_name(ops: List[dict], name: str) -> str:
    while name.startswith("late"):
        name = next(o["parent"] for o in ops if o["op"] == "fw" and f"late{o['j']}" == name)
    return name


def own_or_inherited(ops: List[dict], i: int, key: str, default: Any) -> Any:
    g = next(o for o in ops if o["op"] == "group" and o["i"] == i)
    while g[key] is None and g["parent"] is not None:
        g = next(o for o in ops if o["op"] == "group" and o["i"] == g["parent"])
    return default if g[key] is None else g[key]


def satisfy(rng: random.Random, crit: dict, f: dict, dc: List[str], i: int) -> None:
    """Make feature f satisfy the criteria term (best effort; used only to steer the generator)."""
    if "default" in crit:
        r = rng.random()
        f["name"] = {"plain": rng.choice(dc)} if (dc and r < 0.8) else ({"cls": i} if r < 0.9 else {"prefix": i})
    elif "names" in crit:
        f["name"] = {"plain": rng.choice(crit["names"])}
    elif "ctx" in crit:
        f["group"].pop(crit["ctx"][0], None)
        f["ctx"][crit["ctx"][0]] = crit["ctx"][1]
    elif "grp" in crit:
        f["ctx"].pop(crit["grp"][0], None)
        f["group"][crit["grp"][0]] = crit["grp"][1]
    elif "get" in crit:
        k, val = crit["get"]
        if k == "domain":
            f["dom"], f["dom_via"] = val, rng.choice(["group", "ctx"])
        else:
            f["group"].pop(k, None)
            f["ctx"].pop(k, None)
            (f["ctx"] if rng.random() < 0.6 else f["group"])[k] = val
    elif "and" in crit:
        for c in crit["and"]:
            satisfy(rng, c, f, dc, i)
    elif "or" in crit:
        satisfy(rng, rng.choice(crit["or"]), f, dc, i)
    elif "not" in crit and "ctx" in crit["not"]:
        if f["ctx"].get(crit["not"]["ctx"][0]) == crit["not"]["ctx"][1]:
            f["ctx"][crit["not"]["ctx"][0]] = "z"


def gen_feat(rng: random.Random, ops: List[dict], api_names: Optional[List[str]] = None) -> dict:
    groups = [o for o in ops if o["op"] == "group"]
    f: dict = {"name": {"plain": "r"}, "group": {}, "ctx": {}, "dom": None, "dom_via": "param", "ffw": None, "ffw_via": "param",
               "link": None}
    r = rng.random()
    if r < 0.25:
        f["ctx"]["unit"] = rng.choice(["c", "k", "c", "k", "z"])
    elif r < 0.32:
        f["group"]["unit"] = rng.choice(["c", "k"])
    if rng.random() < 0.15:
        (f["group"] if rng.random() < 0.8 else f["ctx"])["src"] = rng.choice(["p", "q"])
    r = rng.random()
    if r < 0.80 and groups:                                           # aim at one of the existing groups
        g = rng.choice(groups)
        satisfy(rng, own_or_inherited(ops, g["i"], "crit", {"default": True}), f, own_or_inherited(ops, g["i"], "dc", []), g["i"])
    elif r < 0.97:
        f["name"] = {"plain": rng.choice(["r", "s", "t"])}
    else:
        f["name"] = {"plain": "zz"}
    if f["dom"] is None and rng.random() < 0.12:
        f["dom"] = rng.choice(["default_domain", "default_domain", "dA", "dA", "dB"])
        f["dom_via"] = rng.choice(["param", "param", "group", "ctx"])
    if rng.random() < 0.18:
        pool = fw_pool(ops)
        f["ffw"] = rng.choice(api_names) if (api_names and rng.random() < 0.8) else rng.choice(pool[:3] + pool)
        if rng.random() < 0.04:
            f["ffw"] = NO_SUCH
        f["ffw_via"] = rng.choice(["param", "param", "group", "ctx"])
    return f


def variant_of(rng: random.Random, f: dict, ops: List[dict]) -> dict:
    """A feature that differs from f in ONE respect (most often: a context option only)."""
    g = json.loads(json.dumps(f))
    r = rng.random()
    if r < 0.25:
        g["ctx"]["tag"] = rng.choice(["1", "2", "3"]) if "tag" not in g["ctx"] else g["ctx"]["tag"] + "x"   # a context option nobody reads
        return g
    r = rng.random()
    if r < 0.6:
        cur = g["ctx"].get("unit")
        if "unit" in g["group"]:
            g["group"]["unit"] = rng.choice([x for x in ["c", "k", "z"] if x != g["group"]["unit"]])
        else:
            g["ctx"]["unit"] = rng.choice([x for x in ["c", "k", "c", "k", "c", "k", "z"] if x != cur])
    elif r < 0.72:
        if "src" in g["ctx"]:
            g["ctx"]["src"] = "q" if g["ctx"]["src"] == "p" else "p"
        else:
            g["group"]["src"] = "q" if g["group"].get("src") == "p" else "p"
    elif r < 0.755:
        g["dom"], g["dom_via"] = (None, "param") if g["dom"] else (rng.choice(["default_domain", "dA"]), "param")
    elif r < 0.88:
        if g["dom"]:
            g["dom"] = "dA" if g["dom"] != "dA" else "default_domain"
        else:
            g["ctx"]["tag"] = "1"
    elif r < 0.95:
        g["ffw"], g["ffw_via"] = (None, "param") if g["ffw"] else (rng.choice(fw_pool(ops)[:3]), "param")
    else:
        g["name"] = {"plain": "s"} if g["name"] != {"plain": "s"} else {"plain": "t"}
    return g


def gen_request(rng: random.Random, ops: List[dict]) -> dict:
    groups = [o["i"] for o in ops if o["op"] == "group"]
    fws = fw_pool(ops)
    late = [x for x in fws if x.startswith("late")]
    r = rng.random()
    if r < 0.40:
        api: Any = None
    else:
        k = rng.choice([1, 1, 2, 2, 3])
        future = f"late{len(late)}"                               # a framework that does not exist yet (it may later)
        cand = fws[:3] * 4 + fws + late * 3 + ([NO_SUCH, future] if rng.random() < 0.3 else [])
        names = sorted(set(rng.sample(cand, min(k, len(cand)))), key=(fws + [NO_SUCH, future]).index)
        api = {"names": names} if (rng.random() < 0.5 or NO_SUCH in names or future in names) else {"classes": names}
    api_names = None if api is None else [x for x in (api.get("names") or api.get("classes")) if x in fws]
    nf = rng.choice([1, 1, 2, 2, 2, 3, 3, 4])
    feats = [gen_feat(rng, ops, api_names)]
    tries = 0
    while len(feats) < nf and tries < 20:
        tries += 1
        g = variant_of(rng, rng.choice(feats), ops) if rng.random() < 0.7 else gen_feat(rng, ops, api_names)
        if not any(same_feature(g, x) for x in feats):
            feats.append(g)
    if rng.random() < 0.04 and len(feats) < 4:
        feats.append(json.loads(json.dumps(rng.choice(feats))))     # the same feature twice
    rng.shuffle(feats)
    if rng.random() < 0.25:                                          # a feature that carries a Link
        rng.choice(feats if rng.random() < 0.5 else feats[:1])["link"] = [rng.choice(INDEXES), rng.choice(INDEXES)]
    r = rng.random()
    if r < 0.12 or not groups:
        col: Any = None
    elif r < 0.70:
        col = {"en": groups, "dis": []}
    elif r < 0.85:
        col = {"en": sorted(rng.sample(groups, rng.randrange((len(groups) + 1) // 2, len(groups) + 1))), "dis": []}
    else:
        col = {"en": groups, "dis": sorted(rng.sample(groups, rng.randrange(0, len(groups) // 2 + 1)))}
    links = None
    if rng.random() < 0.15:
        links = [[rng.choice(INDEXES), rng.choice(INDEXES)]]
    return {"op": "req", "api": api, "col": col, "links": links, "feats": feats}


def same_feature(a: dict, b: dict) -> bool:
    """Generator-side only: the two descriptions denote the same requested feature (link aside)."""
    key = lambda f: (f["name"], f["group"], f["ctx"], f["dom"], f["dom_via"] if f["dom"] else None, f["ffw"], f["ffw_via"] if f["ffw"] else None)
    return key(a) == key(b)


def gen_history(rng: random.Random, hid: int) -> dict:
    ops: List[dict] = []
    gi = fj = 0

    def add_defs(n: int, p_fw: float) -> None:
        nonlocal gi, fj
        for _ in range(n):
            if rng.random() < p_fw:
                ops.append(gen_fw(rng, ops, fj))
                fj += 1
            else:
                ops.append(gen_group(rng, ops, gi))
                gi += 1

    ops.append(gen_group(rng, ops, 0))
    gi = 1
    add_defs(rng.choice([0, 1, 1, 2]), 0.25)
    rounds = rng.choice([1, 2, 2, 3])
    pool: List[dict] = []
    for _ in range(rounds):
        for _ in range(rng.choice([1, 1, 2])):
            if pool and rng.random() < 0.35:
                rq = json.loads(json.dumps(rng.choice(pool)))      # the same request again, after more classes exist
                if rq["col"] is not None and rng.random() < 0.7:
                    rq["col"] = {"en": [o["i"] for o in ops if o["op"] == "group"], "dis": rq["col"]["dis"]}
            else:
                rq = gen_request(rng, ops)
            pool.append(rq)
            ops.append(rq)
        add_defs(rng.choice([1, 1, 2]), 0.55)
    last = gen_request(rng, ops)
    late = [x for x in fw_pool(ops) if x.startswith("late")]
    if late and rng.random() < 0.6:                                  # make the final request use a late framework
        nm = rng.choice(late)
        last["api"] = rng.choice([{"classes": [nm]}, {"names": [nm]}, {"classes": sorted({nm, "PandasDataFrame"})}, None])
        if last["api"] is None:
            last["feats"][0]["ffw"], last["feats"][0]["ffw_via"] = nm, "param"
    ops.append(last)
    return {"hid": hid, "ops": ops}


def defs_first(h: dict) -> dict:
    """Another history with the same classes: every definition first, then only the last request."""
    return {"hid": h["hid"], "ops": [o for o in h["ops"] if o["op"] != "req"] + [h["ops"][-1]]}


# ------------------------------------------------------------------------------------------------------------
# meaning of a history (model side; from the documented rules, never by calling mloda)
# ------------------------------------------------------------------------------------------------------------
def gname(hid: int, v: int, i: int) -> str:
    return f"H10h{hid}v{v}g{i}"


def fwname(hid: int, v: int, ref: str) -> str:
    return f"F10h{hid}v{v}f{ref[4:]}" if ref.startswith("late") else ref


def featname(hid: int, v: int, name: dict) -> str:
    if "plain" in name:
        return f"q{hid}v{v}{name['plain']}"
    if "cls" in name:
        return gname(hid, v, name["cls"])
    return gname(hid, v, name["prefix"]) + "_x"


def fw_id(ref: str) -> int:
    if ref.startswith("late"):
        return 100 + int(ref[4:])
    return FW_ID.get(ref, 9)


def feat_options(hid: int, v: int, f: dict) -> Tuple[Dict[str, str], Dict[str, str]]:
    group, ctx = dict(f["group"]), dict(f["ctx"])
    if f["dom"] and f["dom_via"] in ("group", "ctx"):
        (group if f["dom_via"] == "group" else ctx)["domain"] = f["dom"]
    if f["ffw"] and f["ffw_via"] in ("group", "ctx"):
        (group if f["ffw_via"] == "group" else ctx)["compute_framework"] = fwname(hid, v, f["ffw"])
    return group, ctx


def effective_groups(h: dict, v: int, upto: int) -> List[dict]:
    """Effective attributes (after Python inheritance) of the groups defined by ops[:upto]."""
    hid = h["hid"]
    pool = sorted({featname(hid, v, f["name"]) for o in h["ops"] if o["op"] == "req" for f in o["feats"]})
    out: Dict[int, dict] = {}
    for o in h["ops"][:upto]:
        if o["op"] != "group":
            continue
        p = out[o["parent"]] if o["parent"] is not None else None
        dc = o["dc"] if o["dc"] is not None else (p["dc"] if p else [])
        crit = o["crit"] if o["crit"] is not None else (p["crit"] if p else {"default": True})
        dom = o["dom"] if o["dom"] is not None else (p["dom"] if p else "default")
        rule = o["rule"] if o["rule"] is not None else (p["rule"] if p else True)
        idx = o["idx"] if o["idx"] is not None else (p["idx"] if p else "none")
        me = gname(hid, v, o["i"])
        dcn = [f"q{hid}v{v}{a}" for a in dc]
        default_names = [nm for nm in pool if nm in dcn or nm == me or nm.startswith(me + "_")]
        sup = [] if p is None else [o["parent"]] + p["supers"]
        out[o["i"]] = {"cid": o["i"], "supers": sup, "dc": dc, "crit": crit, "dom": dom, "rule": rule, "idx": idx,
                       "default_names": default_names}
    return [out[k] for k in sorted(out)]


def effective_fws(h: dict, upto: int, base_avail: Dict[str, bool]) -> List[dict]:
    out: Dict[str, dict] = {n: {"id": FW_ID[n], "root": FW_ID[n], "avail": base_avail[n]} for n in INSTALLED}
    for o in h["ops"][:upto]:
        if o["op"] != "fw":
            continue
        p = out[o["parent"]]
        out[f"late{o['j']}"] = {"id": 100 + o["j"], "root": p["root"], "avail": p["avail"] if o["avail"] is None else o["avail"]}
    return list(out.values())


# ------------------------------------------------------------------------------------------------------------
# real classes and real requests
# ------------------------------------------------------------------------------------------------------------
RAN: List[Tuple[str, List[str]]] = []
_holders: List[type] = []


def installed_classes() -> Dict[str, type]:
    from harness.c10 import fw_classes
    return fw_classes()


def link_holders() -> List[type]:
    if not _holders:
        from mloda.provider import FeatureGroup, DataCreator
        for nm in ("L10histA", "L10histB"):
            _holders.append(type(nm, (FeatureGroup,), {"input_data": classmethod(lambda cls: DataCreator(set()))}))
    return _holders


def py_crit(crit: dict, hid: int, v: int) -> Any:
    """The criteria term as a Python predicate over (cls, feature_name, options, data_access_collection)."""
    from mloda.provider import FeatureGroup
    if "default" in crit:
        base = FeatureGroup.match_feature_group_criteria.__func__          # the default criteria, evaluated for cls
        return lambda cls, n, o, d: bool(base(cls, n, o, d))
    if "names" in crit:
        ns = {f"q{hid}v{v}{a}" for a in crit["names"]}
        return lambda cls, n, o, d: str(n) in ns
    if "ctx" in crit:
        k, val = crit["ctx"]
        return lambda cls, n, o, d: o.context.get(k) == val
    if "grp" in crit:
        k, val = crit["grp"]
        return lambda cls, n, o, d: o.group.get(k) == val
    if "get" in crit:
        k, val = crit["get"]
        return lambda cls, n, o, d: o.get(k) == val
    if "not" in crit:
        a = py_crit(crit["not"], hid, v)
        return lambda cls, n, o, d: not a(cls, n, o, d)
    a, b = (py_crit(x, hid, v) for x in (crit.get("and") or crit.get("or")))
    if "and" in crit:
        return lambda cls, n, o, d: a(cls, n, o, d) and b(cls, n, o, d)
    return lambda cls, n, o, d: a(cls, n, o, d) or b(cls, n, o, d)


class Proc:
    """The classes of one history realised in this process."""

    def __init__(self, h: dict, v: int) -> None:
        self.h, self.v = h, v
        self.groups: Dict[int, type] = {}
        self.fws: Dict[str, type] = dict(installed_classes())
        self.foreign: Dict[str, int] = {}          # frameworks of other histories that are still alive: name -> number

    def define(self, o: dict) -> None:
        from mloda.provider import FeatureGroup, DataCreator
        from mloda.user import Index
        from mloda.core.abstract_plugins.components.domain import Domain
        hid, v = self.h["hid"], self.v
        if o["op"] == "fw":
            d: Dict[str, Any] = {}
            if o["avail"] is not None:
                d["is_available"] = staticmethod(lambda _a=o["avail"]: _a)
            self.fws[f"late{o['j']}"] = type(fwname(hid, v, f"late{o['j']}"), (self.fws[o["parent"]],), d)
            return
        base = FeatureGroup if o["parent"] is None else self.groups[o["parent"]]
        d = {}

        def calculate_feature(cls: Any, data: Any, features: Any) -> Any:
            RAN.append((cls.__name__, [str(f.uuid) for f in features.features]))
            return {n: [1, 2] for n in features.get_all_names()}

        d["calculate_feature"] = classmethod(calculate_feature)
        if o["dc"] is not None:
            names = {f"q{hid}v{v}{a}" for a in o["dc"]}
            d["input_data"] = classmethod(lambda cls, _n=names: DataCreator(set(_n)))
        elif o["parent"] is None:
            d["input_data"] = classmethod(lambda cls: DataCreator(set()))
        if o["crit"] is not None and o["crit"] != {"default": True}:
            pred = py_crit(o["crit"], hid, v)
            d["match_feature_group_criteria"] = classmethod(lambda cls, feature_name, options, data_access_collection=None, _p=pred:
                                                            bool(_p(cls, feature_name, options, data_access_collection)))
        elif o["crit"] is not None and o["parent"] is not None:
            basef = FeatureGroup.match_feature_group_criteria.__func__
            d["match_feature_group_criteria"] = classmethod(lambda cls, feature_name, options, data_access_collection=None:
                                                            basef(cls, feature_name, options, data_access_collection))
        if o["dom"] is not None:
            dn = "default_domain" if o["dom"] == "default" else o["dom"]
            d["get_domain"] = classmethod(lambda cls, _d=dn: Domain(_d))
        if o["rule"] is not None:
            if o["rule"] is True:
                d["compute_framework_rule"] = classmethod(lambda cls: True)
            else:
                rs = [self.fws[x] for x in o["rule"]]
                d["compute_framework_rule"] = classmethod(lambda cls, _r=rs: set(_r))
        if o["idx"] is not None:
            if o["idx"] == "none":
                d["index_columns"] = classmethod(lambda cls: None)
            else:
                ix = [tuple(x) for x in o["idx"]]
                d["index_columns"] = classmethod(lambda cls, _i=ix: [Index(t) for t in _i])
        self.groups[o["i"]] = type(gname(hid, v, o["i"]), (base,), d)

    def fw_num(self, c: type) -> int:
        for ref, k in self.fws.items():
            if k is c:
                return fw_id(ref)
        return self.foreign.get(c.__name__, 50)

    def request(self, o: dict, rng: random.Random) -> dict:
        from harness.c10 import classify, table_fw
        from mloda.user import mloda, Feature, PluginCollector, Link, JoinSpec, Index, Options
        hid, v = self.h["hid"], self.v
        cls_index = {c.__name__: i for i, c in self.groups.items()}
        uuids: List[str] = []
        try:
            feats = []
            ha, hb = link_holders()
            for f in o["feats"]:
                group, ctx = feat_options(hid, v, f)
                kw: Dict[str, Any] = {}
                if f["dom"] and f["dom_via"] == "param":
                    kw["domain"] = f["dom"]
                if f["ffw"] and f["ffw_via"] == "param":
                    kw["compute_framework"] = fwname(hid, v, f["ffw"])
                if f["link"] is not None:
                    kw["link"] = Link.inner(JoinSpec(ha, Index(tuple(f["link"][0]))), JoinSpec(hb, Index(tuple(f["link"][1]))))
                ft = Feature(featname(hid, v, f["name"]), options=Options(group=group, context=ctx), **kw)
                uuids.append(str(ft.uuid))
                feats.append(ft)
            api: Any = None
            if o["api"] is not None:
                if "names" in o["api"]:
                    api = [fwname(hid, v, x) for x in o["api"]["names"]]
                    rng.shuffle(api)
                else:
                    api = {self.fws[x] for x in o["api"]["classes"]}
            pc = None
            if o["col"] is not None:
                pc = PluginCollector()
                en, dis = list(o["col"]["en"]), list(o["col"]["dis"])
                rng.shuffle(en)
                rng.shuffle(dis)
                if en:
                    pc.add_enabled_feature_group_classes({self.groups[i] for i in en})
                if dis:
                    pc.add_disabled_feature_group_classes({self.groups[i] for i in dis})
            links = None
            if o["links"] is not None:
                links = {Link.inner(JoinSpec(ha, Index(tuple(l[0]))), JoinSpec(hb, Index(tuple(l[1])))) for l in o["links"]}
            session = mloda.prepare(feats, compute_frameworks=api, links=links, plugin_collector=pc)
        except Exception as e:  # noqa: BLE001
            m = str(e)
            if isinstance(e, ValueError) and m.startswith("Duplicate feature setup"):
                return {"dup": True}
            if isinstance(e, ValueError) and m.startswith("Cannot compare Domain with"):
                return {"domcmp": True}
            kind, names = classify(e)
            if kind.startswith("Other"):
                return {"other": kind}
            unknown = [n for n in names if n not in cls_index]
            if unknown:
                return {"other": f"Other:foreign classes in message {unknown}"}
            return {"err": kind, "names": sorted(cls_index[n] for n in names)}
        try:
            where: Dict[str, Tuple[type, Any]] = {}
            for c, fs in session.engine.feature_group_collection.items():
                for f in fs:
                    where[str(f.uuid)] = (c, f)
            extra = [u for u in where if u not in uuids]
            if extra or any(c.__name__ not in cls_index for c, _ in where.values()):
                return {"other": f"Other:planned {sorted(c.__name__ for c, _ in where.values())}"}
            items: List[Any] = []
            for u in uuids:
                if u not in where:
                    items.append(None)
                    continue
                c, f = where[u]
                items.append({"cid": cls_index[c.__name__],
                              "gf": sorted(self.fw_num(x) for x in session.engine.accessible_plugins[c]),
                              "ff": sorted(self.fw_num(x) for x in (f.compute_frameworks or []))})
            RAN.clear()
            res = session.run()
            tabs = sorted(table_fw(t) for t in res)
            ran = sorted({(cls_index.get(n, 98), uuids.index(u) if u in uuids else 97) for n, us in RAN for u in us})
            return {"items": items, "tabs": tabs, "ran": [list(x) for x in ran]}
        except Exception as e:  # noqa: BLE001
            return {"other": f"Other:run:{type(e).__name__}:{str(e)[:160]}"}


def all_subclasses(c: type) -> List[type]:
    out: List[type] = []
    for s in c.__subclasses__():
        out.append(s)
        out.extend(all_subclasses(s))
    return out


def process_frameworks() -> Dict[str, bool]:
    """Harness-side walk of the ComputeFramework class tree (does not use mloda's get_all_subclasses)."""
    from mloda.provider import ComputeFramework
    return {c.__name__: bool(c.is_available()) for c in all_subclasses(ComputeFramework)}


def run_history(h: dict, v: int, seed: int) -> List[dict]:
    """Execute one history in this process; one record per request."""
    p = Proc(h, v)
    out = []
    before = process_frameworks()
    own = {fwname(h["hid"], v, f"late{o['j']}") for o in h["ops"] if o["op"] == "fw"}
    for k, o in enumerate(h["ops"]):
        if o["op"] != "req":
            p.define(o)
            continue
        rng = random.Random(seed * 1000003 + h["hid"] * 131 + v * 17 + k)
        now = process_frameworks()
        foreign = sorted(n for n in now if n not in INSTALLED and n not in own)
        p.foreign = {n: 1000 + x for x, n in enumerate(foreign)}
        obs = p.request(o, rng)
        out.append({"hid": h["hid"], "v": v, "k": k, "obs": obs, "foreign_fw": {n: now[n] for n in foreign},
                    "base_avail": {n: now.get(n, False) for n in INSTALLED}})
    del p, before
    gc.collect()
    return out


# ------------------------------------------------------------------------------------------------------------
# Coq terms
# ------------------------------------------------------------------------------------------------------------
def nl(xs: Any) -> str:
    from lib.vlib import cq_list, cq_nat
    return cq_list(cq_nat(int(x)) for x in xs)


def cq_opts(d: Dict[str, str]) -> str:
    from lib.vlib import cq_list, cq_str
    return cq_list(f"({cq_str(k)}, {cq_str(d[k])})" for k in sorted(d))


def cq_idx(t: List[str]) -> str:
    from lib.vlib import cq_list, cq_str
    return cq_list(cq_str(s) for s in t)


def cq_crit(crit: dict, g: dict, hid: int, v: int) -> str:
    from lib.vlib import cq_list, cq_str
    if "default" in crit:
        return f"(CNames {cq_list(cq_str(n) for n in g['default_names'])})"
    if "names" in crit:
        return f"(CNames {cq_list(cq_str(f'q{hid}v{v}{a}') for a in crit['names'])})"
    for key, con in (("ctx", "CCtx"), ("grp", "CGroup"), ("get", "CGet")):
        if key in crit:
            return f"({con} {cq_str(crit[key][0])} {cq_str(crit[key][1])})"
    if "not" in crit:
        return f"(CNot {cq_crit(crit['not'], g, hid, v)})"
    key, con = ("and", "CAnd") if "and" in crit else ("or", "COr")
    return f"({con} {cq_crit(crit[key][0], g, hid, v)} {cq_crit(crit[key][1], g, hid, v)})"


def cq_group(g: dict, hid: int, v: int) -> str:
    from lib.vlib import cq_list, cq_str, cq_nat
    dom = "default_domain" if g["dom"] == "default" else g["dom"]
    rule = "None" if g["rule"] is True else f"(Some {nl(fw_id(x) for x in g['rule'])})"
    idx = "None" if g["idx"] == "none" else "(Some " + cq_list(cq_idx(t) for t in g["idx"]) + ")"
    return (f"{{| x_cid := {cq_nat(g['cid'])}; x_supers := {nl(g['supers'])}; x_crit := {cq_crit(g['crit'], g, hid, v)}; "
            f"x_dom := {cq_str(dom)}; x_rule := {rule}; x_idx := {idx} |}}")


BG = '{| x_cid := 99%nat; x_supers := []; x_crit := CNames []; x_dom := "default_domain"; x_rule := None; x_idx := None |}'


def cq_fwnode(n: dict) -> str:
    return f"{{| fid := {int(n['id'])}%nat; froot := {int(n['root'])}%nat; favail := {'true' if n['avail'] else 'false'} |}}"


def cq_feat(f: dict, hid: int, v: int) -> str:
    from lib.vlib import cq_str
    group, ctx = feat_options(hid, v, f)
    dom = f"(Some {cq_str(f['dom'])})" if (f["dom"] and f["dom_via"] == "param") else "None"
    ffw = f"(Some {fw_id(f['ffw'])}%nat)" if f["ffw"] else "None"
    link = "None" if f["link"] is None else f"(Some ({cq_idx(f['link'][0])}, {cq_idx(f['link'][1])}))"
    return (f"{{| f_name := {cq_str(featname(hid, v, f['name']))}; f_group := {cq_opts(group)}; f_ctx := {cq_opts(ctx)}; "
            f"f_dom := {dom}; f_ffw := {ffw}; f_link := {link} |}}")


def cq_req(o: dict, hid: int, v: int) -> str:
    from lib.vlib import cq_list
    # API entries by kind (str -> AName, class object -> AClass); class names are unique in this family and a class is numbered
    # like its name (nm = identity function), see harness/c10_twin.py for same-named classes
    if o["api"] is None:
        api = []
    elif "names" in o["api"]:
        api = [f"AName {fw_id(x)}%nat" for x in o["api"]["names"]]
    else:
        api = [f"AClass {fw_id(x)}%nat" for x in o["api"]["classes"]]
    col = "None" if o["col"] is None else f"(Some ({nl(o['col']['en'])}, {nl(o['col']['dis'])}))"
    links = "None" if o["links"] is None else "(Some " + cq_list(f"({cq_idx(l[0])}, {cq_idx(l[1])})" for l in o["links"]) + ")"
    return (f"{{| m_api := {cq_list(api)}; m_collector := {col}; m_links := {links}; "
            f"m_feats := {cq_list(cq_feat(f, hid, v) for f in o['feats'])} |}}")


def cq_obs(o: dict) -> str:
    from lib.vlib import cq_list
    if "other" in o:
        return "HOther"
    if "dup" in o:
        return "HDup"
    if "domcmp" in o:
        return "HDomCmp"
    if "err" in o:
        names = f"(Some {nl(o['names'])})" if o["err"] == "EMultiple" else "None"
        return f"(HErr {o['err']} {names})"
    items = cq_list("None" if it is None else f"(Some (({int(it['cid'])}%nat, {nl(it['gf'])}), {nl(it['ff'])}))" for it in o["items"])
    ran = cq_list(f"({int(a)}%nat, {int(b)}%nat)" for a, b in o["ran"])
    return f"(HAns {items} {nl(o['tabs'])} {ran})"


def case_term(h: dict, rec: dict) -> str:
    """(initial process state, operation prefix up to and including request k), observation."""
    from lib.vlib import cq_list
    hid, v, k = h["hid"], rec["v"], rec["k"]
    groups = {g["cid"]: g for g in effective_groups(h, v, k)}
    fws = {n["id"]: n for n in effective_fws(h, k, rec["base_avail"])}
    st_fws = [n for n in fws.values() if n["id"] < 100]
    for x, (nm, av) in enumerate(sorted(rec["foreign_fw"].items())):     # classes of other histories still alive
        st_fws.append({"id": 1000 + x, "root": 1000 + x, "avail": av})
    ops = []
    for o in h["ops"][:k + 1]:
        if o["op"] == "group":
            ops.append(f"DefGroup {cq_group(groups[o['i']], hid, v)}")
        elif o["op"] == "fw":
            ops.append(f"DefFw {cq_fwnode(fws[100 + o['j']])}")
        else:
            ops.append(f"Request {cq_req(o, hid, v)}")
    st = f"{{| p_groups := [{BG}]; p_fws := {cq_list(cq_fwnode(n) for n in st_fws)} |}}"
    return f"(({st}, {cq_list(ops)}), {cq_obs(rec['obs'])})"


def canon(o: dict) -> Any:
    """What must not depend on the history: everything except WHICH admissible framework ran."""
    if "items" in o:
        own = lambda xs: tuple(x for x in xs if x < 1000)     # frameworks of OTHER histories still alive belong to the process, not to the history
        return ("ans", tuple(None if it is None else (it["cid"], own(it["gf"]), own(it["ff"])) for it in o["items"]),
                tuple(map(tuple, o["ran"])))
    if "err" in o:
        return ("err", o["err"], tuple(o["names"]))
    return tuple(sorted(o.items()))


# ------------------------------------------------------------------------------------------------------------
def worker_main() -> int:
    spec = json.load(sys.stdin)
    out = []
    for h in spec["histories"]:
        out += run_history(h, spec["v"], spec["seed"])
    json.dump(out, sys.stdout)
    return 0


def run_in_subprocess(histories: List[dict], v: int, seed: int, hashseed: int) -> List[dict]:
    env = dict(os.environ)
    env["PYTHONHASHSEED"] = str(hashseed)
    p = subprocess.run([sys.executable, "-m", "harness.c10_hist", "--worker"],
                       input=json.dumps({"histories": histories, "v": v, "seed": seed}),
                       capture_output=True, text=True, timeout=900, env=env,
                       cwd=os.path.dirname(os.path.dirname(os.path.abspath(__file__))))
    if p.returncode != 0:
        raise RuntimeError(f"history worker failed (PYTHONHASHSEED={hashseed}):\n{p.stderr[-2000:]}")
    return json.loads(p.stdout)


def model_says(term: str) -> str:
    from lib import vlib
    try:
        out = vlib.coq_eval("C10", "hsays", REQ, EXTRA + f"\nDefinition the_case : {CASE_TY} := {term}.\n"
                            "Eval vm_compute in (let '((st, ops), _) := the_case in last (snd (run_history (fun x => x) (fun _ => id_walk) st ops)) "
                            "(RRejected RDuplicate)).")
        m = re.search(r"=\s*(.*?)\s*:\s*routcome", out, re.S)
        return " ".join(m.group(1).split()) if m else out[-200:]
    except Exception as e:  # noqa: BLE001
        return f"(model evaluation failed: {e})"


def ctx_only_pairs(o: dict) -> int:
    n = 0
    fs = o["feats"]
    for a in range(len(fs)):
        for b in range(a + 1, len(fs)):
            x, y = fs[a], fs[b]
            if (x["name"] == y["name"] and x["group"] == y["group"] and x["dom"] == y["dom"] and x["ffw"] == y["ffw"]
                    and x["dom_via"] == y["dom_via"] and x["ffw_via"] == y["ffw_via"] and x["ctx"] != y["ctx"]):
                n += 1
    return n


def run(rep: Any, tier: str, seed: int) -> bool:
    """Returns True when a failing input was reported."""
    from lib import vlib
    big = tier == "thorough"
    rng = random.Random(seed * 104729 + 1010)
    n_hist = 1500 if big else 90
    n_fresh = 48 if big else 8
    hists = [gen_history(rng, hid) for hid in range(n_hist)]
    by_id = {h["hid"]: h for h in hists}
    found = False

    # ---- variant 0: the full history in this process (earlier universes and histories have run here before)
    recs: List[Tuple[dict, dict, str]] = []
    for n_done, h in enumerate(hists):
        for r in run_history(h, 0, seed):
            recs.append((h, r, "main"))
        if n_done % 50 == 49:
            gc.freeze()        # records hold no classes: keep them out of the per-history gc.collect()
    # ---- variant 1: all definitions first, then only the last request; many histories per worker process
    dfs = [defs_first(h) for h in hists]
    chunks = [dfs[i::4] for i in range(4)]
    with ThreadPoolExecutor(max_workers=4) as ex:
        for part in ex.map(lambda a: run_in_subprocess(a[1], 1, seed, 11 + a[0]), list(enumerate(chunks))):
            for r in part:
                recs.append((by_id[r["hid"]], r, "defs-first"))
    # ---- variant 2: the same, one history per process (nothing was planned in the process before)
    fresh = dfs[:n_fresh]
    with ThreadPoolExecutor(max_workers=8) as ex:
        for part in ex.map(lambda a: run_in_subprocess([a[1]], 2, seed, 21 + a[0] % 5), list(enumerate(fresh))):
            for r in part:
                recs.append((by_id[r["hid"]], r, "fresh"))

    def hist_of(h: dict, r: dict) -> dict:
        return h if r["v"] == 0 else defs_first(h)

    terms = [case_term(hist_of(h, r), r) for h, r, _ in recs]

    def maybe_kf(req: dict) -> bool:
        """Python-side superset of the two Coq domains (only to keep the Coq classification small)."""
        doms = {bool(f["dom"]) or "domain" in f["group"] or "domain" in f["ctx"] for f in req["feats"]}
        return any(f["link"] for f in req["feats"]) or len(doms) > 1

    cand = [i for i, (h, r, _) in enumerate(recs) if maybe_kf(hist_of(h, r)["ops"][r["k"]])]
    cand_terms = [terms[i] for i in cand]
    with ThreadPoolExecutor(max_workers=2) as ex:
        f1 = ex.submit(vlib.run_cases, "C10", "hist", REQ, "chk_hist", terms, case_type=CASE_TY, extra_defs=EXTRA, shard=48)
        f2 = ex.submit(vlib.run_cases, "C10", "hist_kf", REQ, "not_in_kf", cand_terms, case_type=CASE_TY, extra_defs=EXTRA, shard=48)
        bad, info = f1.result()
        inkf = [cand[i] for i in f2.result()[0]]
    inkf_set = set(inkf)
    kf_terms = [terms[i] for i in inkf]
    fixed_bad: set = set()
    kf_is_link: set = set()
    if kf_terms:
        with ThreadPoolExecutor(max_workers=2) as ex:
            f1 = ex.submit(vlib.run_cases, "C10", "hist_fixed", REQ, "chk_fixed", kf_terms, case_type=CASE_TY, extra_defs=EXTRA, shard=48)
            f2 = ex.submit(vlib.run_cases, "C10", "hist_kfdom", REQ, "in_kf_dom", kf_terms, case_type=CASE_TY, extra_defs=EXTRA, shard=48)
            fixed_bad = {inkf[i] for i in f1.result()[0]}
            kf_is_link = {inkf[i] for i in f2.result()[0]}            # in_kf_dom = false -> the feature-link domain
    rep.count(len(recs))
    bad_set = set(bad)
    kf_counts = {"in_domain": len(inkf), "defect_visible": 0, "as_if_repaired": 0}
    reported = 0
    for i, (h, r, how) in enumerate(recs):
        hh = hist_of(h, r)
        req = hh["ops"][r["k"]]
        replay = {"kind": "hist", "history": hh, "v": r["v"], "k": r["k"], "how": how, "obs": r["obs"]}
        if i in inkf_set:
            faithful, fixed = i not in bad_set, i not in fixed_bad
            if faithful and fixed:
                continue
            if faithful:
                kf_counts["defect_visible"] += 1
                key = KF_LINK if i in kf_is_link else KF_DOMAIN
                rep.finding(key, f"request {json.dumps(req)} after history {json.dumps(hh['ops'][:r['k']])}: {r['obs']}", replay)
                continue
            if fixed:
                kf_counts["as_if_repaired"] += 1
                continue
        elif i not in bad_set:
            continue
        if reported < 8:
            reported += 1
            rep.finding(f"hist:{json.dumps([hh['ops'][:r['k'] + 1]], sort_keys=True)}",
                        f"request #{r['k']} of a history ({how}) observed through mloda.prepare/run as {r['obs']}; the rule applied to "
                        f"the classes that exist at that moment gives {model_says(terms[i])}. History (classes are created between "
                        f"the requests of one process): {json.dumps(hh['ops'][:r['k']])}; request: {json.dumps(req)}",
                        replay)
        found = True

    # ---- history independence, directly on the observations: the last request after different histories
    last_by: Dict[int, Dict[Any, List[str]]] = {}
    for h, r, how in recs:
        hh = hist_of(h, r)
        if r["k"] == len(hh["ops"]) - 1:
            last_by.setdefault(h["hid"], {}).setdefault(canon(r["obs"]), []).append(how)
    unstable = [(hid, v) for hid, v in last_by.items() if len(v) > 1]
    for hid, v in unstable[:5]:
        h = by_id[hid]
        rep.finding(f"hist-dep:{json.dumps(h['ops'], sort_keys=True)}",
                    f"the answer to a request depends on what happened in the process before the classes existed: "
                    f"{[(str(k)[:300], w) for k, w in v.items()]}; request {json.dumps(h['ops'][-1])} after {json.dumps(h['ops'][:-1])}",
                    {"kind": "hist-dep", "history": h, "outcomes": [[str(k), w] for k, w in v.items()]})
        found = True

    # ---- evidence
    outcome: Dict[str, int] = {}
    for h, r, _ in recs:
        o = r["obs"]
        key = "answered" if "items" in o else o.get("err") or ("EDuplicate" if "dup" in o else "EDomainCompare" if "domcmp" in o else "other")
        outcome[key] = outcome.get(key, 0) + 1
    reqs = [o for h in hists for o in h["ops"] if o["op"] == "req"]
    late_fw = [o for h in hists for o in h["ops"] if o["op"] == "fw"]

    def after_first_req(h: dict, kind: str) -> int:
        seen, n = False, 0
        for o in h["ops"]:
            seen = seen or o["op"] == "req"
            n += seen and o["op"] == kind
        return n

    def uses_late(o: dict) -> bool:
        names = (o["api"] or {}).get("names") or (o["api"] or {}).get("classes") or []
        return any(x.startswith("late") for x in names) or any((f["ffw"] or "").startswith("late") for f in o["feats"])

    stored_merged = sum(1 for _, r, _ in recs if "items" in r["obs"] and any(it is None for it in r["obs"]["items"]))
    for h, r, how in recs:
        if how == "main":
            req = h["ops"][r["k"]]
            if len(req["feats"]) >= 2 or after_first_req({"ops": h["ops"][:r["k"]]}, "fw") or after_first_req({"ops": h["ops"][:r["k"]]}, "group"):
                rep.nontrivial(("hist", h["ops"][:r["k"] + 1]))
    rep.add("histories", {**info, "histories": n_hist, "requests_in_main_process": sum(1 for _, _, w in recs if w == "main"),
                          "last_requests_after_definitions_first_history_in_worker_processes": sum(1 for _, _, w in recs if w == "defs-first"),
                          "last_requests_in_a_process_of_their_own": sum(1 for _, _, w in recs if w == "fresh"),
                          "disagreements_with_model": len([i for i in bad if i not in inkf_set]),
                          "late_frameworks": len(late_fw),
                          "late_frameworks_subclass_of_a_late_framework": sum(1 for o in late_fw if o["parent"].startswith("late")),
                          "late_frameworks_with_overridden_availability": sum(1 for o in late_fw if o["avail"] is not None),
                          "frameworks_created_after_the_first_request": sum(after_first_req(h, "fw") for h in hists),
                          "groups_created_after_the_first_request": sum(after_first_req(h, "group") for h in hists),
                          "groups": sum(1 for h in hists for o in h["ops"] if o["op"] == "group"),
                          "groups_whose_criteria_read_options": sum(1 for h in hists for o in h["ops"] if o["op"] == "group"
                                                                    and o["crit"] and "and" in o["crit"]),
                          "requests": len(reqs), "requests_naming_a_late_framework": sum(1 for o in reqs if uses_late(o)),
                          "requests_with_several_features": sum(1 for o in reqs if len(o["feats"]) > 1),
                          "requests_with_features_differing_only_in_context_options": sum(1 for o in reqs if ctx_only_pairs(o)),
                          "requests_with_a_feature_link": sum(1 for o in reqs if any(f["link"] for f in o["feats"])),
                          "features_per_request": {str(k): sum(1 for o in reqs if len(o["feats"]) == k) for k in range(1, 6)},
                          "answered_requests_with_a_feature_not_stored_again": stored_merged,
                          "outcomes": outcome,
                          "history_independence_last_requests_compared": len(last_by), "unstable": len(unstable),
                          "deviation_domains": kf_counts})
    for h, r, _ in recs[:2]:
        rep.sample({"history": h["ops"][:r["k"] + 1], "obs": r["obs"]})
    return found


def warm_up() -> None:
    """The check's main process has planned many requests before a history starts; a replay starts in a new process.
    One ordinary request first, so that the history meets a process in which planning has already happened."""
    from mloda.user import mloda, Feature, PluginCollector
    from mloda.provider import FeatureGroup, DataCreator
    installed_classes()
    g = type("W10warmup", (FeatureGroup,), {"input_data": classmethod(lambda cls: DataCreator({"w10warm"})),
                                            "calculate_feature": classmethod(lambda cls, d, f: {"w10warm": [1]})})
    mloda.run_all([Feature("w10warm")], plugin_collector=PluginCollector.enabled_feature_groups({g}))


def replay(r: dict) -> None:
    h = r["history"]
    print("history:", json.dumps(h["ops"], indent=None))
    if r.get("how", "main") == "main":
        warm_up()
    if r.get("kind") == "hist":
        recs = run_history(h, 7, 0)
        rec = next(x for x in recs if x["k"] == r["k"])
        print("request:", json.dumps(h["ops"][r["k"]]))
        print("recorded:", r["obs"])
        print("now     :", rec["obs"])
        rec["v"] = 7
        print("model case term:\n", case_term(h, rec))
    else:
        a = run_history(h, 7, 0)[-1]["obs"]
        b = run_history(defs_first(h), 8, 0)[-1]["obs"]
        print("after the full history :", a)
        print("definitions first      :", b, "(same process; see 'outcomes' for the recorded fresh-process runs)")


if __name__ == "__main__":
    if "--worker" in sys.argv:
        sys.exit(worker_main())
