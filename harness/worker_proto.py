"""Tie between coq/Model/Worker.v (orchestrator <-> worker protocol) and the real mloda runtime.

REAL runs (THREADING and MULTIPROCESSING; run / stream / abandoned stream; fault-free and with a fault injected at each
crash point of the model) are observed without source hooks:

* main thread (harness process): class-level wrappers around ExecutionPlan.__iter__ (loop head / visits / end of the for
  loop), ExecutionOrchestrator.{compute, compute_stream, _process_step_result, _execute_step, _drop_data_if_possible,
  _drop_uploaded_datasets, __enter__}, WorkerManager.{poll_result_queues, wait_for_drop_completion, create_worker_process,
  add_thread_task, join_all, _close_queues}, ComputeFrameworkExecutor.{prepare_execute_step, init_compute_framework},
  DataLifecycleManager.{set_artifacts, add_to_result_data_collection}, multiprocessing.queues.Queue.{put, get},
  Process.{terminate, join}, Thread.join, FlightServer.{upload_table, drop_tables}, the manager proxy's get_error;
* worker threads: wrappers around Step.execute of the three step kinds and thread_worker;
* worker processes (fork start method: they inherit every wrapper): the same Queue wrappers plus
  multiprocessing_worker.{_execute_command, _handle_command_result, _handle_stop_command}; a child appends one JSON line
  per event to a file (O_APPEND; the FileListener pattern of harness/orch.py) because it is killed by terminate().

Every record carries time.monotonic_ns() (CLOCK_MONOTONIC is system wide).  A message SEND is stamped before the put, a
RECEIVE after the get, so the merged order respects causality of the queues.  The two shared registers that are not
queues (CfwManager.error through the manager; step.step_is_done in THREADING) are stamped with the interval of the
write and of the read; a write whose interval overlaps a read that did not see it is ordered after that read.

Iterations of the main loop in which nothing happens (no message taken, no step done / started) are self loops of the
model up to the iteration counter and are dropped from the history (counted); a put-back of an already put-back result
message in wait_for_drop_completion is the identity on the model state and dropped as well.

The canonical history is a list of Model/Worker.v labels; `chk_proto` replays it with vm_compute: it must be a trace of the
model from the initial state that ends in an exited state with the observed outcome and store content.

  check(rep_prefix, tier, seed, n_specs=None, focus=None) -> list of disagreements   (counters in LAST_INFO; FOCUS: what C08 / C09 pay for)
  report(rep, "C08"|"C09", tier, seed)                    what harness/c08.py and harness/c09.py call (proof + check + findings)
  replay_main(case, prop)                                 ./check <prop> --replay <file> for a stored case (kind "worker_proto")
  slow_consumer_case(pause_s, rep_prefix) -> [problems]   one paused-consumer stream (for C13)
  python3 -m harness.worker_proto [n_specs|- [seed [tier [C08|C09]]]]  self test
  python3 -m harness.worker_proto --case <workerdrop|stale|requeue|slow:<s>> <out.json>   one slow special case (child of check)

The slow special cases (a worker dying in its drop path: 5 s stall; a DROP_COMPLETE that arrives after the 5 s wait gave up and is polled
later; a step result put back by a wait that then times out; a stream consumer pausing for > 10 s) sleep most of the time: check()
observes them in parallel subprocesses and merges their digests (term for chk_proto, case for the replay, judge lines, counters).
"""
from __future__ import annotations

import json
import logging
import multiprocessing
import os
import random
import sys
import threading
import time
from typing import Any, Dict, List, Optional, Set, Tuple

from lib import vlib
from lib.vlib import cq_bool, cq_list, cq_nat
from harness import daggen
from harness.universe import Universe, Listener, export_plan
from harness.orch import cq_plan, flight_server, stop_flight_server, flight_keys

REQ = ["MV.Model.Orch", "MV.Model.Worker"]
INFRA_ERRORS = ("BrokenPipeError", "EOFError", "ConnectionResetError", "ConnectionRefusedError")
LAST_INFO: Dict[str, Any] = {}
LAST_RUNS: List[Tuple[Any, ...]] = []      # one small key per observed run of the last check (for the caller's coverage counters)
_now = time.monotonic_ns


class _Obs:
    """Process-wide observation state.  Inert unless `active`."""

    def __init__(self) -> None:
        self.active = False
        self.lock = threading.Lock()
        self.path = ""
        self.parent_pid = os.getpid()
        self.reset()

    def reset(self) -> None:
        self.mode = "T"
        self.main_ident: Optional[int] = None
        self.orec: List[Dict[str, Any]] = []      # main-thread records of non-idle loop iterations (and everything outside the loop)
        self.scanbuf: List[Dict[str, Any]] = []   # records of the current iteration
        self.in_scan = False
        self.scan_busy = False
        self.idle_scans = 0
        self.wrec: List[Dict[str, Any]] = []      # worker-thread records (THREADING)
        self.fault: Dict[str, Any] = {}
        self.cur_step: Any = None                 # child: step being executed
        self.qtag: Dict[int, Tuple[str, Any]] = {}   # id(queue) -> ("cmd"|"res", cfw uuid)
        self.cfws: List[Tuple[Any, List[Any]]] = []  # (cfw uuid, children) in creation order
        self.prep: Dict[Any, Any] = {}            # step uuid -> cfw uuid (prepare_execute_step)
        self.pids: Dict[int, Any] = {}            # pid -> cfw uuid
        self.in_join = False
        self.in_wait = False
        self.in_poll = False
        self.in_dropall = False
        self.proxy_patched: Set[int] = set()
        self.last_head: Optional[Tuple[int, int, bool]] = None

    # ---- main thread ----
    def is_main(self) -> bool:
        return self.active and os.getpid() == self.parent_pid and threading.get_ident() == self.main_ident

    def o(self, k: str, busy: bool = True, **kw: Any) -> None:
        r = {"k": k, "ts": _now(), **kw}
        if self.in_scan:
            self.scanbuf.append(r)
            if busy:
                self.scan_busy = True
        else:
            self.orec.append(r)

    def scan_begin(self) -> None:
        self.in_scan = True
        self.scan_busy = False
        self.scanbuf = []

    def scan_flush(self, force: bool = False) -> None:
        if self.in_scan:
            if self.scan_busy or force:
                self.orec.extend(self.scanbuf)
            else:
                self.idle_scans += 1
            self.scanbuf = []
            self.in_scan = False

    # ---- worker threads ----
    def w(self, k: str, **kw: Any) -> None:
        r = {"k": k, "ts": _now(), **kw}
        with self.lock:
            self.wrec.append(r)

    # ---- worker processes ----
    def c(self, k: str, **kw: Any) -> None:
        r = {"k": k, "ts": _now(), "pid": os.getpid(), **kw}
        fd = os.open(self.path, os.O_WRONLY | os.O_APPEND | os.O_CREAT, 0o644)
        try:
            os.write(fd, (json.dumps(r) + "\n").encode())
        finally:
            os.close(fd)

    def in_child(self) -> bool:
        return self.active and os.getpid() != self.parent_pid and self.mode == "M"


OBS = _Obs()
_installed = [False]


def _msg(m: Any) -> Dict[str, Any]:
    if isinstance(m, str):
        return {"t": "stop"} if m == "STOP" else {"t": "res", "u": m}
    if isinstance(m, tuple):
        return {"t": "dc"}
    if isinstance(m, (set, frozenset)):
        return {"t": "drop", "fs": sorted(str(x) for x in m)}
    return {"t": "step", "u": str(getattr(m, "uuid", ""))}


class InjectedFault(RuntimeError):
    pass


def install() -> None:
    if _installed[0]:
        return
    _installed[0] = True
    import multiprocessing.queues as mq
    from mloda.core.prepare.execution_plan import ExecutionPlan
    from mloda.core.runtime.run import ExecutionOrchestrator
    from mloda.core.runtime.worker_manager import WorkerManager
    from mloda.core.runtime.compute_framework_executor import ComputeFrameworkExecutor
    from mloda.core.runtime import compute_framework_executor as cfe
    from mloda.core.runtime.data_lifecycle_manager import DataLifecycleManager
    from mloda.core.runtime.flight.flight_server import FlightServer
    from mloda.core.runtime.worker import multiprocessing_worker as mw
    from mloda.core.core.step.feature_group_step import FeatureGroupStep
    from mloda.core.core.step.join_step import JoinStep
    from mloda.core.core.step.transform_frame_work_step import TransformFrameworkStep

    # ------------------------------------------------------------------ queues (both sides)
    o_put, o_get = mq.Queue.put, mq.Queue.get

    def put(self: Any, obj: Any, *a: Any, **k: Any) -> Any:
        if OBS.active:
            tag = OBS.qtag.get(id(self))
            if tag is not None:
                if OBS.in_child():
                    OBS.c("put", q=tag[0], m=_msg(obj))
                elif OBS.is_main():
                    OBS.o("put", q=tag[0], w=str(tag[1]), m=_msg(obj))
        return o_put(self, obj, *a, **k)

    def get(self: Any, *a: Any, **k: Any) -> Any:
        r = o_get(self, *a, **k)
        if OBS.active:
            tag = OBS.qtag.get(id(self))
            if tag is not None:
                if OBS.in_child():
                    OBS.c("get", q=tag[0], m=_msg(r))
                elif OBS.is_main():
                    OBS.o("get", q=tag[0], w=str(tag[1]), m=_msg(r))
        return r
    mq.Queue.put = put  # type: ignore[method-assign]
    mq.Queue.get = get  # type: ignore[method-assign]

    # ------------------------------------------------------------------ main loop
    o_iter = ExecutionPlan.__iter__

    def plan_iter(self: Any) -> Any:
        inner = o_iter(self)
        if not OBS.is_main():
            return inner

        def gen() -> Any:
            OBS.scan_flush(force=True)
            OBS.scan_begin()
            OBS.o("iter", busy=False, head=OBS.last_head)
            i = 0
            for st in inner:
                OBS.o("visit", busy=False, i=i)
                yield st
                i += 1
            OBS.o("endscan", busy=False)
            OBS.scan_flush()
        return gen()
    ExecutionPlan.__iter__ = plan_iter  # type: ignore[method-assign]

    o_enter = ExecutionOrchestrator.__enter__

    def enter(self: Any, *a: Any, **k: Any) -> Any:
        r = o_enter(self, *a, **k)
        if OBS.active and os.getpid() == OBS.parent_pid:
            cls = type(self.cfw_register)
            if getattr(self, "manager", None) is not None and id(cls) not in OBS.proxy_patched and hasattr(cls, "get_error"):
                OBS.proxy_patched.add(id(cls))
                o_ge = cls.get_error

                def get_error(pself: Any, *aa: Any, **kk: Any) -> Any:
                    t0 = _now()
                    v = o_ge(pself, *aa, **kk)
                    if OBS.is_main():
                        OBS.last_head = (t0, _now(), bool(v))
                    return v
                cls.get_error = get_error
        return r
    ExecutionOrchestrator.__enter__ = enter  # type: ignore[method-assign]

    def wrap_compute(name: str) -> None:
        orig = getattr(ExecutionOrchestrator, name)
        if name == "compute":
            def compute(self: Any) -> Any:
                if not OBS.active or os.getpid() != OBS.parent_pid:
                    return orig(self)
                OBS.main_ident = threading.get_ident()
                try:
                    r = orig(self)
                except BaseException as e:  # noqa: BLE001
                    OBS.scan_flush(force=True)
                    OBS.o("exit", how="raise", exc=type(e).__name__, txt=str(e)[-160:])
                    raise
                OBS.scan_flush(force=True)
                OBS.o("exit", how="return")
                return r
            ExecutionOrchestrator.compute = compute  # type: ignore[method-assign]
        else:
            def compute_stream(self: Any) -> Any:
                if not OBS.active or os.getpid() != OBS.parent_pid:
                    yield from orig(self)
                    return
                OBS.main_ident = threading.get_ident()
                inner = orig(self)
                try:
                    while True:
                        try:
                            item = next(inner)
                        except StopIteration:
                            break
                        OBS.o("yield")
                        yield item
                        OBS.o("resume")
                except GeneratorExit:
                    OBS.o("abandon")
                    try:
                        inner.close()
                    finally:
                        OBS.scan_flush(force=True)
                        OBS.o("exit", how="abandon")
                    raise
                except BaseException as e:  # noqa: BLE001
                    OBS.scan_flush(force=True)
                    OBS.o("exit", how="raise", exc=type(e).__name__, txt=str(e)[-160:])
                    raise
                OBS.scan_flush(force=True)
                OBS.o("exit", how="return")
            ExecutionOrchestrator.compute_stream = compute_stream  # type: ignore[method-assign]
    wrap_compute("compute")
    wrap_compute("compute_stream")

    o_psr = ExecutionOrchestrator._process_step_result

    def psr(self: Any, step: Any) -> Any:
        if not OBS.is_main():
            return o_psr(self, step)
        t0 = _now()
        try:
            r = o_psr(self, step)
        except BaseException as e:  # noqa: BLE001
            OBS.o("psr", r="raise", t0=t0, exc=type(e).__name__)
            raise
        OBS.o("psr", busy=bool(r), r=bool(r), t0=t0, s=str(step.uuid))
        return r
    ExecutionOrchestrator._process_step_result = psr  # type: ignore[method-assign]

    o_poll = WorkerManager.poll_result_queues

    def poll(self: Any) -> Any:
        if not OBS.is_main():
            return o_poll(self)
        OBS.o("poll_begin", busy=False)
        OBS.in_poll = True
        raised = None
        try:
            return o_poll(self)
        except BaseException as e:  # noqa: BLE001
            raised = type(e).__name__
            raise
        finally:
            OBS.in_poll = False
            OBS.o("poll_end", busy=raised is not None, raised=raised)
    WorkerManager.poll_result_queues = poll  # type: ignore[method-assign]

    o_wait = WorkerManager.wait_for_drop_completion

    def wait(self: Any, result_queue: Any, cfw_uuid: Any, timeout: float = 5.0) -> Any:
        if not OBS.is_main():
            return o_wait(self, result_queue, cfw_uuid, timeout)
        OBS.o("wait_begin", w=str(cfw_uuid))
        t0 = time.time()
        try:
            return o_wait(self, result_queue, cfw_uuid, timeout)
        finally:
            OBS.o("wait_end", w=str(cfw_uuid), timed_out=(time.time() - t0) >= timeout)
    WorkerManager.wait_for_drop_completion = wait  # type: ignore[method-assign]

    o_addres = DataLifecycleManager.add_to_result_data_collection

    def addres(self: Any, cfw: Any, features: Any, step_uuid: Any, location: Any = None) -> Any:
        if OBS.is_main() and OBS.fault.get("result") == str(step_uuid):
            raise InjectedFault("VERIF-FAULT result")
        return o_addres(self, cfw, features, step_uuid, location)
    DataLifecycleManager.add_to_result_data_collection = addres  # type: ignore[method-assign]

    o_ddip = ExecutionOrchestrator._drop_data_if_possible

    def ddip(self: Any, cfw: Any, step: Any) -> Any:
        if OBS.is_main():
            OBS.o("collected", s=str(step.uuid), wdrop=str(cfw.uuid))
        return o_ddip(self, cfw, step)
    ExecutionOrchestrator._drop_data_if_possible = ddip  # type: ignore[method-assign]

    o_exec = ExecutionOrchestrator._execute_step

    def exec_step(self: Any, step: Any) -> Any:
        if not OBS.is_main():
            return o_exec(self, step)
        OBS.o("exec_begin", s=str(step.uuid))
        try:
            r = o_exec(self, step)
        except BaseException as e:  # noqa: BLE001
            OBS.o("exec_end", ok=False, exc=type(e).__name__)
            raise
        OBS.o("exec_end", ok=True)
        return r
    ExecutionOrchestrator._execute_step = exec_step  # type: ignore[method-assign]

    o_prep = ComputeFrameworkExecutor.prepare_execute_step

    def prep(self: Any, step: Any, mode: Any) -> Any:
        if OBS.is_main() and OBS.fault.get("prepare") == str(step.uuid):
            raise InjectedFault("VERIF-FAULT prepare")
        r = o_prep(self, step, mode)
        if OBS.is_main():
            OBS.prep[str(step.uuid)] = str(r)
        return r
    ComputeFrameworkExecutor.prepare_execute_step = prep  # type: ignore[method-assign]

    o_init = ComputeFrameworkExecutor.init_compute_framework

    def init_cfw(self: Any, cf_class: Any, mode: Any, children_if_root: Any, uuid: Any = None) -> Any:
        r = o_init(self, cf_class, mode, children_if_root, uuid)
        if OBS.is_main():
            OBS.cfws.append((str(r), [str(x) for x in children_if_root]))
        return r
    ComputeFrameworkExecutor.init_compute_framework = init_cfw  # type: ignore[method-assign]

    o_cwp = WorkerManager.create_worker_process

    # the queues must be known to the child (tagged BEFORE the fork): intercept their construction inside create_worker_process
    o_mpq = multiprocessing.Queue

    def cwp2(self: Any, cfw_uuid: Any, target: Any, args: Any) -> Any:
        if not OBS.is_main():
            return o_cwp(self, cfw_uuid, target, args)
        made: List[Any] = []

        def Q(*a: Any, **k: Any) -> Any:
            q = o_mpq(*a, **k)
            made.append(q)
            OBS.qtag[id(q)] = ("cmd" if len(made) == 1 else "res", cfw_uuid)
            return q
        import mloda.core.runtime.worker_manager as wm
        wm.multiprocessing.Queue = Q  # type: ignore[assignment]
        try:
            proc, cq, rq = o_cwp(self, cfw_uuid, target, args)
        finally:
            wm.multiprocessing.Queue = o_mpq  # type: ignore[assignment]
        OBS.pids[proc.pid] = str(cfw_uuid)
        OBS.o("spawn", w=str(cfw_uuid), pid=proc.pid)
        return proc, cq, rq
    WorkerManager.create_worker_process = cwp2  # type: ignore[method-assign]

    o_send = WorkerManager.send_command

    def send_command(self: Any, cfw_uuid: Any, command: Any) -> Any:
        try:
            return o_send(self, cfw_uuid, command)
        except BaseException as e:  # noqa: BLE001
            if OBS.is_main():
                OBS.o("sendfail", w=str(cfw_uuid), exc=type(e).__name__)
            raise
    WorkerManager.send_command = send_command  # type: ignore[method-assign]

    o_att = WorkerManager.add_thread_task

    def att(self: Any, task: Any) -> Any:
        if OBS.is_main():
            try:
                OBS.o("tspawn", s=str(task._args[0].uuid))
                task._verif_step = str(task._args[0].uuid)
            except Exception:  # noqa: BLE001
                pass
        return o_att(self, task)
    WorkerManager.add_thread_task = att  # type: ignore[method-assign]

    # ------------------------------------------------------------------ finally block
    o_setart = DataLifecycleManager.set_artifacts

    def set_artifacts(self: Any, artifacts: Any) -> Any:
        if OBS.is_main():
            OBS.scan_flush(force=True)
            if OBS.fault.get("artifacts"):
                OBS.o("artifacts", ok=False)
                raise InjectedFault("VERIF-FAULT artifacts")
            OBS.o("artifacts", ok=True)
        return o_setart(self, artifacts)
    DataLifecycleManager.set_artifacts = set_artifacts  # type: ignore[method-assign]

    o_join_all = WorkerManager.join_all

    def join_all(self: Any) -> Any:
        if not OBS.is_main():
            return o_join_all(self)
        OBS.in_join = True
        try:
            return o_join_all(self)
        finally:
            OBS.in_join = False
    WorkerManager.join_all = join_all  # type: ignore[method-assign]

    o_pterm, o_pjoin = multiprocessing.Process.terminate, multiprocessing.Process.join

    def pterm(self: Any) -> Any:
        r = o_pterm(self)
        if OBS.is_main() and OBS.in_join:
            self._verif_term = True
        return r

    def pjoin(self: Any, *a: Any, **k: Any) -> Any:
        r = o_pjoin(self, *a, **k)
        if OBS.is_main() and OBS.in_join:
            # both labels are stamped AFTER the process has gone: a worker cannot act after its join returned
            OBS.o("terminate", w=OBS.pids.get(self.pid), called=bool(getattr(self, "_verif_term", False)))
            OBS.o("join", w=OBS.pids.get(self.pid), alive=self.is_alive())
        return r
    multiprocessing.Process.terminate = pterm  # type: ignore[method-assign]
    multiprocessing.Process.join = pjoin  # type: ignore[method-assign]

    o_tjoin = threading.Thread.join

    def tjoin(self: Any, *a: Any, **k: Any) -> Any:
        r = o_tjoin(self, *a, **k)
        if OBS.active and OBS.in_join and OBS.is_main() and hasattr(self, "_verif_step"):
            OBS.o("tjoin", s=self._verif_step, alive=self.is_alive())
        return r
    threading.Thread.join = tjoin  # type: ignore[method-assign]

    o_close = WorkerManager._close_queues

    def close_queues(self: Any) -> Any:
        if OBS.is_main():
            OBS.o("close")
        return o_close(self)
    WorkerManager._close_queues = close_queues  # type: ignore[method-assign]

    o_dud = ExecutionOrchestrator._drop_uploaded_datasets

    def dud(self: Any) -> Any:
        if not OBS.is_main():
            return o_dud(self)
        OBS.in_dropall = True
        OBS._dropall_raised = False  # type: ignore[attr-defined]
        try:
            return o_dud(self)
        finally:
            OBS.in_dropall = False
            OBS.o("dropall", ok=not OBS._dropall_raised)  # type: ignore[attr-defined]
    ExecutionOrchestrator._drop_uploaded_datasets = dud  # type: ignore[method-assign]

    # ------------------------------------------------------------------ Flight store
    o_up, o_drop = FlightServer.upload_table, FlightServer.drop_tables

    def upload_table(location: str, table: Any, table_key: str) -> Any:
        if OBS.in_child():
            if OBS.fault.get("upload") is not None and OBS.fault.get("upload") == str(getattr(OBS.cur_step, "uuid", None)):
                OBS.c("upload", ok=False)
                raise InjectedFault("VERIF-FAULT upload")
            r = o_up(location, table, table_key)
            OBS.c("upload", ok=True, key=table_key)
            return r
        return o_up(location, table, table_key)
    FlightServer.upload_table = staticmethod(upload_table)  # type: ignore[method-assign]

    def drop_tables(location: str, table_key: Any) -> Any:
        if OBS.in_child():
            if OBS.fault.get("workerdrop"):
                OBS.c("flightdrop", ok=False)
                sys.stderr = open(os.devnull, "w")      # the dying child would print its traceback
                raise InjectedFault("VERIF-FAULT worker drop")
            r = o_drop(location, table_key)
            OBS.c("flightdrop", ok=True)
            return r
        if OBS.is_main() and OBS.in_dropall and OBS.fault.get("finaldrop"):
            OBS._dropall_raised = True  # type: ignore[attr-defined]
            raise InjectedFault("VERIF-FAULT final drop")
        try:
            return o_drop(location, table_key)
        except BaseException:
            if OBS.is_main() and OBS.in_dropall:
                OBS._dropall_raised = True  # type: ignore[attr-defined]
            raise
    FlightServer.drop_tables = staticmethod(drop_tables)  # type: ignore[method-assign]

    # ------------------------------------------------------------------ worker process
    o_ec, o_hcr, o_hsc = mw._execute_command, mw._handle_command_result, mw._handle_stop_command

    def execute_command(command: Any, *a: Any, **k: Any) -> Any:
        if not OBS.in_child():
            return o_ec(command, *a, **k)
        OBS.cur_step = command
        try:
            return o_ec(command, *a, **k)
        except BaseException as e:  # noqa: BLE001
            OBS.c("fail", cp="calc" if not isinstance(e, InjectedFault) or "upload" not in str(e) else "upload",
                  s=str(command.uuid), exc=type(e).__name__)
            raise

    def handle_command_result(command: Any, *a: Any, **k: Any) -> Any:
        if not OBS.in_child():
            return o_hcr(command, *a, **k)
        try:
            return o_hcr(command, *a, **k)
        except BaseException as e:  # noqa: BLE001
            OBS.c("fail", cp="upload", s=str(command.uuid), exc=type(e).__name__)
            raise

    def handle_stop_command(command_queue: Any) -> Any:
        r = o_hsc(command_queue)
        if OBS.in_child():
            OBS.c("stopped")
        return r
    mw._execute_command = execute_command
    mw._handle_command_result = handle_command_result
    mw._handle_stop_command = handle_stop_command

    # ------------------------------------------------------------------ worker threads
    def wrap_exec(cls: Any) -> None:
        orig = cls.execute

        def execute(self: Any, *a: Any, **k: Any) -> Any:
            if not (OBS.active and OBS.mode == "T" and os.getpid() == OBS.parent_pid and threading.get_ident() != OBS.main_ident):
                return orig(self, *a, **k)
            try:
                r = orig(self, *a, **k)
            except BaseException as e:  # noqa: BLE001
                OBS.w("fail", s=str(self.uuid), exc=type(e).__name__)
                raise
            OBS.w("done", s=str(self.uuid))
            return r
        cls.execute = execute
    for cls in (FeatureGroupStep, TransformFrameworkStep, JoinStep):
        wrap_exec(cls)

    o_tw = cfe.thread_worker

    def thread_worker(command: Any, *a: Any, **k: Any) -> Any:
        try:
            return o_tw(command, *a, **k)
        finally:
            if OBS.active and OBS.mode == "T":
                OBS.w("tend", s=str(command.uuid))
    cfe.thread_worker = thread_worker


# ----------------------------------------------------------------------------------------------------------------------
# one observed run
# ----------------------------------------------------------------------------------------------------------------------
class SlowListener(Listener):
    """Sleeps inside the calculation of the named groups (seconds); works across fork."""

    def __init__(self, delays: Dict[str, float]) -> None:
        self.delays = delays

    def on_enter(self, group: str, names: List[str], cols: List[str], data: Any, features: Any = None) -> None:
        d = self.delays.get(group, 0)
        if d:
            time.sleep(d)

    def on_exit(self, group: str, names: List[str]) -> None:
        pass


def _scratch() -> str:
    d = os.path.join(str(vlib.BUILD), "worker_proto")
    os.makedirs(d, exist_ok=True)
    return d


def observe(spec: Dict[str, Any], mode: str, variant: str = "run", fault: Optional[Dict[str, Any]] = None,
            delays: Optional[Dict[str, float]] = None, timeout: float = 40.0, expect: Optional[Dict[str, Any]] = None,
            listener: Optional[Listener] = None, on_prepared: Any = None) -> Dict[str, Any]:
    """listener: used instead of SlowListener(delays); on_prepared(uni, plan, steps): called once the plan is exported and the fault
    is installed, before the run starts (harness/c08_mpmid.py forces a schedule with both).
    mode 'T' | 'M'; variant 'run' | 'stream' | 'stream:pause:<s>:<k>' (the consumer sleeps s seconds after item k) | 'abandon' |
    'abandon:<k>' (close the stream after k items); fault {'kind': calc|upload|result|prepare|send|artifacts|finaldrop|
    workerdrop, 'sid': int}.  Returns the raw records, the plan and the outcome."""
    from mloda.user import ParallelizationMode
    logging.disable(logging.CRITICAL)
    install()
    threading.excepthook = lambda args: None
    uni = Universe(spec, listener if listener is not None else SlowListener(delays or {}))
    sess = uni.prepare()
    plan = export_plan(sess, uni)
    steps = list(sess.engine.execution_planner)
    u2s = {str(st.uuid): i for i, st in enumerate(steps)}
    fault = fault or {}
    OBS.reset()
    OBS.mode = mode
    OBS.path = os.path.join(_scratch(), f"child_{os.getpid()}.jsonl")
    if os.path.exists(OBS.path):
        os.unlink(OBS.path)
    kind = fault.get("kind")
    if kind == "calc":
        s = plan["steps"][fault["sid"]]
        uni.fail.add((s["group"], s["names"][0]))
    elif kind in ("upload", "result", "prepare"):
        OBS.fault[kind] = str(steps[fault["sid"]].uuid)
    elif kind in ("artifacts", "finaldrop", "workerdrop"):
        OBS.fault[kind] = True
    elif kind == "send":
        # a step that really cannot be pickled (a local function among its attributes; the run executes a deep copy of the plan,
        # functions are copied by reference): crash point CSend inside WorkerManager.send_command
        steps[fault["sid"]]._verif_unpicklable = lambda: None
    if on_prepared is not None:
        on_prepared(uni, plan, steps)
    modes = {ParallelizationMode.MULTIPROCESSING} if mode == "M" else {ParallelizationMode.THREADING}
    kw: Dict[str, Any] = {}
    keys_before: Set[str] = set()
    if mode == "M":
        kw["flight_server"] = flight_server()
        keys_before = flight_keys()
    base_procs = {p.pid for p in multiprocessing.active_children()}
    base_threads = set(threading.enumerate())
    out: Dict[str, Any] = {"status": None}

    verdict = threading.Lock()

    def target() -> None:
        try:
            if variant == "run":
                out["result"] = sess.run(parallelization_modes=modes, **kw)
            elif variant.startswith("stream"):
                # "stream" / "stream:pause:<seconds>:<k>": a consumer that pauses after its k-th item (compute_stream is suspended at
                # the yield meanwhile: no command is sent to any worker, no result is polled)
                pause_s, pause_at = (float(variant.split(":")[2]), int(variant.split(":")[3])) if variant.startswith("stream:pause:") else (0.0, -1)
                out["items"] = []
                for it in sess.stream_run(parallelization_modes=modes, **kw):
                    out["items"].append(it)
                    if len(out["items"]) == pause_at:
                        time.sleep(pause_s)
            else:
                # "abandon" / "abandon:k": the consumer takes k items (default 1), then closes the generator
                k_items = int(variant.split(":")[1]) if ":" in variant else 1
                g = sess.stream_run(parallelization_modes=modes, **kw)
                try:
                    for _ in range(k_items):
                        next(g)
                except StopIteration:
                    pass
                g.close()
            with verdict:
                if out["status"] is None:
                    out["status"] = "ok"
        except BaseException as e:  # noqa: BLE001
            with verdict:
                if out["status"] is not None:
                    return                      # the watchdog has already recorded "hang": whatever the clean-up makes this thread raise is noise
                out["status"] = "raised"
                out["exc"] = f"{type(e).__name__}: {str(e)[-200:]}"
                import traceback as _tb
                out["tb"] = _tb.format_exc()[-1500:]
    OBS.active = True
    t0 = time.time()
    th = threading.Thread(target=target, daemon=True)
    th.start()
    th.join(timeout)
    with verdict:
        if out["status"] is None:
            out["status"] = "hang"
    OBS.active = False
    out["wall"] = round(time.time() - t0, 3)
    # leftovers (then clean up what an injected fault left behind)
    time.sleep(0.02)
    left = [p for p in multiprocessing.active_children() if p.pid not in base_procs]
    out["procs_left"] = len(left)
    for p in left:
        try:
            p.terminate()
            p.join(2)
        except Exception:  # noqa: BLE001
            pass
    out["threads_left"] = len([t for t in threading.enumerate() if t not in base_threads and t.is_alive() and t is not th
                               and not t.name.startswith("QueueFeeder")])
    if mode == "M":
        new = flight_keys() - keys_before
        out["keys_left"] = sorted(k.decode() if isinstance(k, bytes) else str(k) for k in new)
        if new:
            from mloda.core.runtime.flight.flight_server import FlightServer
            import pyarrow.flight as fl
            with fl.FlightClient(flight_server().get_location()) as client:
                for key in new:
                    for _ in client.do_action(fl.Action("drop_table", key if isinstance(key, bytes) else key.encode("utf-8"))):
                        pass
    else:
        out["keys_left"] = []
    child: List[Dict[str, Any]] = []
    if os.path.exists(OBS.path):
        for line in open(OBS.path):
            try:
                child.append(json.loads(line))
            except Exception:  # noqa: BLE001
                pass
        os.unlink(OBS.path)
    out.update(plan=plan, u2s=u2s, orec=list(OBS.orec), wrec=list(OBS.wrec), crec=child, cfws=list(OBS.cfws), prep=dict(OBS.prep),
               pids={str(k): v for k, v in OBS.pids.items()}, idle_scans=OBS.idle_scans, mode=mode, variant=variant, fault=fault,
               spec=spec)
    OBS.fault = {}
    uni.dispose()
    out["expect"] = expect or {}
    if out["expect"].get("equals_sync") and out["status"] == "ok" and variant == "run":
        # the tables of this run against the result of the same request computed in SYNC mode by a fresh session (C06)
        from harness.c01 import canon_result
        try:
            uni2 = Universe(spec, Listener())
            batch = canon_result(uni2.prepare().run(parallelization_modes={ParallelizationMode.SYNC}))
            uni2.dispose()
            out["mode_vs_sync"] = None if canon_result(out.get("result") or []) == batch else \
                "the result tables differ from the SYNC result of the same request"
        except Exception as e:  # noqa: BLE001
            out["mode_vs_sync"] = f"could not compare with the SYNC result: {type(e).__name__}: {str(e)[:120]}"
    if out["expect"].get("stream_equals_batch") and out["status"] == "ok":
        # the streamed tables against the batch result of the same request computed in SYNC mode by a fresh session
        from harness.c01 import canon_result
        try:
            uni2 = Universe(spec, Listener())
            batch = canon_result(uni2.prepare().run(parallelization_modes={ParallelizationMode.SYNC}))
            uni2.dispose()
            out["stream_vs_batch"] = None if canon_result(out.get("items") or []) == batch else \
                "the multiset of streamed tables differs from the SYNC batch result of the same request"
        except Exception as e:  # noqa: BLE001
            out["stream_vs_batch"] = f"could not compare the stream with the batch result: {type(e).__name__}: {str(e)[:120]}"
    return out


# ----------------------------------------------------------------------------------------------------------------------
# canonical history
# ----------------------------------------------------------------------------------------------------------------------
class HistoryError(Exception):
    pass


def build_history(ob: Dict[str, Any]) -> Dict[str, Any]:
    """Records -> list of Model/Worker.v labels (as Python tuples) + configuration (wof, wdrop, children, wfail, exit)."""
    plan, u2s, mode = ob["plan"], ob["u2s"], ob["mode"]
    ren = {str(k): v for k, v in plan["_ren"].items()}

    def ruuid(u: str) -> int:
        if u not in ren:
            ren[u] = len(ren) + 1
        return ren[u]
    widx: Dict[str, int] = {}
    for i, (cu, _) in enumerate(ob["cfws"]):
        widx.setdefault(cu, i + 1)
    children = {widx[cu]: sorted(ruuid(x) for x in ch) for cu, ch in ob["cfws"]}

    def wid(cu: Optional[str]) -> int:
        if cu is None or cu not in widx:
            raise HistoryError(f"unknown worker {cu}")
        return widx[cu]
    wof = {u2s[s]: (wid(cu) if cu in widx else 0) for s, cu in ob["prep"].items() if s in u2s}
    wdrop: Dict[int, int] = {}
    wfail: Dict[int, str] = {}
    ev: List[Tuple[int, int, Tuple[Any, ...], Dict[str, Any]]] = []   # (ts, tiebreak, label, meta)
    n = [0]

    def emit(ts: int, label: Tuple[Any, ...], **meta: Any) -> None:
        n[0] += 1
        ev.append((ts, n[0], label, meta))

    # ---------------- worker processes
    by_pid: Dict[int, List[Dict[str, Any]]] = {}
    for r in ob["crec"]:
        by_pid.setdefault(r["pid"], []).append(r)
    for pid, recs in by_pid.items():
        cu = ob["pids"].get(str(pid))
        if cu is None:
            continue                      # manager / flight server children do not log; defensive
        w = wid(cu)
        recs.sort(key=lambda r: r["ts"])
        i = 0
        dropped_flag = False
        while i < len(recs):
            r = recs[i]
            k = r["k"]
            if k == "get" and r["q"] == "cmd":
                emit(r["ts"], ("WTake", w))
                dropped_flag = False
            elif k == "upload" and r.get("ok"):
                emit(r["ts"], ("WUpload", w))
            elif k == "put" and r["q"] == "res" and r["m"]["t"] == "res":
                emit(r["ts"], ("WDone", w))
            elif k == "fail":
                # interval of the set_error write: from this record to the worker's "stopped" record (or open ended)
                t2 = next((x["ts"] for x in recs[i + 1:] if x["k"] == "stopped"), None)
                sid = u2s.get(r["s"], -1)
                wfail[sid] = r["cp"]
                emit(r["ts"], ("WFail", w, r["cp"]), write_end=t2, sid=sid)
            elif k == "flightdrop":
                if r.get("ok"):
                    dropped_flag = True
                else:
                    emit(r["ts"], ("WDropCrash", w))
            elif k == "put" and r["q"] == "res" and r["m"]["t"] == "dc":
                last = any(x["k"] == "put" and x["q"] == "cmd" and x["m"]["t"] == "stop" for x in recs[i + 1:i + 3])
                emit(r["ts"], ("WDropAck", w, last, dropped_flag))
            i += 1
    # ---------------- worker threads
    tend = {r["s"]: r["ts"] for r in ob["wrec"] if r["k"] == "tend"}
    for r in ob["wrec"]:
        if r["k"] == "done":
            sid = u2s[r["s"]]
            emit(r["ts"], ("WDone", sid), write_end=tend.get(r["s"]), sid=sid)
        elif r["k"] == "fail":
            sid = u2s[r["s"]]
            wfail[sid] = "calc"
            emit(r["ts"], ("WFail", sid, "calc"), write_end=tend.get(r["s"]), sid=sid)
    # ---------------- main thread
    recs = ob["orec"]
    state = "head"            # head | scan | yield | finally
    exitk: Optional[str] = None
    i = 0
    cur_i = -1
    in_scan_visit = False
    taken: List[Tuple[int, Tuple[Any, ...]]] = []
    requeued: Dict[int, Set[int]] = {}
    pending_visit: Optional[int] = None      # ts of a visit that has produced no label yet
    polled = False
    body_crash = False
    received = 0                             # items that left compute_stream (the consumer got them)

    def close_visit(ts: int) -> None:
        nonlocal pending_visit, polled
        if pending_visit is not None:
            emit(ts, ("OVisit",), read=(pending_visit, ts) if polled else None, sid=cur_i)
        pending_visit = None
        polled = False
    while i < len(recs):
        r = recs[i]
        k, ts = r["k"], r["ts"]
        if k == "iter":
            if state == "yield":
                emit(ts, ("OResume",))
            h = r.get("head")
            emit(ts, ("OHead",), read=(h[0], h[1]) if h else None, val="loop")
            state = "scan"
        elif k == "visit":
            close_visit(ts)
            cur_i = r["i"]
            pending_visit = ts
            polled = False
        elif k == "endscan":
            close_visit(ts)
            emit(ts, ("OEndScan",))
            state = "head"
        elif k == "poll_begin":
            taken = []
        elif k == "get" and r["q"] == "res":
            w = wid(r["w"])
            m = r["m"]
            if _in_poll(recs, i):
                taken.append((w, ("RDone", u2s.get(m["u"], -1)) if m["t"] == "res" else ("RDropComplete",)))
                if m["t"] == "res":
                    requeued.setdefault(w, set()).discard(u2s.get(m["u"], -1))
            else:                                     # inside wait_for_drop_completion
                if m["t"] == "dc":
                    emit(ts, ("OGot", w))
                else:
                    s = u2s.get(m["u"], -1)
                    if s in requeued.setdefault(w, set()):
                        pass                          # put-back of an already put-back message: identity
                    else:
                        requeued[w].add(s)
                        emit(ts, ("ORequeue", w, s))
        elif k == "poll_end":
            emit(ts, ("OPoll", tuple(taken)))
            pending_visit = pending_visit if pending_visit is not None else ts
            polled = True
            if r.get("raised"):
                # poll_result_queues itself raised (the behaviour before repair 10693fe on a late DROP_COMPLETE): the model's poll
                # never does (Worker_poll_never_raises) - no label for it, the history continues with the finally block
                pending_visit = None
                body_crash = True
                ob["poll_raised"] = r["raised"]
        elif k == "psr":
            if r["r"] == "raise":
                if pending_visit is not None and polled and not body_crash:
                    emit(ts, ("OCollect", False))
                    body_crash = True
                pending_visit = None
            elif r["r"] is False:
                close_visit(ts)
            else:
                # collected: label was emitted at "collected" (FG) or here (TFS / JOIN)
                if pending_visit is not None:
                    emit(ts, ("OCollect", True))
                pending_visit = None
        elif k == "collected":
            wdrop[u2s[r["s"]]] = widx.get(r["wdrop"], 0)
            emit(ts, ("OCollect", True))
            pending_visit = None
        elif k == "wait_end":
            if r["timed_out"]:
                emit(ts, ("OTimeout", wid(r["w"])))
        elif k == "exec_begin":
            pass
        elif k == "exec_end":
            # stamped at exec_begin for the send (the put happens inside): use the begin record's ts
            bi = max(j for j in range(i) if recs[j]["k"] == "exec_begin")
            b = recs[bi]
            if not r["ok"] and any(x["k"] == "sendfail" for x in recs[bi:i]):
                emit(b["ts"], ("OSendFail",))
            else:
                emit(b["ts"], ("OExec", bool(r["ok"])))
            pending_visit = None
            if not r["ok"]:
                body_crash = True
        elif k == "yield":
            if state == "yield":
                emit(ts, ("ONext",))              # the next item of the same drain (no loop head in between)
            received += 1
            state = "yield"
        elif k == "abandon":
            emit(ts, ("OAbandon",))
            state = "finally"
        elif k == "artifacts":
            close_visit(ts) if not body_crash else None
            if state == "head":
                emit(ts, ("OHead",), val="exit")
            elif state == "yield":
                emit(ts, ("OResume",))
                emit(ts, ("OHead",), val="exit")
            state = "finally"
            emit(ts, ("OArtifacts", bool(r["ok"])))
        elif k == "terminate":
            if r["called"]:
                emit(ts, ("OTerminate", wid(r["w"])))
        elif k == "join":
            emit(ts, ("OJoin", wid(r["w"])), alive=r["alive"])
        elif k == "tjoin":
            emit(ts, ("OJoin", u2s[r["s"]]), alive=r["alive"])
        elif k == "close":
            emit(ts, ("OClose",))
        elif k == "dropall":
            emit(ts, ("ODropAll", bool(r["ok"])))
        elif k == "exit":
            exitk = r["how"]
            ob["exit_exc"] = r.get("exc")
        i += 1
    # ---------------- merge + register fix-ups
    ev.sort(key=lambda e: (e[0], e[1]))
    labels = [(e[2], e[3], e[0]) for e in ev]
    labels = _fix_registers(labels)
    # exit kind
    hist = [l for l, _, _ in labels]
    arts = [l for l in hist if l[0] == "OArtifacts"]
    if arts and arts[0][1] is False:
        xk = "XFinallyCrash"
    elif exitk == "abandon":
        xk = "XAbandon"
    elif exitk == "return":
        xk = "XNormal"
    elif exitk == "raise":
        xk = "XRaisedBody" if body_crash else "XRaisedHead"
    else:
        xk = "XNone"
    if ob["status"] == "hang":
        xk = "XNone"                 # whatever the abandoned thread raised while being cleaned up is not the run's outcome
    # OHead(exit) labels carry the value decided by the outcome; the model recomputes it
    return {"hist": hist, "exit": xk, "wof": wof, "wdrop": wdrop, "children": children, "wfail": wfail,
            "keys_left": bool(ob["keys_left"]), "received": received, "n_workers": len(widx) if mode == "M" else len({l[1] for l in hist if l[0] == "OJoin"})}


def _in_poll(recs: List[Dict[str, Any]], i: int) -> bool:
    """Is record i (a get on a result queue) inside poll_result_queues (as opposed to wait_for_drop_completion)?"""
    for r in reversed(recs[:i]):
        if r["k"] == "poll_begin":
            return True
        if r["k"] in ("poll_end", "wait_begin"):
            return False
    return False


def _fix_registers(labels: List[Tuple[Tuple[Any, ...], Dict[str, Any], int]]) -> List[Tuple[Tuple[Any, ...], Dict[str, Any], int]]:
    """Order a register write after a read that overlapped it and did not see it.
    * OHead(loop) read the error flag as False: every WFail before it whose write interval reaches into the read interval
      (or is open ended) moves behind it.
    * OVisit at a polled visit of step s read step_is_done as False: a THREADING WDone of s before it whose write interval
      reaches into the read interval moves behind it."""
    out = list(labels)
    changed = True
    guard = 0
    while changed and guard < 50:
        changed = False
        guard += 1
        for j, (lab, meta, ts) in enumerate(out):
            rd = meta.get("read")
            if not rd:
                continue
            if lab[0] == "OHead" and meta.get("val") == "loop":
                for q in range(j - 1, -1, -1):
                    l2, m2, _ = out[q]
                    if l2[0] == "WFail" and (m2.get("write_end") is None or m2["write_end"] >= rd[0]):
                        out.insert(j, out.pop(q))
                        changed = True
                        break
            elif lab[0] == "OVisit" and meta.get("sid") is not None:
                for q in range(j - 1, -1, -1):
                    l2, m2, _ = out[q]
                    if l2[0] == "WDone" and m2.get("sid") == meta["sid"] and (m2.get("write_end") is None or m2["write_end"] >= rd[0]):
                        out.insert(j, out.pop(q))
                        changed = True
                        break
            if changed:
                break
    return out


# ----------------------------------------------------------------------------------------------------------------------
# Coq terms
# ----------------------------------------------------------------------------------------------------------------------
def cq_label(l: Tuple[Any, ...]) -> str:
    k = l[0]
    if k in ("OHead", "OVisit", "OEndScan", "OResume", "OAbandon", "OClose", "OSendFail", "ONext"):
        return k
    if k == "OPoll":
        return "OPoll " + cq_list(f"({cq_nat(w)}, {('RDone ' + cq_nat(m[1])) if m[0] == 'RDone' else 'RDropComplete'})" for w, m in l[1])
    if k in ("OCollect", "OExec", "OArtifacts", "ODropAll"):
        return f"{k} {cq_bool(l[1])}"
    if k == "ORequeue":
        return f"ORequeue {cq_nat(l[1])} {cq_nat(l[2])}"
    if k in ("OGot", "OTimeout", "OTerminate", "OJoin", "WTake", "WUpload", "WDone", "WDropCrash"):
        return f"{k} {cq_nat(l[1])}"
    if k == "WFail":
        return f"WFail {cq_nat(l[1])} {'CCalc' if l[2] == 'calc' else 'CUpload'}"
    if k == "WDropAck":
        return f"WDropAck {cq_nat(l[1])} {cq_bool(l[2])} {cq_bool(l[3])}"
    raise ValueError(l)


def cq_case(plan: Dict[str, Any], mode: str, stream: bool, h: Dict[str, Any]) -> str:
    def al(d: Dict[int, Any], f: Any) -> str:
        return cq_list(f"({cq_nat(k)}, {f(v)})" for k, v in sorted(d.items()) if k >= 0)
    return ("{| pc_plan := " + cq_plan(plan) + f"; pc_mp := {cq_bool(mode == 'M')}; pc_stream := {cq_bool(stream)}; "
            f"pc_wof := {al(h['wof'], cq_nat)}; pc_wdrop := {al(h['wdrop'], cq_nat)}; "
            f"pc_children := {al(h['children'], lambda v: cq_list(cq_nat(x) for x in v))}; "
            f"pc_wfail := {al(h['wfail'], lambda v: 'Some ' + ('CCalc' if v == 'calc' else 'CUpload'))}; "
            f"pc_hist := {cq_list(cq_label(l) for l in h['hist'])}; pc_exit := {h['exit'] if h['exit'] != 'XNone' else 'XNormal'}; "
            f"pc_keys_left := {cq_bool(h['keys_left'])}; pc_received := {cq_nat(h['received'])} |}}")


# ----------------------------------------------------------------------------------------------------------------------
# generation, replay in Coq, judging
# ----------------------------------------------------------------------------------------------------------------------
def spec_stale_drop_complete() -> Tuple[Dict[str, Any], Dict[str, float]]:
    """Witness of the former finding C06-mp-stale-drop-complete (fixed:10693fe): two unordered steps on ONE object (S0 fast, S1 > 5 s)
    and a third step on another object that is still running when the late DROP_COMPLETE arrives.
    The root has ONE column on purpose: the root step uploads its data only when FeatureSet.any_uuid of the root step happens to be
    the column the other framework reads (ExecutionPlan.add_tfs, need_to_upload); with two root columns that depends on a set order
    that varies between runs, and when the root step does not upload, the transform step races with S0's upload
    ("Try to get an empty apache flight": observed once in ~10 runs of the two-column variant) - a different, order-dependent
    failure inside the known domain C06-unordered-conflicting-steps that would make this run's expected outcome (3 results) flaky."""
    spec = {"groups": [
        {"name": "R0", "kind": "root", "cfw": "PyArrowTable", "cols": {"a": [1, 2, 3]}},
        {"name": "S0", "kind": "derived", "cfw": "PyArrowTable", "features": {"s0": {"inputs": ["a"], "c0": 0, "coefs": [1]}}},
        {"name": "S1", "kind": "derived", "cfw": "PyArrowTable", "features": {"s1": {"inputs": ["a"], "c0": 1, "coefs": [2]}}},
        {"name": "T", "kind": "derived", "cfw": "PandasDataFrame", "features": {"t": {"inputs": ["a"], "c0": 2, "coefs": [1]}}}],
        "request": ["s0", "s1", "t"]}
    return spec, {"S1": 6.0, "T": 9.0}


def gen_specs(rng: random.Random, n: int) -> List[Dict[str, Any]]:
    out = []
    for i in range(n):
        r = i % 4
        if r == 0:
            out.append(daggen.gen_siblings(rng, delay_ms=rng.choice([0, 5, 25])))
        elif r == 1:
            out.append(daggen.gen_single_root(rng, multi_cfw=False))
        else:
            out.append(daggen.gen_single_root(rng))
    return out


def judge(ob: Dict[str, Any], h: Dict[str, Any]) -> List[str]:
    """End-to-end predicates of C08 / C09 / C13 evaluated directly on the observation (independent of the model).
    ob["expect"] (optional) = what the case was built to show: {"ok": the run must succeed, "requeue_timeout": the history must contain
    a put-back followed by a timed-out wait on the same queue, "all_items": n items must reach the consumer, "stream_equals_batch":
    observe() compared the streamed tables with the SYNC batch result}."""
    bad = []
    kind = (ob["fault"] or {}).get("kind")
    exp = ob.get("expect") or {}
    if ob["status"] == "hang":
        bad.append("the call did not return within the watchdog")
    if kind in ("calc", "upload") and h["wfail"] and ob["status"] == "ok" and not ob["variant"].startswith("abandon"):
        bad.append(f"a worker failed on step(s) {sorted(h['wfail'])} but the call returned normally (failure lost)")
    if kind not in ("artifacts",) and ob["procs_left"]:
        bad.append(f"{ob['procs_left']} worker process(es) alive after the call")
    if kind not in ("artifacts",) and ob["threads_left"]:
        bad.append(f"{ob['threads_left']} worker thread(s) alive after the call")
    if kind not in ("artifacts", "finaldrop") and ob["keys_left"]:
        bad.append(f"datasets left in the Flight store: {len(ob['keys_left'])}")
    if ob.get("poll_raised"):
        bad.append(f"poll_result_queues raised {ob['poll_raised']} (a message on a result queue that is not a step uuid made the run fail)")
    if exp.get("ok") and ob["status"] != "ok":
        bad.append(f"a run in which nothing fails ended with status {ob['status']}: {ob.get('exc')}")
    if exp.get("requeue_timeout") and ob["status"] != "hang" and not _has_requeue_then_timeout(h["hist"]):
        bad.append("the witness did not exercise what it was built for: no result message was put back (ORequeue) during a wait that "
                   "then timed out (OTimeout) - timing of the machine; not a defect of the implementation by itself")
    if exp.get("all_items") is not None and ob["status"] == "ok" and h["received"] != exp["all_items"]:
        bad.append(f"the consumer received {h['received']} item(s) instead of {exp['all_items']}")
    if exp.get("stream_equals_batch") and ob.get("stream_vs_batch"):
        bad.append(ob["stream_vs_batch"])
    if exp.get("equals_sync") and ob.get("mode_vs_sync"):
        bad.append(ob["mode_vs_sync"])
    return bad


def _has_requeue_then_timeout(hist: List[Any]) -> bool:
    """ORequeue w s ... OTimeout w with no OGot w in between: a step result was taken and put back by a wait that then gave up."""
    open_: Set[int] = set()
    for l in hist:
        if l[0] == "ORequeue":
            open_.add(l[1])
        elif l[0] == "OGot":
            open_.discard(l[1])
        elif l[0] == "OTimeout" and l[1] in open_:
            return True
    return False


FOCUS = {
    # which THREADING faults / MULTIPROCESSING faults / slow special cases (run in parallel subprocesses) a caller pays for
    None: {"tf": ("calc", "result", "prepare", "artifacts"), "mf": ("calc", "result", "prepare", "send", "artifacts", "finaldrop", "upload"),
           "slow": ("workerdrop", "stale", "requeue", "slow:11"), "slow_thorough": ("workerdrop", "workerdrop", "slow:31"), "mp_abandon": True},
    # C08: every place where something fails and must be reported (or is lost by design: workerdrop), and the runs in which nothing
    # fails but a late DROP_COMPLETE is polled / a put-back result has to survive a timed-out wait
    "C08": {"tf": ("calc", "result", "prepare"), "mf": ("calc", "upload", "result", "prepare", "send"),
            "slow": ("workerdrop", "stale", "requeue"), "slow_thorough": ("workerdrop", "workerdrop"), "mp_abandon": False},
    # C09: what is left behind on every exit path: all variants, failures inside the finally block, abandoned MP streams; and the
    # worker that must still be there after the consumer of a stream paused
    "C09": {"tf": ("calc", "artifacts"), "mf": ("calc", "artifacts", "finaldrop", "send"), "slow": ("slow:11",), "slow_thorough": ("slow:31",),
            "mp_abandon": True},
}


# ----------------------------------------------------------------------------------------------------------------------
# one observed run -> digest (JSON-able: what check() needs, so that slow cases can be observed in parallel subprocesses)
# ----------------------------------------------------------------------------------------------------------------------
def observe_digest(spec: Dict[str, Any], mode: str, variant: str, fault: Optional[Dict[str, Any]] = None,
                   delays: Optional[Dict[str, float]] = None, expect: Optional[Dict[str, Any]] = None,
                   timeout: float = 40.0) -> Tuple[Dict[str, Any], Optional[Dict[str, Any]]]:
    """Observe (re-observing when the connection to the multiprocessing manager broke), canonicalise, judge.  Returns (digest, run);
    run = {"ob", "h", "delays"} or None when the observation itself failed (then digest["observe_error"] says why)."""
    retries = leaked = 0
    case0 = {"kind": "worker_proto", "spec": spec, "mode": mode, "variant": variant, "fault": fault, "delays": delays, "expect": expect}
    try:
        for attempt in range(3):
            ob = observe(spec, mode, variant, fault, delays, timeout=timeout, expect=expect)
            # the connection to the multiprocessing manager (a separate OS process) occasionally breaks on a loaded machine
            # (BrokenPipeError / EOFError out of a proxy call): infrastructure the model assumes reliable -> observe again
            if ob.get("exc") and any(k in ob["exc"] for k in INFRA_ERRORS) and attempt < 2:
                retries += 1
                leaked += ob["procs_left"]
                continue
            break
        h = build_history(ob)
    except Exception as e:  # noqa: BLE001
        return {"observe_error": f"observation failed: {type(e).__name__}: {str(e)[:200]}", "case": case0, "mode": mode, "variant": variant,
                "fault_kind": (fault or {}).get("kind", "none"), "infra_retries": retries, "infra_leaked": leaked}, None
    run = {"ob": ob, "h": h, "delays": delays}
    hist = h["hist"]
    dg = {"term": cq_case(ob["plan"], mode, variant != "run", h), "case": _case_of(run), "judge": judge(ob, h), "mode": mode,
          "variant": variant, "fault": ob["fault"] or None, "fault_kind": (ob["fault"] or {}).get("kind", "none"),
          "triggered": _fault_triggered(ob, h), "exit": h["exit"], "keys_left": h["keys_left"], "hist_len": len(hist),
          "idle_scans": ob["idle_scans"], "timeouts": sum(1 for l in hist if l[0] == "OTimeout"),
          "requeues": sum(1 for l in hist if l[0] == "ORequeue"), "requeue_then_timeout": _has_requeue_then_timeout(hist),
          "received": h["received"], "stale": any(l[0] == "OPoll" and any(m[0] == "RDropComplete" for _, m in l[1]) for l in hist),
          "n_workers": h["n_workers"], "plan_steps": len(ob["plan"]["steps"]), "wall": ob["wall"],
          "infra_retries": retries, "infra_leaked": leaked}
    return dg, run


# ---- the slow special cases --------------------------------------------------------------------------------------------
def spec_requeue_timeout() -> Tuple[Dict[str, Any], Dict[str, float]]:
    """Witness for "a result that wait_for_drop_completion put back survives a timed-out wait": three unordered steps on ONE object
    (its worker executes them in plan order: fast, 2 s, 7 s) and a step on another object.  The fast step is collected, its drop
    command queues behind the two slow steps, the 5 s wait takes the 2 s step's result from the queue and puts it back, then times
    out while the 7 s step is still running.  Losing the put-back message would leave that step running for ever.
    The delays are assigned by plan position (the planner decides the order of unordered steps)."""
    spec = {"groups": [
        {"name": "R0", "kind": "root", "cfw": "PyArrowTable", "cols": {"a": [1, 2, 3]}},
        {"name": "S0", "kind": "derived", "cfw": "PyArrowTable", "features": {"s0": {"inputs": ["a"], "c0": 0, "coefs": [1]}}},
        {"name": "S1", "kind": "derived", "cfw": "PyArrowTable", "features": {"s1": {"inputs": ["a"], "c0": 1, "coefs": [2]}}},
        {"name": "S2", "kind": "derived", "cfw": "PyArrowTable", "features": {"s2": {"inputs": ["a"], "c0": 2, "coefs": [3]}}},
        {"name": "T", "kind": "derived", "cfw": "PandasDataFrame", "features": {"t": {"inputs": ["a"], "c0": 2, "coefs": [1]}}}],
        "request": ["s0", "s1", "s2", "t"]}
    uni = Universe(spec, Listener())
    plan = export_plan(uni.prepare(), uni)
    uni.dispose()
    order = [s["group"] for s in plan["steps"] if s["kind"] == "FG" and s["group"] in ("S0", "S1", "S2")]
    return spec, {order[0]: 0.0, order[1]: 2.0, order[2]: 7.0, "T": 3.0}


def spec_slow_consumer() -> Dict[str, Any]:
    """A chain of three requested feature groups on the root's framework (one object, one worker process): the next link is submitted
    only after the previous one was collected, i.e. only while the consumer is NOT holding an item."""
    return {"groups": [
        {"name": "R0", "kind": "root", "cfw": "PyArrowTable", "cols": {"a": [1, 2, 3]}},
        {"name": "D1", "kind": "derived", "cfw": "PyArrowTable", "features": {"d1": {"inputs": ["a"], "c0": 1, "coefs": [2]}}},
        {"name": "D2", "kind": "derived", "cfw": "PyArrowTable", "features": {"d2": {"inputs": ["d1"], "c0": 2, "coefs": [3]}}},
        {"name": "D3", "kind": "derived", "cfw": "PyArrowTable", "features": {"d3": {"inputs": ["d2"], "c0": 3, "coefs": [5]}}}],
        "request": ["d1", "d2", "d3"]}


def special_case(name: str) -> List[Dict[str, Any]]:
    """Observe one slow special case; returns digests (normally one)."""
    if name == "workerdrop":
        dg, _ = observe_digest(_drop_all_spec(), "M", "run", {"kind": "workerdrop"})
    elif name == "stale":
        sspec, sdel = spec_stale_drop_complete()
        dg, _ = observe_digest(sspec, "M", "run", None, sdel, expect={"ok": True})
    elif name == "requeue":
        rspec, rdel = spec_requeue_timeout()
        for attempt in range(2):
            dg, _ = observe_digest(rspec, "M", "run", None, rdel, expect={"ok": True, "requeue_timeout": True, "equals_sync": True}, timeout=60.0)
            # a run that succeeded WITHOUT the put-back + timeout (the machine stalled for seconds) shows nothing: observe once more
            if "observe_error" in dg or dg["case"]["status"] != "ok" or dg["requeue_then_timeout"]:
                break
    elif name.startswith("slow:"):
        pause = float(name.split(":")[1])
        dg, _ = observe_digest(spec_slow_consumer(), "M", f"stream:pause:{pause:g}:1", None, None,
                               expect={"ok": True, "all_items": 3, "stream_equals_batch": True}, timeout=40.0 + pause)
    else:
        raise ValueError(name)
    dg["special"] = name
    return [dg]


def slow_consumer_case(pause_s: float, rep_prefix: str = "C13") -> List[str]:
    """For C13 (and anybody else): ONE streamed MULTIPROCESSING run of a chain of three requested feature groups whose consumer sleeps
    `pause_s` seconds after the first item (compute_stream is suspended meanwhile, the worker process gets no command).  Returns the
    list of problems (empty = fine): the run must succeed, deliver all three items, equal the SYNC batch result, leave nothing
    behind, and its observed history must be a trace of Model/Worker.v (needs coq/Props/Worker.vo: vlib.build_props("Worker")).
    In-process, takes about pause_s + 3 s; scratch under _build/<rep_prefix>/worker_proto_slow."""
    dg = special_case(f"slow:{pause_s:g}")[0]
    if "observe_error" in dg:
        return [dg["observe_error"]]
    probs = list(dg["judge"])
    bad, _ = vlib.run_cases(rep_prefix, "worker_proto_slow", REQ, "chk_proto", [dg["term"]], case_type="pcase")
    if bad:
        probs.append(f"the observed history (outcome {dg['exit']}, {dg['received']} item(s) received) is not a trace of Model/Worker.v: "
                     + _diagnose(rep_prefix, dg["term"]) + " -- history: " + "; ".join(dg["case"]["history"])[:1200])
    return probs


def spawn_requeue_case(tag: str = "C06") -> Any:
    """For C06: start the put-back-result-across-a-timed-out-wait witness (MULTIPROCESSING, ~12 s, mostly sleeping) in its own
    interpreter; collect with requeue_case_result() at the end of the check."""
    return _spawn_special(["requeue"], tag)


def requeue_case_result(procs: Any, rep_prefix: str = "C06") -> Tuple[List[str], Dict[str, Any]]:
    """Problems of the witness started by spawn_requeue_case (empty = fine): the MULTIPROCESSING run must end, succeed, return the
    tables of the SYNC run, leave nothing behind, and its observed history must be a trace of Model/Worker.v."""
    dg = _collect_special(procs, 150.0)[0]
    if "observe_error" in dg:
        return [dg["observe_error"]], dg.get("case", {})
    probs = [j for j in dg["judge"] if "did not exercise what it was built for" not in j]
    bad, _ = vlib.run_cases(rep_prefix, "worker_proto_requeue", REQ, "chk_proto", [dg["term"]], case_type="pcase")
    if bad:
        probs.append(f"the observed history (outcome {dg['exit']}) is not a trace of Model/Worker.v: " + _diagnose(rep_prefix, dg["term"])
                     + " -- history: " + "; ".join(dg["case"]["history"])[:1200])
    return probs, {**dg["case"], "exercised": bool(dg.get("requeue_then_timeout"))}


def _spawn_special(names: List[str], tag: str) -> List[Tuple[str, Any, str]]:
    """Each slow case in its own interpreter (own Flight server, own manager): they mostly sleep, so they run side by side."""
    import subprocess
    procs = []
    for k, name in enumerate(names):
        out = os.path.join(_scratch(), f"special_{tag}_{os.getpid()}_{k}.json")
        if os.path.exists(out):
            os.unlink(out)
        p = subprocess.Popen([vlib.PY, "-m", "harness.worker_proto", "--case", name, out], cwd=str(vlib.VERIF),
                             stdout=subprocess.DEVNULL, stderr=subprocess.DEVNULL, start_new_session=True)
        procs.append((name, p, out))
    return procs


def _collect_special(procs: List[Tuple[str, Any, str]], limit: float) -> List[Dict[str, Any]]:
    digs: List[Dict[str, Any]] = []
    deadline = time.time() + limit
    for name, p, out in procs:
        err = None
        try:
            p.wait(max(1.0, deadline - time.time()))
        except Exception:  # noqa: BLE001
            try:
                import signal
                os.killpg(p.pid, signal.SIGKILL)          # the observer, its workers, its manager and its Flight server
            except Exception:  # noqa: BLE001
                p.kill()
            err = f"special case {name}: the observing subprocess did not end within {limit:.0f} s"
        if err is None:
            try:
                digs.extend(json.load(open(out)))
            except Exception as e:  # noqa: BLE001
                err = f"special case {name}: no result from the observing subprocess (exit code {p.returncode}): {type(e).__name__}"
        if err is not None:
            digs.append({"observe_error": err, "case": {"kind": "worker_proto", "special": name}, "mode": "M", "variant": "run",
                         "fault_kind": "none", "infra_retries": 0, "infra_leaked": 0, "special": name})
        if os.path.exists(out):
            os.unlink(out)
    return digs


def check(rep_prefix: str, tier: str, seed: int, n_specs: Optional[int] = None, focus: Optional[str] = None) -> List[Dict[str, Any]]:
    """Observe real runs, replay their histories in Coq against chk_proto, judge them.  Returns disagreements; counters
    in LAST_INFO.  Each disagreement: {"stage": "model"|"judge"|"observe", "what": str, "case": {...}} (JSON-able; the
    case holds spec, mode, variant, fault, history and can be re-run with replay_case).  `focus` ("C08" | "C09" | None = all)
    selects the fault kinds and slow special cases, see FOCUS."""
    logging.disable(logging.CRITICAL)
    rng = random.Random(seed * 7919 + 17)
    big = tier == "thorough"
    n = n_specs if n_specs is not None else (110 if big else 7)
    specs = gen_specs(rng, n)
    digs: List[Dict[str, Any]] = []
    dis: List[Dict[str, Any]] = []
    t_start = time.time()
    budget = 460.0 if big else 42.0
    foc = FOCUS[focus]
    slow_names = list(foc["slow"]) + (list(foc["slow_thorough"]) if big else [])
    procs = _spawn_special(slow_names, rep_prefix)

    def one(spec: Dict[str, Any], mode: str, variant: str, fault: Optional[Dict[str, Any]], delays: Optional[Dict[str, float]] = None,
            expect: Optional[Dict[str, Any]] = None) -> Optional[Dict[str, Any]]:
        dg, run = observe_digest(spec, mode, variant, fault, delays, expect)
        digs.append(dg)
        return run

    mp_left = 170 if big else 13
    n_mp_specs = 0
    for si, spec in enumerate(specs):
        if time.time() - t_start > budget:
            break
        try:
            uni = Universe(spec, Listener())
            plan = export_plan(uni.prepare(), uni)
            uni.dispose()
        except Exception:  # noqa: BLE001
            continue
        fg = [s["sid"] for s in plan["steps"] if s["kind"] == "FG"]
        anys = [s["sid"] for s in plan["steps"]]
        # THREADING: fault-free in three variants, then one fault per crash point that exists in THREADING
        for variant in ("run", "stream", "abandon") + (("abandon:2",) if foc["mp_abandon"] else ()):
            one(spec, "T", variant, None)
        tf = [f for f in ({"kind": "calc", "sid": rng.choice(fg)}, {"kind": "result", "sid": rng.choice(fg)},
                          {"kind": "prepare", "sid": rng.choice(anys)}, {"kind": "artifacts"}) if f["kind"] in foc["tf"]]
        # quick tier: two fault kinds per plan, rotating through the list so that every kind occurs in every run of the check
        for f in (tf if big else [tf[(2 * si + j) % len(tf)] for j in range(2)]):
            one(spec, "T", rng.choice(["run", "stream"]), f)
        # MULTIPROCESSING (slow): fault-free, then faults
        if mp_left > 0:
            base = one(spec, "M", "run" if si % 3 else "stream", None)
            mp_left -= 1
            # steps during whose execution the worker uploaded (targets of the upload fault)
            up_steps = _upload_steps(base) if base is not None else []
            mf: List[Dict[str, Any]] = [{"kind": "calc", "sid": rng.choice(fg)}, {"kind": "result", "sid": rng.choice(fg)},
                                        {"kind": "prepare", "sid": rng.choice(anys)}, {"kind": "send", "sid": rng.choice(anys)},
                                        {"kind": "artifacts"}, {"kind": "finaldrop"}]
            if up_steps:
                mf.append({"kind": "upload", "sid": rng.choice(up_steps)})
            mf = [f for f in mf if f["kind"] in foc["mf"]]
            for f in (mf if big else [mf[(2 * n_mp_specs + j) % len(mf)] for j in range(2)]):
                if mp_left <= 0:
                    break
                one(spec, "M", "run" if f["kind"] != "result" or rng.random() < 0.5 else "stream", f)
                mp_left -= 1
            n_mp_specs += 1
            if foc["mp_abandon"] and mp_left > 0 and (si % 5 == 0 if big else n_mp_specs == 1):
                one(spec, "M", rng.choice(["abandon", "abandon:2"]), None)
                mp_left -= 1
    # a stream closed in the MIDDLE of a drain: four root groups that finish together (same delay) are collected in one scan
    if foc["mp_abandon"]:
        mspec, mdel = _multi_drain_spec()
        for kk in ((1, 2, 3) if big else (1, 3)):
            one(mspec, "T", f"abandon:{kk}", None, mdel)
        one(mspec, "T", "stream", None, mdel)
        one(mspec, "M", "abandon:2", None, mdel)
    t_own = round(time.time() - t_start, 1)
    # the slow special cases observed meanwhile in subprocesses: worker-side drop crash (5 s stall), the late DROP_COMPLETE run (former
    # finding C06-mp-stale-drop-complete, fixed:10693fe), the put-back result that has to survive a timed-out wait, the paused consumer
    digs.extend(_collect_special(procs, 150.0 + max([float(x.split(":")[1]) for x in slow_names if x.startswith("slow:")] or [0.0])))

    # ---- counters, replay in Coq, judging
    info: Dict[str, Any] = {"focus": focus or "all", "specs": len(specs), "runs": {"T": 0, "M": 0}, "variants": {}, "faults": {},
                            "fault_triggered": {}, "exit": {}, "idle_scans_dropped": 0, "timeouts_5s": 0, "requeues": 0,
                            "requeue_then_timeout_runs": 0, "stale_drop_complete_runs": 0, "items_received": 0,
                            "special_cases": {}, "infra_retries": 0, "infra_retry_leaked_procs": 0}
    ok_d = []
    for d in digs:
        info["infra_retries"] += d["infra_retries"]
        info["infra_retry_leaked_procs"] += d["infra_leaked"]
        if "observe_error" in d:
            dis.append({"stage": "observe", "what": d["observe_error"], "case": d["case"]})
            continue
        ok_d.append(d)
        info["runs"][d["mode"]] += 1
        vk = f"{d['mode']}/{d['variant'].split(':')[0]}"
        info["variants"][vk] = info["variants"].get(vk, 0) + 1
        info["faults"][d["fault_kind"]] = info["faults"].get(d["fault_kind"], 0) + 1
        if d["triggered"]:
            info["fault_triggered"][d["fault_kind"]] = info["fault_triggered"].get(d["fault_kind"], 0) + 1
        info["exit"][d["exit"]] = info["exit"].get(d["exit"], 0) + 1
        info["idle_scans_dropped"] += d["idle_scans"]
        info["timeouts_5s"] += d["timeouts"]
        info["requeues"] += d["requeues"]
        info["requeue_then_timeout_runs"] += int(d["requeue_then_timeout"])
        info["stale_drop_complete_runs"] += int(d["stale"])
        info["items_received"] += d["received"]
        if d.get("special"):
            info["special_cases"][d["special"]] = {"exit": d["exit"], "wall_s": d["wall"], "hist_len": d["hist_len"], "timeouts_5s": d["timeouts"],
                                                   "requeue_then_timeout": d["requeue_then_timeout"], "stale_drop_complete": d["stale"],
                                                   "received": d["received"]}
    terms = [d["term"] for d in ok_d]
    bad: List[int] = []
    if terms:
        bad, ci = vlib.run_cases(rep_prefix, "worker_proto", REQ, "chk_proto", terms, case_type="pcase", shard=25)
        info["coq"] = ci
        ab = [i for i, d in enumerate(ok_d) if d["variant"].startswith("abandon") and i not in bad]
        info["abandoned_streams"] = len(ab)
        info["abandoned_mid_drain"], info["results_lost_by_abandoning"] = _undelivered_counts(rep_prefix, [terms[i] for i in ab])
    for k in bad:
        d = ok_d[k]
        where = _diagnose(rep_prefix, terms[k])
        dis.append({"stage": "model", "what": f"observed {d['mode']}/{d['variant']} history (fault {d['fault']}, outcome {d['exit']}, "
                                              f"keys left {d['keys_left']}, {d['received']} item(s) received by the consumer) is not a trace of "
                                              f"Model/Worker.v ending with that outcome: {where}",
                    "case": d["case"]})
    for d in ok_d:
        for b in d["judge"]:
            dis.append({"stage": "judge", "what": f"{d['mode']}/{d['variant']} fault {d['fault']}: {b}", "case": d["case"]})
    hl = [d["hist_len"] for d in ok_d]
    info["hist_len"] = {"n": len(hl), "min": min(hl) if hl else 0, "max": max(hl) if hl else 0, "sum": sum(hl)}
    ws_ = [d["n_workers"] for d in ok_d]
    info["workers"] = {"min": min(ws_) if ws_ else 0, "max": max(ws_) if ws_ else 0}
    info["wall_generated_s"] = t_own
    info["wall_s"] = round(time.time() - t_start, 1)
    info["disagreements"] = len(dis)
    LAST_INFO.clear()
    LAST_INFO.update(info)
    LAST_RUNS[:] = [(d["mode"], d["variant"], json.dumps(d["fault"], sort_keys=True), d["exit"], d["plan_steps"], d["hist_len"]) for d in ok_d]
    return dis


def report(rep: Any, prop: str, tier: str, seed: int, n_specs: Optional[int] = None) -> bool:
    """What a registered check (harness/c08.py, harness/c09.py) does with this tie: build Props/Worker.v, observe + replay + judge with
    the property's focus, turn EVERY disagreement (stage model / judge / observe) into rep.finding with the case as replay
    object, add counters.  Returns True when a failing input was reported."""
    pw = vlib.build_props("Worker")
    rep.proof(pw)
    found = False
    dis = check(prop, tier, seed, n_specs=n_specs, focus=prop if prop in FOCUS else None)
    for d in dis:
        c = d["case"]
        key = json.dumps([c.get("spec"), c.get("mode"), c.get("variant"), c.get("fault")], sort_keys=True)
        rep.finding(f"worker-proto:{d['stage']}:{key}"[:400], "worker protocol (Model/Worker.v), " + d["stage"] + ": " + d["what"], c)
        found = True
    rep.add("worker_protocol", dict(LAST_INFO))
    rep.count(len(LAST_RUNS))
    for k in LAST_RUNS:
        rep.nontrivial(("worker_proto",) + k)
    tb = ("hand-written Model/Worker.v (labelled transition system of the orchestrator <-> worker protocol); tied by real THREADING / "
          "MULTIPROCESSING runs observed through class-level wrappers (harness/worker_proto.py) whose canonical histories chk_proto "
          "replays in vm_compute; wof / wdrop / children_if_root are observed, OS facts (terminate kills, join returns) assumed")
    if tb not in rep.coverage["trusted_base"]:
        rep.coverage["trusted_base"].append(tb)
    if not pw.ok and not found:
        rep.finding("proof-broken-worker", "Props/Worker.v no longer checks",
                    {"failed_files": pw.failed_files, "forbidden": pw.forbidden, "log_tail": pw.log[-3000:]}, found_input=False)
    return found


def replay_main(r: Dict[str, Any], prop: str) -> int:
    """`./check <prop> --replay <file>` for a stored worker_proto case: re-observe on the current tree, replay, judge."""
    pw = vlib.build_props("Worker")
    res = replay_case(r, prop)
    stop_flight_server()
    print(json.dumps({"props_worker_ok": pw.ok, **res}, indent=1, default=str))
    return 0 if (pw.ok and res["model_accepts"] and not res["judge"]) else 1


def _undelivered_counts(rep_prefix: str, terms: List[str]) -> Tuple[int, int]:
    """(number of abandoned streams in which the consumer closed the generator in the MIDDLE of a drain, results lost that way) as the
    model computes them from the observed histories (Model/Worker.v received_proto)."""
    if not terms:
        return 0, 0
    import re
    out = vlib.coq_eval(rep_prefix, "worker_proto_undelivered", REQ,
                        "Definition ks : list pcase := [" + ";\n".join(terms) + "].\n"
                        "Eval vm_compute in (map (fun k => match received_proto k with Some (_, u) => u | None => 0 end) ks).")
    m = re.search(r"=\s*\[(.*?)\]\s*:\s*list nat", out, re.S)
    us = [int(x) for x in re.findall(r"\d+", m.group(1))] if m else []
    return sum(1 for u in us if u > 0), sum(us)


def _multi_drain_spec() -> Tuple[Dict[str, Any], Dict[str, float]]:
    """Four requested root groups (one object each - sibling groups on ONE object would conflict in THREADING, known domain
    C06-unordered-conflicting-steps), each sleeping the same 60 ms: their results arrive within one or two loop iterations, so a
    drain of compute_stream holds several items (the consumer can close it mid-drain)."""
    groups = [{"name": f"R{i}", "kind": "root", "cfw": "PyArrowTable", "cols": {f"a{i}": [i + 1, i + 2, i + 3]}} for i in range(4)]
    return {"groups": groups, "request": [f"a{i}" for i in range(4)]}, {f"R{i}": 0.06 for i in range(4)}


def _drop_all_spec() -> Dict[str, Any]:
    """One root, one requested column of it: the only object's children are all calculated after the first step, so the
    worker performs the final drop (drop_last_data -> FlightServer.drop_tables) - the place of crash point CWorkerDrop."""
    return {"groups": [{"name": "R0", "kind": "root", "cfw": "PyArrowTable", "cols": {"a": [1, 2, 3]}}], "request": ["a"]}


def _upload_steps(run: Dict[str, Any]) -> List[int]:
    """sids during whose execution the worker uploaded (from the fault-free history)."""
    h = run["h"]["hist"]
    ob = run["ob"]
    cur: Dict[int, Optional[int]] = {}
    out: List[int] = []
    # reconstruct which step a worker is running: commands are taken in submission order
    sub: Dict[Any, List[Any]] = {}
    for r in ob["orec"]:
        if r["k"] == "put" and r["q"] == "cmd":
            w = r["w"]
            sub.setdefault(w, []).append(r["m"])
    widx = {cu: i + 1 for i, (cu, _) in enumerate(ob["cfws"])}
    subw = {widx[w]: list(ms) for w, ms in sub.items() if w in widx}
    for l in h:
        if l[0] == "WTake":
            ms = subw.get(l[1], [])
            m = ms.pop(0) if ms else None
            cur[l[1]] = ob["u2s"].get(m["u"]) if m and m["t"] == "step" else None
        elif l[0] == "WUpload" and cur.get(l[1]) is not None:
            out.append(cur[l[1]])  # type: ignore[arg-type]
    return sorted(set(out))


def _fault_triggered(ob: Dict[str, Any], h: Dict[str, Any]) -> bool:
    k = (ob["fault"] or {}).get("kind")
    hist = h["hist"]
    if k in ("calc", "upload"):
        return any(l[0] == "WFail" and (l[2] == k) for l in hist)
    if k == "result":
        return ("OCollect", False) in hist
    if k == "prepare":
        return ("OExec", False) in hist
    if k == "send":
        return ("OSendFail",) in hist
    if k == "artifacts":
        return ("OArtifacts", False) in hist
    if k == "finaldrop":
        return ("ODropAll", False) in hist
    if k == "workerdrop":
        return any(l[0] == "WDropCrash" for l in hist)
    return False


def _case_of(r: Dict[str, Any]) -> Dict[str, Any]:
    ob, h = r["ob"], r["h"]
    return {"kind": "worker_proto", "spec": ob["spec"], "mode": ob["mode"], "variant": ob["variant"], "fault": ob["fault"] or None,
            "delays": r.get("delays"), "expect": ob.get("expect") or None, "status": ob["status"], "exc": ob.get("exc"), "exit": h["exit"], "keys_left": ob["keys_left"], "procs_left": ob["procs_left"],
            "plan": [{k: v for k, v in s.items() if k in ("sid", "kind", "uuids", "req", "requested")} for s in ob["plan"]["steps"]],
            "wof": h["wof"], "wdrop": h["wdrop"], "children": h["children"], "wfail": h["wfail"],
            "history": [" ".join(str(x) for x in l) for l in h["hist"]]}


def _diagnose(rep_prefix: str, term: str) -> str:
    try:
        out = vlib.coq_eval(rep_prefix, "worker_proto_diag", REQ,
                            f"Definition k : pcase := {term}.\nEval vm_compute in (diag_proto k, match exec (cfg_of k) pinit (pc_hist k) with "
                            "Some st => Some (pc st, flight st, received_proto k) | None => None end).")
        import re
        m = re.search(r"=\s*\((.*?)\)\s*:\s", out, re.S)
        txt = " ".join((m.group(1) if m else out[-300:]).split())
        return "model says (first label not enabled, final pc/flight/(received, undelivered)) = " + txt
    except Exception as e:  # noqa: BLE001
        return f"(diagnosis failed: {str(e)[:120]})"


def replay_case(case: Dict[str, Any], rep_prefix: str = "Worker") -> Dict[str, Any]:
    """Re-run one case (as stored in a disagreement) against the current tree."""
    pause = float(case["variant"].split(":")[2]) if case["variant"].startswith("stream:pause:") else 0.0
    ob = observe(case["spec"], case["mode"], case["variant"], case.get("fault"), case.get("delays"), timeout=60.0 + pause,
                 expect=case.get("expect"))
    h = build_history(ob)
    term = cq_case(ob["plan"], ob["mode"], ob["variant"] != "run", h)
    bad, _ = vlib.run_cases(rep_prefix, "worker_proto_replay", REQ, "chk_proto", [term], case_type="pcase")
    return {"status": ob["status"], "exit": h["exit"], "model_accepts": not bad, "judge": judge(ob, h),
            "diagnosis": _diagnose(rep_prefix, term) if bad else None, "history": [" ".join(str(x) for x in l) for l in h["hist"]]}


def main(argv: List[str]) -> int:
    if len(argv) > 3 and argv[1] == "--case":
        # child of check(): observe one slow special case, write its digests as JSON, then leave without waiting for anything a run
        # that never ended has left behind (its thread, its manager process): cf. lib/main._leave
        logging.disable(logging.CRITICAL)
        try:
            digs = special_case(argv[2])
        except BaseException as e:  # noqa: BLE001
            digs = [{"observe_error": f"special case {argv[2]}: {type(e).__name__}: {str(e)[:200]}",
                     "case": {"kind": "worker_proto", "special": argv[2]}, "mode": "M", "variant": "run", "fault_kind": "none",
                     "infra_retries": 0, "infra_leaked": 0, "special": argv[2]}]
        with open(argv[3] + ".tmp", "w") as f:
            json.dump(digs, f, default=str)
        os.replace(argv[3] + ".tmp", argv[3])
        t = threading.Thread(target=stop_flight_server, daemon=True)
        t.start()
        t.join(10)
        for p in multiprocessing.active_children():
            try:
                p.kill()
            except Exception:  # noqa: BLE001
                pass
        os._exit(0)
    n = int(argv[1]) if len(argv) > 1 and argv[1] != "-" else None
    seed = int(argv[2]) if len(argv) > 2 else 0
    tier = argv[3] if len(argv) > 3 else "quick"
    pr = vlib.build_props("Worker")
    print("Props/Worker.v:", "ok" if pr.ok else "BROKEN", f"{pr.discharged}/{pr.obligations} statements,", sorted(set(pr.assumptions)))
    dis = check("Worker", tier, seed, n_specs=n, focus=(argv[4] if len(argv) > 4 else None))
    stop_flight_server()
    print(json.dumps(LAST_INFO, indent=1, default=str))
    for d in dis[:12]:
        print("DISAGREEMENT", d["stage"], d["what"])
        print("   case:", json.dumps({k: v for k, v in d["case"].items() if k in ("mode", "variant", "fault", "exit", "status", "exc")}))
        print("   history:", "; ".join(d["case"].get("history", []))[:1500])
    return 1 if (dis or not pr.ok) else 0


if __name__ == "__main__":
    sys.exit(main(sys.argv))
