"""C08 — a failure anywhere in a run is reported to the caller, never swallowed.

Theorems: coq/Props/C08.v (for every plan, back end, failure oracle and event trace).
Fault enumeration on the real mloda, by construction of generated universes: for EVERY step of every generated plan as
the failing step x fault kinds {calculation raises, input validation False, output validation False, declared-type
mismatch, transform raises, merge raises, missing api_data key, empty api_data on a session prepared with api data} x modes {SYNC, THREADING, (MULTIPROCESSING sample)}
x {run, stream_run}.  Observed: the API call raises, the exception carries the original message, within a wall-clock
bound, and nothing is returned.  T2: failing SYNC traces are replayed through the model (chk_sync with the failing step
as oracle).
Protocol level (coq/Props/Worker.v over Model/Worker.v): real THREADING / MULTIPROCESSING runs with a fault at every crash point
of the worker / orchestrator message protocol are observed, canonicalised and replayed as traces (harness/worker_proto.py).
"""
from __future__ import annotations

import json
import logging
import random
import time
from typing import Any, Dict, List, Optional, Tuple

from lib import vlib
from lib.vlib import cq_list, cq_nat
from harness import daggen
from harness.universe import (Universe, export_plan, kf_tfs_partial_requirement, kf_framework_roundtrip, kf_tfs_missing)
from harness.orch import GateListener, run_observed, cq_plan, install, REC, uuid_to_sid
from harness.c01 import gen_specs, cq_status
from harness import worker_proto

LEVEL = "proof"
logging.disable(logging.CRITICAL)
REQ = ["MV.Model.Orch", "MV.Model.OrchCheck"]
BOUND_S = 20.0


def api_variant(spec: Dict[str, Any]) -> Dict[str, Any]:
    """Same DAG with the root served through api_data."""
    s = json.loads(json.dumps(spec))
    for g in s["groups"]:
        if g["kind"] == "root":
            g["kind"] = "api"
            g["key"] = "K_" + g["name"]
    return s


def faults_for(plan: Dict[str, Any], spec: Dict[str, Any]) -> List[Dict[str, Any]]:
    out: List[Dict[str, Any]] = []
    derived = {g["name"] for g in spec["groups"] if g["kind"] == "derived"}
    for s in plan["steps"]:
        if s["kind"] == "FG":
            out.append({"kind": "calc", "sid": s["sid"], "group": s["group"], "feature": s["names"][0], "msg": "VERIF-FAULT calc"})
            out.append({"kind": "validate_out", "sid": s["sid"], "group": s["group"], "msg": "False"})
            # a TRANSIENT failure of a calculation wrapped by two pass-through extenders (the composite extender of
            # function_extender.py): it must be reported although a second execution would succeed
            out.append({"kind": "calc_once_ext", "sid": s["sid"], "group": s["group"], "feature": s["names"][0], "msg": "VERIF-FAULT calc"})
            # a TRANSIENT environment failure (ConnectionError / TimeoutError / OSError: raises only the first time that calculation
            # is executed): reported, not retried behind the caller's back (C01: every feature is handed to its calculation once)
            out.append({"kind": "calc_once_env", "sid": s["sid"], "group": s["group"], "feature": s["names"][0], "msg": "VERIF-FAULT calc",
                        "exc": ["ConnectionError", "TimeoutError", "OSError", "BrokenPipeError"][s["sid"] % 4]})
            if s["group"] in derived:
                out.append({"kind": "validate_in", "sid": s["sid"], "group": s["group"], "msg": "False"})
        elif s["kind"] == "TFS":
            out.append({"kind": "transform", "sid": s["sid"], "msg": "VERIF-FAULT transform"})
        elif s["kind"] == "JOIN":
            out.append({"kind": "merge", "sid": s["sid"], "msg": "VERIF-FAULT merge"})
    return out


def run_fault(spec: Dict[str, Any], fault: Dict[str, Any], mode_name: str, stream: bool) -> Dict[str, Any]:
    from mloda.user import ParallelizationMode
    install()
    mode = {"SYNC": {ParallelizationMode.SYNC}, "THREADING": {ParallelizationMode.THREADING},
            "MULTIPROCESSING": {ParallelizationMode.MULTIPROCESSING}}[mode_name]
    uni = Universe(spec, GateListener())
    kw: Dict[str, Any] = {}
    if fault["kind"] == "type":
        spec = json.loads(json.dumps(spec))
    sess = uni.prepare()
    plan = export_plan(sess, uni)
    u2s = uuid_to_sid(sess)
    REC.fail_steps = set()
    if fault["kind"] == "calc":
        uni.fail.add((fault["group"], fault["feature"]))
    elif fault["kind"] == "calc_once_ext":
        uni.fail_once.add((fault["group"], fault["feature"]))
        kw["function_extender"] = _pass_through_extenders(2)
    elif fault["kind"] == "calc_once_env":
        import builtins
        uni.fail_exc = getattr(builtins, fault["exc"])
        uni.fail_once.add((fault["group"], fault["feature"]))
    elif fault["kind"] == "validate_in":
        uni.fail_validate_in.add(fault["group"])
    elif fault["kind"] == "validate_out":
        uni.fail_validate_out.add(fault["group"])
    elif fault["kind"] in ("transform", "merge"):
        REC.fail_steps = {u for u, s in u2s.items() if s == fault["sid"]}
    elif fault["kind"] == "api_missing":
        kw["api_data"] = {"OTHER_KEY": {"zz": [1]}}
    elif fault["kind"] == "api_empty":
        kw["api_data"] = {}      # the session was prepared WITH api data; this run is given none: it must not fall back silently
    if mode_name == "MULTIPROCESSING":
        from harness.orch import flight_server
        kw["flight_server"] = flight_server()
    t0 = time.time()
    o = run_observed(sess, modes=mode, stream=stream, timeout=BOUND_S, **kw)
    REC.fail_steps = set()
    res: Dict[str, Any] = {"status": o["status"], "wall": round(time.time() - t0, 3), "begin": o["begin_order"],
                           "raised": o["raised_steps"], "scans": o["scans"],
                           "plan": {k: v for k, v in plan.items() if k != "_ren"}}
    if o["status"] == "raised":
        txt = str(o["exc"])
        res["carries_message"] = fault["msg"] in txt or (fault["kind"] in ("validate_in", "validate_out") and "False" in txt) \
            or (fault["kind"] == "api_missing" and "not found" in txt) or (fault["kind"] == "api_empty" and "api data" in txt.lower()) or (fault["kind"] == "type" and "DataTypeMismatch" in txt)
        res["exc_tail"] = txt[-160:]
    elif o["status"] == "ok":
        res["n_results"] = len(o["result"]) if o.get("result") is not None else None
    if fault["kind"] in ("calc_once_ext", "calc_once_env"):
        res["executions"] = uni.fail_once_hits.get((fault["group"], fault["feature"]), 0)
    return res


def _mk_pass_classes() -> Any:
    from mloda.steward import Extender, ExtenderHook

    class VerifPassA(Extender):
        """Wraps every hook and only calls through (module-level name: the THREADING back end pickles extenders for its manager)."""
        priority = 10

        def wraps(self) -> Any:
            return {ExtenderHook.FEATURE_GROUP_CALCULATE_FEATURE, ExtenderHook.VALIDATE_INPUT_FEATURE, ExtenderHook.VALIDATE_OUTPUT_FEATURE}

        def __call__(self, func: Any, *a: Any, **kw: Any) -> Any:
            return func(*a, **kw)

    class VerifPassB(VerifPassA):
        priority = 20
    return VerifPassA, VerifPassB


VerifPassA, VerifPassB = _mk_pass_classes()
VerifPassA.__qualname__ = "VerifPassA"
VerifPassB.__qualname__ = "VerifPassB"


def _pass_through_extenders(n: int) -> Any:
    """two extenders of different priority that wrap every hook and only call through"""
    return {VerifPassA(), VerifPassB()}


def run(rep: vlib.Reporter, tier: str, seed: int) -> None:
    rng = random.Random(seed * 1019 + 8)
    install()
    pr = vlib.build_props("C08", extra_targets=["Model/OrchCheck.vo", "Model/OrchMid.vo"])
    rep.proof(pr)
    rep.level = "proof"
    rep.coverage["trusted_base"] += [
        "hand-written model Model/Orch.v: error flag set by the executing worker (sync_execute_step / thread_worker / worker()), "
        "polled at the loop head of compute()/compute_stream(); tied by failing SYNC traces replayed in vm_compute",
        "'bounded time' is a wall-clock watchdog on the implementation (20 s) and 'no further start after the error' in the model; "
        "a hang inside a third-party kernel is out of scope",
        "fault injection: generated calculate_feature/validate_* bodies, harness-side wrappers of TransformFrameworkStep.transform "
        "and JoinStep._merge_data"]
    big = tier == "thorough"
    found = False
    from harness import srctie      # source-text tie (Props/SrcTie.v): thread_worker / CfwManager.set_error regenerated from the source text: a failure sets the error register, never the done register
    found = (not srctie.check(rep)) or found
    # ---- protocol level: histories of real THREADING / MULTIPROCESSING runs must be traces of Model/Worker.v; every disagreement
    # (model / judge / observe) is a violation whose replay object is the case (first, so that its findings are among those printed)
    if worker_proto.report(rep, "C08", tier, seed):
        found = True
    # MULTIPROCESSING: a worker process that fails in the MIDDLE of a pass (after the loop head polled the error register, while the
    # main thread is busy with an earlier step) and has EXITED when the pass reaches its step (harness/c08_mpmid.py; Model/WorkerMid.v,
    # Props/C08mid.v Worker_midpass_failure_message_preserved): raised with the original message, history = a model trace
    from harness import c08_mpmid
    pm = vlib.build_props("C08mid")
    rep.proof(pm)
    if c08_mpmid.family(rep, "C08", tier, seed):
        found = True
    specs, gstats = gen_specs(rng, 120 if big else 16)
    cases: List[Dict[str, Any]] = []
    cf_decisions: List[Any] = []
    mid_recs: List[Dict[str, Any]] = []
    n_mp = 0
    # the planner-defect domains are decided in Coq (Model/PlanDefects.v classify_plan, related to the planner model by
    # PlannerB_defects_sound_partial) on every exported plan, in one batch; the Python predicates are only counted next to them
    from harness import planner_b
    prepared: List[Any] = []
    for spec in specs:
        uni = Universe(spec, GateListener())
        try:
            sess = uni.prepare()
        except Exception:  # noqa: BLE001
            continue
        prepared.append((spec, uni, sess, export_plan(sess, uni)))
    doms = planner_b.classify([x[3] for x in prepared], rep_prefix="C08")
    n_py_only = 0
    for (spec, uni, sess, plan), dom in zip(prepared, doms):
        if dom:
            continue            # runs of these plans already fail for the known planner defects (C01 findings)
        n_py_only += bool(kf_tfs_partial_requirement(plan) or kf_framework_roundtrip(plan) or kf_tfs_missing(plan))
        base = run_observed(sess)
        if base["status"] != "ok":
            continue
        # free-running THREADING only on plans without unordered conflicting steps: on the others the recorded race (C01 / C06
        # finding unordered-conflicting-steps) can make a step fail with a missing column BEFORE the injected fault is reached,
        # and the call then - correctly - reports that failure instead (false alarm of vp check 4)
        from harness import mp_obs
        foot_ = {int(k): (v[0], list(v[1])) for k, v in base["foot"].items()}
        threading_ok = mp_obs.conflict_free_py(plan, foot_)
        cf_decisions.append((plan, foot_, threading_ok))
        if threading_ok:
            mid_recs.append({"spec": spec, "plan": {k: v for k, v in plan.items() if k != "_ren"}})
        flts = faults_for(plan, spec)
        mp_ok: Optional[bool] = None
        if not big:
            allf = flts
            flts = rng.sample(flts, min(len(flts), 6))
            for must in ("calc_once_ext", "calc_once_env"):
                if not any(f_["kind"] == must for f_ in flts):
                    flts.append(rng.choice([f_ for f_ in allf if f_["kind"] == must]))
        for f in flts:
            for mode_name in (("SYNC", "THREADING") if threading_ok else ("SYNC",)):
                for stream in (False, True):
                    if not big and stream and rng.random() < 0.5:
                        continue
                    r = run_fault(spec, f, mode_name, stream)
                    cases.append({"spec": spec, "fault": f, "mode": mode_name, "stream": stream, **r})
            if n_mp < (40 if big else 4) and f["kind"] == "calc":
                # only where the fault-free MULTIPROCESSING run succeeds (mode differences are C06's subject)
                if mp_ok is None:
                    mp_ok = run_fault(spec, {"kind": "none", "sid": -1, "msg": ""}, "MULTIPROCESSING", False)["status"] == "ok"
                if mp_ok:
                    n_mp += 1
                    r = run_fault(spec, f, "MULTIPROCESSING", False)
                    cases.append({"spec": spec, "fault": f, "mode": "MULTIPROCESSING", "stream": False, **r})
        # api_data faults on the api variant of the same DAG
        if all(g.get("cfw") for g in spec["groups"]) and not spec.get("links"):
            aspec = api_variant(spec)
            try:
                for mode_name in (("SYNC", "THREADING") if threading_ok else ("SYNC",)):
                    r = run_fault(aspec, {"kind": "api_missing", "sid": 0, "msg": "not found"}, mode_name, False)
                    cases.append({"spec": aspec, "fault": {"kind": "api_missing"}, "mode": mode_name, "stream": False, **r})
                    for stream in (False, True):
                        r = run_fault(aspec, {"kind": "api_empty", "sid": 0, "msg": "No api data"}, mode_name, stream)
                        cases.append({"spec": aspec, "fault": {"kind": "api_empty"}, "mode": mode_name, "stream": stream, **r})
            except Exception as e:  # noqa: BLE001
                rep.notes.append(f"api variant not runnable: {str(e)[:100]}")
        # declared type mismatch on a requested derived feature
        tspec = json.loads(json.dumps(spec))
        tspec["request"] = [{"name": (r if isinstance(r, str) else r["name"]), "type": "STRING"} for r in tspec["request"][:1]]
        for mode_name in (("SYNC", "THREADING") if threading_ok else ("SYNC",)):
            try:
                r = run_fault(tspec, {"kind": "type", "sid": -1, "msg": "DataTypeMismatch"}, mode_name, False)
                cases.append({"spec": tspec, "fault": {"kind": "type"}, "mode": mode_name, "stream": False, **r})
            except Exception as e:  # noqa: BLE001  (prepare-time rejection is a report too)
                cases.append({"spec": tspec, "fault": {"kind": "type"}, "mode": mode_name, "stream": False,
                              "status": "raised", "carries_message": True, "wall": 0, "begin": [], "raised": [], "plan": None})

    # a calculation that raises in the MIDDLE of a pass of the loop (deterministic schedule; harness/c01_midpass.py, Model/OrchMid.v):
    # raised, with the original message, nothing that waits for the failed step begins
    from harness import c01_midpass
    f_mid, _ = c01_midpass.family(rep, "C08", mid_recs, list(range(len(mid_recs))), random.Random(seed * 37 + 5), 30 if big else 6)
    found |= f_mid
    dist: Dict[str, Any] = {"specs": len(specs), "cases": len(cases), "by_kind": {}, "by_mode": {}, "max_wall": 0.0,
                            "raised_with_message": 0, "plans_with_threading_cases": sum(1 for d in cf_decisions if d[2]),
                            "plans_sync_only_unordered_conflicts": sum(1 for d in cf_decisions if not d[2]),
                            "plans_in_coq_defect_domains": sum(1 for d in doms if d),
                            "plans_exercised_that_the_python_predicates_would_have_skipped": n_py_only}
    # the online decisions of the python mirror of conflict_free, re-validated by the Coq definition
    if cf_decisions:
        from harness.c01 import cq_foot, EXTRA as C01_EXTRA
        dterms = [f"(({cq_plan(pl)}, {cq_foot(ft)}), {'true' if ok_ else 'false'})" for pl, ft, ok_ in cf_decisions]
        for i in vlib.run_cases("C08", "cf_mirror", REQ, "chk_mirror", dterms, case_type="(plan * foot) * bool",
                                extra_defs=C01_EXTRA + "\nDefinition chk_mirror (c : (plan * foot) * bool) := Bool.eqb (conflict_free (fst (fst c)) (snd (fst c))) (snd c).\n")[0][:3]:
            rep.finding(f"cf-mirror:{dterms[i][:160]}", "harness/mp_obs.conflict_free_py disagrees with Model/OrchCheck.conflict_free", {"term": dterms[i]}, found_input=False)
            found = True
    sync_terms, sync_idx = [], []
    for i, c in enumerate(cases):
        k = c["fault"]["kind"]
        dist["by_kind"][k] = dist["by_kind"].get(k, 0) + 1
        dist["by_mode"][c["mode"] + ("/stream" if c["stream"] else "")] = dist["by_mode"].get(c["mode"] + ("/stream" if c["stream"] else ""), 0) + 1
        dist["max_wall"] = max(dist["max_wall"], c.get("wall", 0))
        key = json.dumps([c["spec"], c["fault"], c["mode"], c["stream"]], sort_keys=True)
        rep.nontrivial(("f", c["fault"], c["mode"], c["stream"], c["spec"]["request"], len(c["spec"]["groups"])))
        if c["status"] == "hang":
            rep.finding(f"hang:{key}", f"fault {c['fault']} in {c['mode']}: the API call did not return within {BOUND_S}s", c)
            found = True
        elif c["status"] == "ok":
            rep.finding(f"swallowed:{key}", f"fault {c['fault']} in {c['mode']} stream={c['stream']}: the call returned "
                                            f"{c.get('n_results')} result(s) as if it had succeeded", c)
            found = True
        elif not c.get("carries_message"):
            rep.finding(f"message:{key}", f"fault {c['fault']} in {c['mode']}: raised without the original message: {c.get('exc_tail')}", c)
            found = True
        else:
            dist["raised_with_message"] += 1
        # several STEPS may calculate a feature of that name (a typed requested copy next to the untyped dependency): each step
        # hands it to its calculation once
        allowed = sum(1 for s_ in ((c.get("plan") or {}).get("steps") or []) if s_["kind"] == "FG" and s_.get("group") == c["fault"].get("group")
                      and c["fault"].get("feature") in (s_.get("names") or [])) or 1
        if c.get("executions", 1) > allowed and c["mode"] != "MULTIPROCESSING":
            rep.finding(f"reexecuted:{key}", f"fault {c['fault']} in {c['mode']}: the failing calculation was executed {c['executions']} times in one "
                                             f"run by {allowed} step(s) (a failure is reported, not retried behind the caller's back)", c)
            found = True
        if c["mode"] == "SYNC" and not c["stream"] and c["plan"] is not None and c["fault"]["kind"] not in ("api_missing", "api_empty"):
            sync_idx.append(i)
            sync_terms.append(f"({cq_plan(c['plan'])}, ({cq_list(cq_nat(x) for x in c['begin'])}, {cq_nat(min(c['scans'], 4000))}, "
                              f"{cq_status(c['status'])}, {cq_list(cq_nat(x) for x in c['raised'])}))")
    bad, info = vlib.run_cases("C08", "sync", REQ, "chk_sync", sync_terms,
                               case_type="plan * (list nat * nat * ostatus * list nat)", shard=60) if sync_terms else ([], {})
    for k in bad[:5]:
        c = cases[sync_idx[k]]
        rep.finding(f"model:{json.dumps([c['spec'], c['fault']], sort_keys=True)}",
                    f"failing SYNC run (begin {c['begin']}, raised steps {c['raised']}, status {c['status']}) is not the model's run", c)
        found = True
    rep.count(len(cases))
    rep.add("distribution", dist)
    rep.add("sync_model", {**info, "cases": len(sync_terms), "disagreements": len(bad)})
    rep.add("traces_validated_against_impl", len(sync_terms))
    rep.add("rule", "request DAGs as in C01 restricted to plans outside the known planner-defect domains whose fault-free SYNC run "
                    "succeeds; every step x applicable fault kind (quick: 6 sampled faults per plan) x {SYNC, THREADING} x "
                    "{run, stream_run}, a few MULTIPROCESSING runs, api_data-missing and declared-type faults. Each case is distinct "
                    "by (plan, fault, mode, entry point)")
    rep.sample({k: cases[0][k] for k in ("fault", "mode", "stream", "status", "wall", "begin", "raised")} if cases else {})
    if not pr.ok and not found:
        rep.finding("proof-broken", "Props/C08.v no longer checks",
                    {"failed_files": pr.failed_files, "forbidden": pr.forbidden, "log_tail": pr.log[-3000:]}, found_input=False)
    if not pm.ok and not found:
        rep.finding("proof-broken-mid", "Props/C08mid.v no longer checks",
                    {"failed_files": pm.failed_files, "forbidden": pm.forbidden, "log_tail": pm.log[-3000:]}, found_input=False)


def replay(path: str) -> int:
    r = json.load(open(path))["replay"]
    if r.get("kind") == "srctie":
        from harness import srctie
        srctie.replay(r, show=True)
        return 0
    if r.get("kind") == "worker_proto":
        return worker_proto.replay_main(r, "C08")
    if r.get("kind") == "mp_midpass":
        from harness import c08_mpmid
        return c08_mpmid.replay(r)
    if r.get("kind") == "midpass":
        from harness import c01_midpass
        install()
        return c01_midpass.replay(r)
    res = run_fault(r["spec"], r["fault"], r["mode"], r["stream"])
    print(json.dumps({k: v for k, v in res.items() if k != "plan"}, indent=1, default=str))
    return 0
