"""Subprocess helper for C04: prepare every spec of a JSON file under the current PYTHONHASHSEED and print canonical plans."""
import json
import logging
import sys

logging.disable(logging.CRITICAL)
sys.path.insert(0, sys.argv[2])
from harness.universe import Universe, export_plan, canon_plan  # noqa: E402
from harness.orch import GateListener  # noqa: E402


def outcome(spec):
    try:
        uni = Universe(spec, GateListener())
        sess = uni.prepare()
        return {"accepted": True, "canon": canon_plan(export_plan(sess, uni))}
    except Exception as e:  # noqa: BLE001
        import re
        msg = re.sub(r"[0-9a-f]{8}-[0-9a-f-]{27}", "<uuid>", str(e))
        msg = re.sub(r"U\d+_", "", msg)
        return {"accepted": False, "exc": type(e).__name__, "msg": msg[:160]}


specs = json.load(open(sys.argv[1]))
print(json.dumps([outcome(s) for s in specs]))
