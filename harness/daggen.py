"""PRNG generators of universe specs (see harness/universe.py)."""
from __future__ import annotations

import random
from typing import Any, Dict, List, Optional

CFWS = ["PyArrowTable", "PandasDataFrame", "PythonDictFramework"]


def gen_single_root(rng: random.Random, max_groups: int = 4, multi_cfw: bool = True, n_rows: int = 3) -> Dict[str, Any]:
    """One root group, derived groups computing integer functions; frameworks may change between groups.

    Merge-free by construction (Stage A): data objects form a tree (root object; a group computing in another framework
    than its source object gets a converted copy of it); every feature takes all its inputs from columns visible on ONE
    object, so no Link is ever needed and every such request must be plannable and runnable."""
    root_cfw = rng.choice(CFWS if multi_cfw else ["PyArrowTable"])
    cols = {c: [rng.randrange(-5, 20) for _ in range(n_rows)] for c in ["a", "b", "c"][: rng.randrange(1, 4)]}
    groups: List[Dict[str, Any]] = [{"name": "R0", "kind": "root", "cfw": root_cfw, "cols": cols}]
    # objects form a tree; home = features computed in place on the object (root columns for the root object).
    # A group computing on object T may use home(T) and home(parent(T)) (one transform copies the parent's columns);
    # anything further away would need a second transform into a different object, i.e. a merge (outside Stage A).
    objs: List[Dict[str, Any]] = [{"cfw": root_cfw, "home": list(cols), "parent": None, "children": {}}]
    n_groups = rng.randrange(1, max_groups + 1)
    fid = 0
    derived: List[str] = []
    for gi in range(1, n_groups + 1):
        src = rng.randrange(len(objs))
        cfw = rng.choice(CFWS) if (multi_cfw and rng.random() < 0.45) else objs[src]["cfw"]
        if cfw == objs[src]["cfw"]:
            tgt = src
        elif cfw in objs[src]["children"]:
            tgt = objs[src]["children"][cfw]
        else:
            objs.append({"cfw": cfw, "home": [], "parent": src, "children": {}})
            tgt = len(objs) - 1
            objs[src]["children"][cfw] = tgt
        visible = list(objs[tgt]["home"])
        par = objs[tgt]["parent"]
        if par is not None:
            visible += [c for c in objs[par]["home"] if c not in visible]
        feats: Dict[str, Any] = {}
        for _ in range(rng.randrange(1, 4)):
            fid += 1
            name = f"f{fid}"
            pool = visible + list(feats)                  # same-group earlier features -> intra-group levels
            k = rng.randrange(1, min(3, len(pool)) + 1)
            ins = rng.sample(pool, k)
            feats[name] = {"inputs": ins, "c0": rng.randrange(-3, 4), "coefs": [rng.choice([1, 1, 2, -1, 3]) for _ in ins]}
        groups.append({"name": f"D{gi}", "kind": "derived", "cfw": cfw, "features": feats})
        objs[tgt]["home"] += list(feats)
        derived += list(feats)
    req = rng.sample(derived, rng.randrange(1, min(3, len(derived)) + 1))
    if rng.random() < 0.3:
        req.append(rng.choice(list(cols)))
    # inplace: derived calculations extend the incoming pandas frame / python-dict rows in place (as mloda's built-in feature
    # groups do) instead of returning a fresh table
    return {"groups": groups, "request": req, "inplace": rng.random() < 0.4}


def gen_ladder(rng: random.Random, n_rows: int = 3) -> Dict[str, Any]:
    """DEEP dependency levels inside ONE feature group: a chain of 4-7 rungs f1(a), f2(f1), ... in group D1 - straight, or
    zig-zag through a second group D2 computing on the same object (D1.f1 -> D2.g1 -> D1.f2 -> ...), optionally with a second
    feature per rung - so that the planner's split of one group into dependency levels has more than three levels.
    Merge-free: everything lives on the root's object (one framework)."""
    cfw = rng.choice(CFWS)
    cols = {c: [rng.randrange(-5, 20) for _ in range(n_rows)] for c in ["a", "b"][: rng.randrange(1, 3)]}
    depth = rng.randrange(4, 8)
    zig = rng.random() < 0.4
    d1: Dict[str, Any] = {}
    d2: Dict[str, Any] = {}
    prev = rng.choice(list(cols))
    names: List[str] = []
    for k in range(1, depth + 1):
        tgt, nm = (d2, f"g{k}") if (zig and k % 2 == 0) else (d1, f"f{k}")
        ins = [prev] + ([rng.choice(list(cols))] if rng.random() < 0.3 else [])
        tgt[nm] = {"inputs": ins, "c0": rng.randrange(-3, 4), "coefs": [rng.choice([1, 1, 2, -1, 3]) for _ in ins]}
        names.append(nm)
        if rng.random() < 0.3:                          # a second feature on the same rung
            tgt[nm + "x"] = {"inputs": [prev], "c0": rng.randrange(-3, 4), "coefs": [rng.choice([1, 2, -1])]}
            names.append(nm + "x")
        prev = nm
    groups: List[Dict[str, Any]] = [{"name": "R0", "kind": "root", "cfw": cfw, "cols": cols},
                                    {"name": "D1", "kind": "derived", "cfw": cfw, "features": d1}]
    if d2:
        groups.append({"name": "D2", "kind": "derived", "cfw": cfw, "features": d2})
    req = [prev] + rng.sample([n for n in names if n != prev], rng.randrange(0, 3))
    return {"groups": groups, "request": req, "inplace": rng.random() < 0.4, "family": "ladder"}


def gen_two_roots_inner(rng: random.Random) -> Dict[str, Any]:
    """Two root groups joined by an inner link on k, one consumer group over both (+ optional further level)."""
    cf = [rng.choice(CFWS[:2]), rng.choice(CFWS[:2])]
    n = 3
    groups: List[Dict[str, Any]] = [
        {"name": "R0", "kind": "root", "cfw": cf[0], "cols": {"a": [rng.randrange(0, 9) for _ in range(n)], "k": [1, 2, 3]}},
        {"name": "R1", "kind": "root", "cfw": cf[1], "cols": {"b": [rng.randrange(0, 9) for _ in range(n)], "k": [1, 2, 3]}},
    ]
    ccfw = rng.choice(cf)
    feats = {"f1": {"inputs": ["a", "b"], "c0": 0, "coefs": [1, rng.choice([1, 2])]}}
    if rng.random() < 0.5:
        feats["f2"] = {"inputs": ["f1"], "c0": 1, "coefs": [1]}
    if cf[0] == cf[1] and rng.random() < 0.5:
        # one feature-group step MIXING a feature over both sides with one over the right side only, and a further group built on
        # the joined feature (one framework): after the join everything runs on the left root's object, whose bookkeeping of
        # already calculated children then also sees features that are not among its own children
        feats = {"f1": {"inputs": ["a", "b"], "c0": 0, "coefs": [1, rng.choice([1, 2])]},
                 "f3": {"inputs": ["b"], "c0": rng.randrange(0, 3), "coefs": [rng.choice([1, 3])]}}
        groups.append({"name": "D1", "kind": "derived", "cfw": cf[0], "features": feats})
        groups.append({"name": "D2", "kind": "derived", "cfw": cf[0],
                       "features": {"f4": {"inputs": ["f1"], "c0": 1, "coefs": [2]}}})
        return {"groups": groups, "request": ["f4", "f3"] if rng.random() < 0.7 else ["f4"], "family": "join_mixed_step",
                "links": [{"jt": "INNER", "l": "R0", "r": "R1", "li": ["k"], "ri": ["k"]}]}
    groups.append({"name": "D1", "kind": "derived", "cfw": ccfw, "features": feats})
    return {"groups": groups, "request": [rng.choice(list(feats))],
            "links": [{"jt": "INNER", "l": "R0", "r": "R1", "li": ["k"], "ri": ["k"]}]}


def gen_linked_roots(rng: random.Random, max_roots: int = 4, jts=("INNER", "LEFT", "OUTER", "RIGHT", "APPEND", "UNION"),
                     same_key_prob: float = 0.6) -> Dict[str, Any]:
    """2..max_roots root groups, a tree-shaped link set (chain or star, random orientation and join type), frameworks per
    root, one consumer group over one column of every root (optionally a second level)."""
    n = rng.randrange(2, max_roots + 1)
    cfws = [rng.choice(CFWS) for _ in range(n)]
    groups: List[Dict[str, Any]] = []
    rows = rng.randrange(2, 4)
    for i in range(n):
        key = "k" if rng.random() < same_key_prob else f"k{i}"
        groups.append({"name": f"R{i}", "kind": "root", "cfw": cfws[i],
                       "cols": {f"v{i}": [rng.randrange(0, 9) for _ in range(rows)], key: list(range(1, rows + 1))},
                       "key": key})
    links = []
    star = rng.random() < 0.5
    for i in range(1, n):
        a = 0 if star else i - 1
        l, r = (a, i) if rng.random() < 0.7 else (i, a)
        links.append({"jt": rng.choice(jts), "l": f"R{l}", "r": f"R{r}", "li": [groups[l]["key"]], "ri": [groups[r]["key"]]})
    ccfw = rng.choice(cfws)
    feats = {"f1": {"inputs": [f"v{i}" for i in range(n)], "c0": 0, "coefs": [1] * n}}
    if rng.random() < 0.4:
        feats["f2"] = {"inputs": ["f1"], "c0": 1, "coefs": [2]}
    groups.append({"name": "D1", "kind": "derived", "cfw": ccfw, "features": feats})
    for g in groups:
        g.pop("key", None)
    return {"groups": groups, "request": [rng.choice(list(feats))], "links": links}


def gen_typed_mix(rng: random.Random) -> Dict[str, Any]:
    """Single-framework request in which ONE feature group must produce features with two different declared types plus
    untyped ones (the grouping of untyped features into typed groups is exercised)."""
    cfw = rng.choice(CFWS[:2])
    cols = {c: [rng.randrange(0, 20) for _ in range(3)] for c in ["a", "b", "c", "d"][: rng.randrange(3, 5)]}
    groups: List[Dict[str, Any]] = [{"name": "R0", "kind": "root", "cfw": cfw, "cols": cols}]
    feats: Dict[str, Any] = {}
    names = list(cols)
    for i in range(rng.randrange(2, 5)):
        ins = rng.sample(names, rng.randrange(1, 3))
        feats[f"f{i + 1}"] = {"inputs": ins, "c0": rng.randrange(0, 3), "coefs": [1] * len(ins)}
    groups.append({"name": "D1", "kind": "derived", "cfw": cfw, "features": feats})
    types = ["INT64", "DOUBLE", "INT32", None, None]
    req: List[Any] = []
    pool = (list(cols) if rng.random() < 0.5 else []) + list(feats)
    rng.shuffle(pool)
    for n in pool[: rng.randrange(2, min(5, len(pool)) + 1)]:
        t = rng.choice(types)
        req.append({"name": n, "type": t} if t else n)
    return {"groups": groups, "request": req}


def framework_pattern_specs(n: int, star: bool, jt: str = "INNER") -> List[Dict[str, Any]]:
    """Every assignment of the three frameworks to n linked sources (chain or star, links on k), consumer on the first
    source's framework: a systematic sweep of framework patterns (cycles of framework pairs included)."""
    import itertools
    out = []
    for cf in itertools.product(CFWS, repeat=n):
        groups: List[Dict[str, Any]] = [{"name": f"R{i}", "kind": "root", "cfw": cf[i], "cols": {f"v{i}": [i + 1, i + 2], "k": [1, 2]}}
                                        for i in range(n)]
        links = [{"jt": jt, "l": f"R{0 if star else i - 1}", "r": f"R{i}", "li": ["k"], "ri": ["k"]} for i in range(1, n)]
        groups.append({"name": "D1", "kind": "derived", "cfw": cf[0],
                       "features": {"f1": {"inputs": [f"v{i}" for i in range(n)], "c0": 0, "coefs": [1] * n}}})
        out.append({"groups": groups, "request": ["f1"], "links": links})
    return out


def gen_siblings(rng: random.Random, delay_ms: int = 25) -> Dict[str, Any]:
    """One root and 2-3 sibling derived groups on the SAME framework, each depending only on root columns, all requested;
    calculations take a few milliseconds (collection of one result overlaps the computation of the next)."""
    cfw = rng.choice(CFWS[:2])
    cols = {c: [rng.randrange(0, 20) for _ in range(3)] for c in ["a", "b"]}
    groups: List[Dict[str, Any]] = [{"name": "R0", "kind": "root", "cfw": cfw, "cols": cols}]
    req = []
    for i in range(rng.randrange(2, 4)):
        groups.append({"name": f"S{i}", "kind": "derived", "cfw": cfw,
                       "features": {f"s{i}": {"inputs": [rng.choice(["a", "b"])], "c0": i, "coefs": [rng.choice([1, 2])]}}})
        req.append(f"s{i}")
    return {"groups": groups, "request": req, "delay_ms": delay_ms}


def gen_inplace_siblings(rng: random.Random, all_inplace: bool = True) -> Dict[str, Any]:
    """One root on Pandas / PythonDict, 2-3 SIBLING derived groups on the same framework (hence on the root's object), each
    computing one column from root columns and not ordered among each other, and a consumer group over ALL of them.
    Result styles are mixed per group: "inplace" (mutate the frame / the row dicts handed over) and, on Pandas, "series"
    (return a pd.Series; PandasDataFrame.transform inserts it).  all_inplace=False: one sibling is "copy" (replacing) - the
    recorded read-modify-write hazard.  Pandas families with >= 2 siblings get at least one "series" and one "inplace" group."""
    cfw = "PandasDataFrame" if rng.random() < 0.7 else "PythonDictFramework"
    cols = {c: [rng.randrange(0, 20) for _ in range(3)] for c in ["a", "b"]}
    groups: List[Dict[str, Any]] = [{"name": "R0", "kind": "root", "cfw": cfw, "cols": cols}]
    k = rng.randrange(2, 4)
    if cfw == "PandasDataFrame":
        styles = ["series", "inplace"] + [rng.choice(["series", "inplace"]) for _ in range(k - 2)]
        rng.shuffle(styles)
    else:
        styles = ["inplace"] * k
    if not all_inplace:
        styles[rng.randrange(k)] = "copy"
    sib = []
    for i in range(k):
        groups.append({"name": f"S{i}", "kind": "derived", "cfw": cfw, "style": styles[i],
                       "features": {f"s{i}": {"inputs": [rng.choice(["a", "b"])], "c0": i, "coefs": [rng.choice([1, 2, 3])]}}})
        sib.append(f"s{i}")
    groups.append({"name": "C", "kind": "derived", "cfw": cfw, "style": rng.choice(["copy", "inplace"]),
                   "features": {"c": {"inputs": list(sib), "c0": 0, "coefs": [1] * k}}})
    req = ["c"] + rng.sample(sib, rng.randrange(0, k))
    return {"groups": groups, "request": req, "family": "inplace_siblings"}


def gen_partial_request(rng: random.Random) -> Dict[str, Any]:
    """A requested feature is produced by a step that is NOT the last user of its data: the request names a root column
    (or the right value column of a link) AND a feature computed elsewhere (another framework / after a join) from columns
    that are NOT requested.  In MULTIPROCESSING the root's table travels to the other worker through the Flight store under
    the same key that also transports the requested result columns.  PyArrow sources (outside the recorded
    C06-mp-transform-from-non-arrow-source domain)."""
    n = 3
    if rng.random() < 0.6:
        cols = {c: [rng.randrange(0, 20) for _ in range(n)] for c in ["a", "b", "c"][: rng.randrange(2, 4)]}
        names = list(cols)
        asked = rng.choice(names)
        others = [c for c in names if c != asked]
        ins = rng.sample(others, rng.randrange(1, len(others) + 1)) + ([asked] if rng.random() < 0.3 else [])
        groups: List[Dict[str, Any]] = [
            {"name": "R0", "kind": "root", "cfw": "PyArrowTable", "cols": cols},
            {"name": "D1", "kind": "derived", "cfw": rng.choice(["PandasDataFrame", "PythonDictFramework"]),
             "features": {"f1": {"inputs": ins, "c0": 1, "coefs": [rng.choice([1, 2]) for _ in ins]}}}]
        return {"groups": groups, "request": rng.sample([asked, "f1"], 2)}
    groups = [
        {"name": "R0", "kind": "root", "cfw": "PyArrowTable", "cols": {"a": [rng.randrange(0, 9) for _ in range(n)], "k": [1, 2, 3]}},
        {"name": "R1", "kind": "root", "cfw": "PyArrowTable", "cols": {"b": [rng.randrange(0, 9) for _ in range(n)], "k": [1, 2, 3]}},
        {"name": "D1", "kind": "derived", "cfw": "PyArrowTable", "features": {"f1": {"inputs": ["a", "b"], "c0": 0, "coefs": [1, 2]}}}]
    return {"groups": groups, "request": rng.sample(["f1", rng.choice(["a", "b"])], 2),
            "links": [{"jt": "INNER", "l": "R0", "r": "R1", "li": ["k"], "ri": ["k"]}]}


def gen_shared_upload(rng: random.Random) -> Dict[str, Any]:
    """ONE uploaded table with several readers in other worker processes, one of them late: a PyArrow source RA is (a) the input of
    1-2 consumers on other frameworks (transform steps download its table) and (b) the RIGHT side of an inner join with a SLOW
    source RL (the join step downloads RA's table only after RL has finished, long after the transform steps ran).  Whoever
    releases RA's dataset when the first reader is done takes it away from the late one."""
    n = 3
    groups: List[Dict[str, Any]] = [
        {"name": "RA", "kind": "root", "cfw": "PyArrowTable", "cols": {"a": [rng.randrange(0, 9) for _ in range(n)], "k": [1, 2, 3]}},
        {"name": "RL", "kind": "root", "cfw": "PyArrowTable", "cols": {"l": [rng.randrange(0, 9) for _ in range(n)], "k": [1, 2, 3]},
         "delay_ms": rng.choice([600, 1200])},
        {"name": "J", "kind": "derived", "cfw": "PyArrowTable", "features": {"j": {"inputs": ["l", "a"], "c0": 0, "coefs": [1, 10]}}}]
    req = ["j"]
    for i, cf in enumerate(rng.sample(["PandasDataFrame", "PythonDictFramework"], rng.randrange(1, 3))):
        groups.append({"name": f"B{i}", "kind": "derived", "cfw": cf, "features": {f"b{i}": {"inputs": ["a"], "c0": i, "coefs": [2]}}})
        req.insert(i, f"b{i}")
    # request order [b.., j]: with j first the transform steps are planned behind the join and read the object the join
    # redirected them to (SYNC raises on the unchanged tree - C01's round-trip / wrong-object domain)
    return {"groups": groups, "request": req, "links": [{"jt": "INNER", "l": "RL", "r": "RA", "li": ["k"], "ri": ["k"]}], "family": "shared_upload"}


def gen_partial_reader(rng: random.Random) -> Dict[str, Any]:
    """A root with two columns; a requested feature on the root's framework reads one of them, a feature on ANOTHER framework
    reads the other one.  Whether the root step is marked for upload must not depend on which of its features the planner
    happens to look at (regression input of fix 3a3ea33: the transform step found an empty Flight store in MULTIPROCESSING)."""
    n = 3
    other = rng.choice(["PandasDataFrame", "PythonDictFramework"])
    groups: List[Dict[str, Any]] = [
        {"name": "R0", "kind": "root", "cfw": "PyArrowTable", "cols": {"a": [rng.randrange(0, 9) for _ in range(n)], "b": [rng.randrange(0, 9) for _ in range(n)]}},
        # S0 is slow: a root table that reaches the store only through S0's upload arrives after the transform step looked for it
        {"name": "S0", "kind": "derived", "cfw": "PyArrowTable", "features": {"s0": {"inputs": ["a"], "c0": 0, "coefs": [1]}}, "delay_ms": 400},
        {"name": "T", "kind": "derived", "cfw": other, "features": {"t": {"inputs": ["b"], "c0": 2, "coefs": [1]}}}]
    # request order [s0, t]: the root's feature set then starts with the column its own framework reads
    return {"groups": groups, "request": ["s0", "t"] if rng.random() < 0.8 else ["t", "s0"], "mp_runs": 3}


def gen_option_groups(rng: random.Random) -> Dict[str, Any]:
    """A root whose data depends on a group option (two option values), consumer groups on the same or another framework,
    each requested for ONE option value: the producer is computed once per option group."""
    rcfw = rng.choice(CFWS[:2])
    vals = ["train", "test"]
    n = rng.randrange(2, 4)
    by_opt = {v: {"a": [rng.randrange(0, 50) for _ in range(n)], "b": [rng.randrange(0, 50) for _ in range(n)]} for v in vals}
    groups: List[Dict[str, Any]] = [{"name": "R0", "kind": "root", "cfw": rcfw, "cols": by_opt["train"], "cols_by_opt": by_opt,
                                     "opt_key": "split"}]
    req = []
    k = rng.randrange(2, 4)
    for i in range(k):
        ccfw = rng.choice(CFWS[:2])
        ins = rng.sample(["a", "b"], rng.randrange(1, 3))
        groups.append({"name": f"C{i}", "kind": "derived", "cfw": ccfw,
                       "features": {f"c{i}": {"inputs": ins, "c0": i, "coefs": [rng.choice([1, 2]) for _ in ins]}}})
        req.append({"name": f"c{i}", "opt": {"split": vals[i % 2]}})
    return {"groups": groups, "request": req}


def gen_two_uploads(rng: random.Random, x: Optional[str] = None, y: Optional[str] = None, shape: Optional[str] = None,
                    slow: Optional[int] = None) -> Dict[str, Any]:
    """ONE compute-framework object that has to PUBLISH ITS TABLE TWICE (MULTIPROCESSING: two uploads under one Flight key, a reader in
    another worker process behind each of them): a root R on framework X is the right side of join 1 (left: the root L1 on framework
    Y), and the group D derived from R on framework X - hence computed on R's object - is read by another worker as well:
      shape "join": D is the right side of join 2 (left: the root L2 on Y; index column k of R's table),
      shape "tfs":  D is the input of a consumer on a framework Y != X (a transform step downloads the table of R's object).
    Consumers M = f(l1, r) and T = g(l2, d) resp. g(d) on Y are requested.  The second reader needs the column d, which exists only in
    the table uploaded AFTER D's calculation (Model/MpStore.v: the store is never staler than the last finished uploading step).
    `slow` (ms) delays L2 / T's source so that the second reader starts well after D's step ended."""
    x = x or rng.choice(CFWS)
    y = y or rng.choice(CFWS)
    shape = shape or ("tfs" if (x != y and rng.random() < 0.4) else "join")
    if shape == "tfs" and x == y:
        y = rng.choice([c for c in CFWS if c != x])
    n = 3
    keys = [1, 2, 3]
    slow = rng.choice([0, 150]) if slow is None else slow
    groups: List[Dict[str, Any]] = [
        {"name": "L1", "kind": "root", "cfw": y, "cols": {"l1": [rng.randrange(0, 9) for _ in range(n)], "k": keys}},
        {"name": "R", "kind": "root", "cfw": x, "cols": {"r": [rng.randrange(0, 9) for _ in range(n)], "k": keys}},
        {"name": "D", "kind": "derived", "cfw": x, "features": {"d": {"inputs": ["r"], "c0": rng.randrange(0, 4), "coefs": [rng.choice([2, 3, 7])]}}},
        {"name": "M", "kind": "derived", "cfw": y, "features": {"m": {"inputs": ["l1", "r"], "c0": 0, "coefs": [10, 1]}}}]
    links = [{"jt": "INNER", "l": "L1", "r": "R", "li": ["k"], "ri": ["k"]}]
    if shape == "join":
        l2: Dict[str, Any] = {"name": "L2", "kind": "root", "cfw": y, "cols": {"l2": [rng.randrange(0, 9) for _ in range(n)], "k": keys}}
        if slow:
            l2["delay_ms"] = slow
        groups.append(l2)
        groups.append({"name": "T", "kind": "derived", "cfw": y, "features": {"t": {"inputs": ["l2", "d"], "c0": 0, "coefs": [1000, 1]}}})
        links.append({"jt": "INNER", "l": "L2", "r": "D", "li": ["k"], "ri": ["k"]})
    else:
        t: Dict[str, Any] = {"name": "T", "kind": "derived", "cfw": y, "features": {"t": {"inputs": ["d"], "c0": 1, "coefs": [5]}}}
        groups.append(t)
    return {"groups": groups, "request": ["m", "t"], "links": links, "family": "two_uploads", "shape": shape, "x": x, "y": y}
