"""C11 — global filters keep exactly the rows that satisfy them, on every framework.

Spec: coq/Spec/Filter.v, models: coq/Model/{FilterPyDict,FilterArrow,TimeFilter}.v, theorems: coq/Props/C11.v.
The path from GlobalFilter.add_filter to the column an engine reads (renamed filter features: sub-columns of multi-column
features, groups overriding set_feature_name, one filter matched by two groups, filter features with domains): harness/c11_path.py,
coq/{Spec,Model}/FilterPath.v, coq/Props/C11path.v.
T2 (correspondence, every comparison evaluated by vm_compute over the definitions the theorems are about):
  dispatch : BaseFilterEngine.do_filter, every FilterType member + custom strings -> do_* method   (exhaustive)
  engine   : <Engine>.apply_filters(data, FeatureSet) on generated tables / feature sets / <= 3 filters
               PythonDict engine           vs the MODEL  (also ill-typed and malformed parameters, rows lacking the key)
               PyArrow, Pandas engines     vs the SPEC   (well-typed domain; malformed parameters vs the model's error)
  multi    : mloda.prepare + run_all with 2-3 requested features of the same / of different groups whose options differ
             (8 schemes x 5 framework modes every run), 1-2 global filters: rows judged by a Python predicate and by the SPEC,
             every exported plan step by Spec/FilterPlan.glue_okb (planner glue)
  e2e      : mloda.run_all with a GlobalFilter on generated root groups (with / without the filter column), a derived
             group on top, on PyArrowTable / PandasDataFrame / PythonDictFramework                     vs the SPEC
  time     : GlobalFilter._check_and_convert_time_info on aware datetimes in 14 zones (+ fixed offsets, naive, overflow)
             vs Model/TimeFilter.convert; add_time_and_time_travel_filters end to end vs SPEC and a Python instant oracle
Known-finding domains (narrow, each accepts "defect present" or "fixed = spec"): see known_findings.json, keys C11-*.
"""
from __future__ import annotations

import json
import logging
import math
import random
from datetime import datetime, timedelta, timezone
from fractions import Fraction
from typing import Any, Dict, List, Optional, Sequence, Tuple

from lib import vlib
from lib.vlib import cq_list, cq_str, cq_z, cq_bool

LEVEL = "proof"
logging.disable(logging.CRITICAL)
REQ = ["MV.Spec.Filter", "MV.Spec.FilterPlan", "MV.Spec.FilterPath", "MV.Model.FilterPyDict", "MV.Model.FilterArrow", "MV.Model.TimeFilter",
       "MV.Model.FilterPath"]

EXTRA = r"""
Open Scope Z_scope.
Inductive oerr := OE (e : err) | OKey | OEmpty | OArrowType | ODomain | OOther.
Inductive obs := OOk (ids : list Z) | OErr (e : oerr).
Definition id_of (r : row) : Z := match get r "id" with VInt z => z | _ => (-1) end.
Definition ids_of (t : table) : list Z := map id_of t.
Fixpoint zs_eqb (a b : list Z) : bool :=
  match a, b with [], [] => true | x :: a', y :: b' => Z.eqb x y && zs_eqb a' b' | _, _ => false end.
Definition ecase := ((list string * list filt * table) * obs)%type.

(* implementation = model (PythonDict engine; parameter validation of the other engines) *)
Definition chk_model (c : ecase) : bool :=
  match c with
  | ((names, fs, t), o) =>
      match apply_single_filters names (Some fs) t, o with
      | Ok t', OOk ids => zs_eqb (ids_of t') ids
      | Err e, OErr (OE e') => err_eqb e e'
      | _, _ => false
      end
  end.
Definition all_fine (names : list string) (fs : list filt) (t : table) : bool :=
  forallb (fun f => negb (applicable names f) || fineb f t) fs.
(* implementation = spec, on the domain of the theorems *)
Definition chk_spec (c : ecase) : bool :=
  match c with
  | ((names, fs, t), OOk ids) => all_fine names fs t && zs_eqb (ids_of (expected names fs t)) ids
  | _ => false
  end.
(* known-finding domains *)
Definition wellformed (f : filt) : bool := match denote f with Some _ => true | None => false end.
Definition has_null_member (f : filt) : bool :=
  match f_type f, p_values (f_par f) with FIn, Some vs => existsb is_null vs | _, _ => false end.
Definition strip_null (f : filt) : filt :=
  match f_type f, p_values (f_par f) with
  | FIn, Some vs => {| f_col := f_col f; f_type := FIn;
                       f_par := {| p_value := p_value (f_par f); p_values := Some (filter (fun v => negb (is_null v)) vs);
                                   p_min := p_min (f_par f); p_max := p_max (f_par f); p_excl := p_excl (f_par f) |} |}
  | _, _ => f
  end.
Definition chk_pd_isin_null (c : ecase) : bool :=
  match c with
  | ((names, fs, t), OOk ids) =>
      all_fine names fs t && existsb (fun f => applicable names f && has_null_member f) fs
      && zs_eqb (ids_of (expected names (map strip_null fs) t)) ids
  | _ => false
  end.
Definition untyped_values (f : filt) : bool :=      (* pa.array(values) has Arrow type null: no member or only None *)
  match f_type f, p_values (f_par f) with FIn, Some vs => forallb is_null vs | _, _ => false end.
Definition chk_pa_untyped (c : ecase) : bool :=
  match c with
  | ((names, fs, t), OErr OArrowType) => all_fine names fs t && existsb (fun f => applicable names f && untyped_values f) fs
  | _ => false
  end.
Definition chk_py_empty (c : ecase) : bool :=
  match c with
  | ((names, fs, t), OErr OEmpty) => all_fine names fs t && match expected names fs t with [] => true | _ => false end
  | _ => false
  end.
(* classification helpers (labels only) *)
Definition chk_trivial (c : ecase) : bool :=     (* true = trivial: nothing applicable, or nothing / everything kept *)
  match c with
  | ((names, fs, t), OOk ids) => negb (existsb (applicable names) fs) || Nat.eqb (List.length ids) (List.length t)
                                 || Nat.eqb (List.length ids) 0
  | _ => false
  end.

Definition meth_eqb (a b : meth) : bool :=
  match a, b with
  | MRange, MRange | MMin, MMin | MMax, MMax | MEqual, MEqual | MRegex, MRegex | MIn, MIn | MCustom, MCustom => true
  | _, _ => false
  end.
(* exported plan step: (columns of the group, names of the step, filters of the step, global filters) *)
Definition chk_glue (c : list string * list string * list filt * list filt) : bool :=
  match c with (cols, names, fsS, fs) => glue_okb cols names fsS fs end.
(* the PyArrow regex model against the observed rows (string column, one regex filter) *)
Definition chk_arrow_regex (c : ecase) : bool :=
  match c with
  | ((names, [f], t), OOk ids) =>
      match denote f with
      | Some (CRegex p) => zs_eqb (ids_of (filter (fun r => arrow_regex_holds p (get r (f_col f))) t)) ids
      | _ => false
      end
  | _ => false
  end.
Definition chk_dispatch (c : ftype * option meth) : bool :=
  match snd c with Some m => meth_eqb (dispatch (fst c)) m | None => false end.

Inductive tobs := TS (s : string) | TVal | TOvf | TOther.
Definition chk_time (c : dt * tobs) : bool :=
  match convert (fst c), snd c with
  | TOk s, TS s' => String.eqb s s' | TValueError, TVal => true | TOverflow, TOvf => true | _, _ => false
  end.
Definition tcase := ((list string * list (string * dt * dt * bool) * table) * obs)%type.
Definition time_filters (l : list (string * dt * dt * bool)) : option (list filt) :=
  fold_right (fun x acc => match x, acc with
                           | (col, a, b, e), Some fs => option_map (fun f => f :: fs) (time_filter col a b e)
                           | _, None => None end) (Some []) l.
Definition chk_time_e2e (c : tcase) : bool :=
  match c with
  | ((names, l, t), o) => match time_filters l with Some fs => chk_spec ((names, fs, t), o) | None => false end
  end.
"""

ECASE_TY = "ecase"

# ------------------------------------------------------------------------------------------------------------
# values: None | ["i", n] | ["f", m, e] (= m / 2**e) | ["s", text]      (JSON-able, used in replays)
# ------------------------------------------------------------------------------------------------------------
INT_POOL = [-2, -1, 0, 1, 2, 3, 4, 5]
FLT_POOL = [(-3, 1), (0, 1), (1, 1), (3, 1), (4, 1), (5, 1), (7, 1), (5, 2), (9, 2), (6, 1), (-2, 1)]
STR_POOL = ["", "a", "ab", "abc", "b", "ba", "B", "a b", "10", "9", "aa", "A", "bab", "a_1", "1", "ab1"]
FTYPES = {"range": "FRange", "min": "FMin", "max": "FMax", "equal": "FEqual", "regex": "FRegex",
          "categorical_inclusion": "FIn"}
SAFE = set("abcdefghijklmnopqrstuvwxyzABCDEFGHIJKLMNOPQRSTUVWXYZ0123456789 _")


def pyval(v: Any) -> Any:
    if v is None:
        return None
    if v[0] == "i":
        return int(v[1])
    if v[0] == "f":
        return v[1] / float(2 ** v[2])
    return v[1]


def cqval(v: Any) -> str:
    if v is None:
        return "VNull"
    if v[0] == "i":
        return f"(VInt {cq_z(v[1])})"
    if v[0] == "f":
        return f"(VFlt {cq_z(v[1])} {int(v[2])}%nat)"
    return f"(VStr {cq_str(v[1])})"


def cq_optval(v: Any, present: bool) -> str:
    return f"(Some {cqval(v)})" if present else "None"


def real_par(par: Dict[str, Any], values_as_list: bool = False) -> Dict[str, Any]:
    out: Dict[str, Any] = {}
    for k, v in par.items():
        if k == "values":
            seq = [pyval(x) for x in v]
            out[k] = seq if values_as_list else tuple(seq)
        elif k == "max_exclusive":
            out[k] = v
        else:
            out[k] = pyval(v)
    return out


def cq_filter(f: Dict[str, Any]) -> str:
    par = f["par"]
    ft = FTYPES.get(f["type"], "FCustom")
    values = f"(Some {cq_list(cqval(x) for x in par['values'])})" if "values" in par else "None"
    return (f"{{| f_col := {cq_str(f['col'])}; f_type := {ft}; f_par := {{| p_value := {cq_optval(par.get('value'), 'value' in par)}; "
            f"p_values := {values}; p_min := {cq_optval(par.get('min'), 'min' in par)}; "
            f"p_max := {cq_optval(par.get('max'), 'max' in par)}; p_excl := {cq_bool(par.get('max_exclusive') is True)} |}} |}}")


def cq_row(r: Dict[str, Any]) -> str:
    return cq_list(f"({cq_str(k)}, {cqval(v)})" for k, v in r.items())


def cq_table(t: List[Dict[str, Any]]) -> str:
    return cq_list(cq_row(r) for r in t)


def cq_obs(o: Any) -> str:
    if isinstance(o, list):
        return f"(OOk {cq_list(cq_z(int(i)) for i in o)})"
    m = {"ValueError": "(OE ValueError)", "TypeError": "(OE TypeError)", "NotImplementedError": "(OE NotImplementedError)",
         "KeyError": "OKey", "Empty": "OEmpty", "Arrow:ArrowTypeError": "OArrowType", "ArrowType": "OArrowType"}
    return f"(OErr {m.get(o, 'OOther')})"


def ecase_term(c: Dict[str, Any]) -> str:
    names = c.get("names_term") or cq_list(cq_str(n) for n in c["names"])      # names_term: a Coq expression (path families)
    return (f"(({names}, {cq_list(cq_filter(f) for f in c['filters'])}, "
            f"{cq_table(c['table'])}), {cq_obs(c['obs'])})")


# ------------------------------------------------------------------------------------------------------------
# generators
# ------------------------------------------------------------------------------------------------------------
def gen_cell(rng: random.Random, kind: str, p_null: float) -> Any:
    if rng.random() < p_null:
        return None
    if kind == "int":
        return ["i", rng.choice(INT_POOL)]
    if kind == "flt":
        m, e = rng.choice(FLT_POOL)
        return ["f", m, e]
    if kind == "num":
        return gen_cell(rng, rng.choice(["int", "flt"]), 0.0)
    return ["s", rng.choice(STR_POOL)]


def gen_param(rng: random.Random, kind: str, present: List[Any]) -> Any:
    """a parameter of the column's kind, biased to values that occur in the column (boundaries)."""
    if present and rng.random() < 0.6:
        return rng.choice(present)
    if kind == "str":
        return ["s", rng.choice(STR_POOL)]
    return gen_cell(rng, rng.choice(["int", "flt"]), 0.0)


def gen_pattern(rng: random.Random, present: List[Any]) -> str:
    base = rng.choice([v[1] for v in present if v and v[0] == "s"] or STR_POOL) if rng.random() < 0.7 else rng.choice(STR_POOL)
    base = "".join(ch for ch in base if ch in SAFE)
    if base and rng.random() < 0.7:
        i = rng.randrange(len(base))
        j = rng.randrange(i, len(base)) + 1
        base = rng.choice([base[:j], base[i:j], base[i:], base])
    return ("^" if rng.random() < 0.4 else "") + base + ("$" if rng.random() < 0.3 else "")


def gen_filter(rng: random.Random, col: str, kind: str, present: List[Any], allow_regex: bool = True,
               null_member: bool = False) -> Dict[str, Any]:
    types = ["range", "range", "min", "max", "max", "equal", "categorical_inclusion"]
    if kind == "str" and allow_regex:
        types += ["regex", "regex", "regex"]
    t = rng.choice(types)
    gp = lambda: gen_param(rng, kind, present)  # noqa: E731
    if t == "range":
        lo, hi = gp(), gp()
        try:
            if rng.random() < 0.75 and pyval(lo) > pyval(hi):       # mostly a non-empty window whose bounds occur in the column
                lo, hi = hi, lo
        except TypeError:
            pass
        par: Dict[str, Any] = {"min": lo, "max": hi}
        x = rng.choice(["absent", True, False])
        if x != "absent":
            par["max_exclusive"] = x
    elif t == "min":
        par = {"value": gp()}
    elif t == "max":
        style = rng.choice(["value", "max", "max_excl", "max_incl"])
        par = {"value": gp()} if style == "value" else {"max": gp()}
        if style == "max_excl":
            par["max_exclusive"] = True
        if style == "max_incl":
            par["max_exclusive"] = False
    elif t == "equal":
        par = {"value": gp()}
    elif t == "regex":
        par = {"value": ["s", gen_pattern(rng, present)]}
    else:
        vs = [gp() for _ in range(rng.choice([0, 1, 2, 2, 3]))]
        if null_member:
            vs.insert(rng.randrange(len(vs) + 1), None)
        par = {"values": vs}
    return {"col": col, "type": t, "par": par}


def gen_malformed(rng: random.Random, col: str, kind: str, present: List[Any]) -> Dict[str, Any]:
    gp = lambda: gen_param(rng, kind, present)  # noqa: E731
    return rng.choice([
        {"col": col, "type": "range", "par": {"min": gp()}},
        {"col": col, "type": "range", "par": {"max": gp(), "max_exclusive": True}},
        {"col": col, "type": "min", "par": {"min": gp()}},
        {"col": col, "type": "max", "par": {"min": gp()}},
        {"col": col, "type": "max", "par": {"max": gp(), "min": gp()}},
        {"col": col, "type": "equal", "par": {"values": [gp()]}},
        {"col": col, "type": "regex", "par": {"values": [gp()]}},
        {"col": col, "type": "categorical_inclusion", "par": {"value": gp()}},
        {"col": col, "type": "zscore", "par": {"value": gp()}},
    ])


def gen_illtyped(rng: random.Random, col: str, kind: str, present: List[Any]) -> Dict[str, Any]:
    other = "int" if kind == "str" else "str"
    f = gen_filter(rng, col, other, [], allow_regex=False)
    if rng.random() < 0.2:
        f = {"col": col, "type": "regex", "par": {"value": ["i", 1]}}
    return f


def gen_table(rng: random.Random, cols: Dict[str, str], max_rows: int, missing_keys: bool) -> List[Dict[str, Any]]:
    n = rng.choice([0, 1, 2, 3, 4, 5, 6, 7, 8, max_rows])
    p_null = rng.choice([0.0, 0.15, 0.3, 1.0 if rng.random() < 0.1 else 0.2])
    t = []
    for i in range(n):
        r: Dict[str, Any] = {"id": ["i", i]}
        for c, k in cols.items():
            if missing_keys and rng.random() < 0.08:
                continue
            r[c] = gen_cell(rng, k, p_null)
        t.append(r)
    return t


def present_values(t: List[Dict[str, Any]], col: str) -> List[Any]:
    return [r[col] for r in t if r.get(col) is not None]


# ------------------------------------------------------------------------------------------------------------
# running the real engines
# ------------------------------------------------------------------------------------------------------------
def canon_cell(x: Any) -> Any:
    if x is None:
        return None
    if isinstance(x, float) and math.isnan(x):
        return None
    try:
        import pandas as pd
        if x is pd.NA or x is pd.NaT:
            return None
    except Exception:  # noqa: BLE001
        pass
    if isinstance(x, str):
        return x
    if hasattr(x, "item"):
        x = x.item()
    if isinstance(x, bool):
        return ("bool", x)
    if isinstance(x, (int, float)):
        return Fraction(x)
    return ("other", repr(x))


def col_kind(t: List[Dict[str, Any]], col: str, declared: str) -> str:
    return declared


def native(fw: str, t: List[Dict[str, Any]], cols: Dict[str, str], idname: str = "id") -> Any:
    """the framework's own table type for the generated table (ids in column `idname`)."""
    names = ["id"] + list(cols)
    if fw == "py":
        return [{(idname if k == "id" else k): pyval(v) for k, v in r.items()} for r in t]
    data = {(idname if k == "id" else k): [pyval(r.get(k)) for r in t] for k in names}
    if fw == "pa":
        import pyarrow as pa
        arrays, fields = [], []
        for k in names:
            kind = "int" if k == "id" else cols[k]
            typ = {"int": pa.int64(), "flt": pa.float64(), "num": pa.float64(), "str": pa.string()}[kind]
            nm = idname if k == "id" else k
            arrays.append(pa.array(data[nm], type=typ))
            fields.append(nm)
        return pa.table(arrays, names=fields)
    import pandas as pd
    series = {}
    for k in names:
        nm = idname if k == "id" else k
        kind = "int" if k == "id" else cols[k]
        vals = data[nm]
        if kind == "str":
            series[nm] = pd.Series(vals, dtype="str")
        elif kind == "int" and all(v is not None for v in vals):
            series[nm] = pd.Series(vals, dtype="int64")
        else:
            series[nm] = pd.Series([float("nan") if v is None else float(v) for v in vals], dtype="float64")
    df = pd.DataFrame(series)
    if fw == "pdo":
        df.columns = df.columns.astype(object)
    return df


def rows_of(fw: str, out: Any, idname: str = "id") -> List[Dict[str, Any]]:
    if fw == "py":
        return [dict(r) for r in out]
    if fw == "pa":
        return out.to_pylist()
    return [{str(c): out[c].iloc[i] for c in out.columns} for i in range(len(out))]


def err_name(e: BaseException) -> str:
    mod = type(e).__module__ or ""
    if mod.startswith("pyarrow"):
        return "Arrow:" + type(e).__name__
    return type(e).__name__


def engine_of(fw: str) -> Any:
    if fw == "py":
        from mloda_plugins.compute_framework.base_implementations.python_dict.python_dict_filter_engine import PythonDictFilterEngine
        return PythonDictFilterEngine
    if fw == "pa":
        from mloda_plugins.compute_framework.base_implementations.pyarrow.pyarrow_filter_engine import PyArrowFilterEngine
        return PyArrowFilterEngine
    from mloda_plugins.compute_framework.base_implementations.pandas.pandas_filter_engine import PandasFilterEngine
    return PandasFilterEngine


def observe_rows(fw: str, out: Any, t: List[Dict[str, Any]], cols: Dict[str, str], idname: str = "id") -> Any:
    """ids of the returned rows; 'Mutated' if a returned row differs from the input row with that id."""
    rows = rows_of(fw, out, idname)
    by_id = {r["id"][1]: r for r in t}
    ids = []
    for r in rows:
        i = canon_cell(r.get(idname))
        if not isinstance(i, Fraction) or int(i) not in by_id:
            return "Mutated"
        i = int(i)
        src = by_id[i]
        for c in cols:
            want = canon_cell(pyval(src.get(c)))
            if fw == "py" and c not in src:
                if c in r:
                    return "Mutated"
                continue
            if canon_cell(r.get(c)) != want:
                return "Mutated"
        ids.append(i)
    return ids


def run_engine(c: Dict[str, Any]) -> Any:
    """<Engine>.apply_filters(data, FeatureSet(names, filters)); returns (obs, order of filters as iterated)."""
    from mloda.user import Feature, SingleFilter
    from mloda.provider import FeatureSet
    fw = c["fw"]
    eng = engine_of(fw)
    data = native(fw, c["table"], c["cols"])
    sfs = []
    for f in c["filters"]:
        sfs.append(SingleFilter(f["col"], f["type"], real_par(f["par"], values_as_list=c.get("values_list", False))))
    if c.get("direct"):                       # one filter, do_filter called directly (list-valued parameter)
        try:
            out = eng.do_filter(data, sfs[0])
        except BaseException as e:  # noqa: BLE001
            return err_name(e), [0]
        return observe_rows(fw, out, c["table"], c["cols"]), [0]
    fs = FeatureSet()
    for n in c["names"]:
        fs.add(Feature(n))
    if c.get("filters_none"):
        order: List[int] = []
    else:
        fs.add_filters(set(sfs))
        order = [next(i for i, s in enumerate(sfs) if s is x) for x in fs.filters]  # iteration order of the set
    try:
        out = eng.apply_filters(data, fs)
    except BaseException as e:  # noqa: BLE001
        return err_name(e), order
    return observe_rows(fw, out, c["table"], c["cols"]), order


def S(x: Any) -> Any:
    return None if x is None else (["s", x] if isinstance(x, str) else ["i", x])


def witness_engine_cases() -> List[Dict[str, Any]]:
    """the committed witnesses of the engine-level known findings (corpus, run first on every run)."""
    def mk(fw: str, kind: str, col: List[Any], f: Dict[str, Any]) -> Dict[str, Any]:
        t = [{"id": ["i", i], "c": S(v)} for i, v in enumerate(col)]
        return {"kind": "engine", "fw": fw, "cols": {"c": kind}, "kinds": {"c": kind}, "table": t, "names": ["id", "c"],
                "filters": [f], "flavour": "fine", "witness": True}
    ws = [mk("pa", "str", ["a", "ab", None, "ba"], {"col": "c", "type": "regex", "par": {"value": ["s", "a"]}}),
          mk("pd", "int", [1, 2], {"col": "c", "type": "min", "par": {"value": ["i", 2]}}),
          mk("pdo", "int", [1, 2, None, 3, 2], {"col": "c", "type": "categorical_inclusion", "par": {"values": [["i", 2], None]}}),
          mk("pa", "str", ["a", None], {"col": "c", "type": "categorical_inclusion", "par": {"values": []}})]
    ws[2]["flavour"] = "null_member"
    for c in ws:
        c["obs"], _ = run_engine(c)
    return ws


def witness_e2e_cases() -> List[Dict[str, Any]]:
    c = {"kind": "e2e", "fw": "py", "groups": [{"id": "a_id", "cols": {"c": "int"},
                                                "table": [{"id": ["i", i], "c": ["i", v]} for i, v in enumerate([1, 2, 3])]}],
         "filters": [{"col": "c", "type": "min", "par": {"value": ["i", 5]}}], "request": ["a_id"], "derived": [], "witness": True}
    c["result"] = run_e2e(c)
    return [c]


def engine_cases(rng: random.Random, n: int) -> List[Dict[str, Any]]:
    out = []
    plan = (["py"] * 32 + ["pa"] * 30 + ["pdo"] * 14 + ["pd"] * 24)
    for ci in range(n):
        fw = rng.choice(plan)
        kinds = {"c": rng.choice(["int", "int", "num", "flt", "str", "str"])}
        force_regex = rng.random() < 0.1
        if force_regex:
            kinds["c"] = "str"
        if rng.random() < 0.5:
            kinds["d"] = rng.choice(["int", "num", "str"])
        t = gen_table(rng, kinds, 12, missing_keys=(fw == "py"))
        mode = rng.random()
        nf = rng.choice([1, 1, 2, 2, 3])
        fl = []
        flavour = "fine"
        for _ in range(nf):
            col = rng.choice(list(kinds) + (["zz"] if rng.random() < 0.15 else []))
            kind = kinds.get(col, "int")
            fl.append(gen_filter(rng, col, kind, present_values(t, col), allow_regex=True))
        if force_regex:
            fl[0] = {"col": "c", "type": "regex", "par": {"value": ["s", gen_pattern(rng, present_values(t, "c"))]}}
        elif fw == "py" and mode < 0.12:
            col = rng.choice(list(kinds))
            fl[rng.randrange(len(fl))] = gen_illtyped(rng, col, kinds[col], present_values(t, col))
            flavour = "illtyped"
        elif fw == "py" and mode < 0.2:
            col = rng.choice(list(kinds))                  # regex on an int column (text of an int), PythonDict only
            if kinds[col] == "int":
                fl[0] = {"col": col, "type": "regex", "par": {"value": ["s", rng.choice(["1", "^2", "2$", "", "^1$", "0"])]}}
                flavour = "regex_int"
        elif mode < 0.28:
            col = rng.choice(list(kinds))
            fl = [gen_malformed(rng, col, kinds[col], present_values(t, col))]
            flavour = "malformed"
        elif mode < 0.33:
            col = rng.choice(list(kinds))
            fl = [{"col": col, "type": "categorical_inclusion",
                   "par": {"values": [gen_param(rng, kinds[col], present_values(t, col)) for _ in range(rng.choice([1, 2, 3]))]}}]
            flavour = "values_list"
        elif mode < 0.38:
            col = rng.choice(list(kinds))
            fl = [gen_filter(rng, col, kinds[col], present_values(t, col), allow_regex=False, null_member=True)
                  for _ in range(1)]
            fl[0] = {"col": col, "type": "categorical_inclusion",
                     "par": {"values": [None] + [gen_param(rng, kinds[col], present_values(t, col)) for _ in range(rng.choice([0, 1, 2]))]}}
            flavour = "null_member"
        # names: the feature set of the group (always has "id"); filter columns in or out
        names = ["id"] + [k for k in list(kinds) + ["zz"] if rng.random() < 0.75 and k != "zz"]
        if rng.random() < 0.1:
            names = ["id"]
        c = {"kind": "engine", "fw": fw, "cols": kinds, "kinds": kinds, "table": t, "names": names, "filters": fl, "flavour": flavour}
        if flavour == "values_list":
            c["direct"] = True
            c["values_list"] = True
            c["names"] = ["id"] + list(kinds)
        if rng.random() < 0.03 and flavour == "fine":
            c["filters_none"] = True
        # duplicates collapse in the set of SingleFilter: drop equal filters beforehand
        seen, uniq = set(), []
        for f in c["filters"]:
            k = json.dumps(f, sort_keys=True)
            if k not in seen:
                seen.add(k)
                uniq.append(f)
        c["filters"] = uniq
        obs, order = run_engine(c)
        c["obs"] = obs
        if not c.get("direct"):
            c["filters"] = [c["filters"][i] for i in order]          # the order the engine iterated in
        out.append(c)
    return out


# ------------------------------------------------------------------------------------------------------------
# dispatch
# ------------------------------------------------------------------------------------------------------------
def dispatch_cases() -> List[Dict[str, Any]]:
    from mloda.provider import BaseFilterEngine
    from mloda.user import SingleFilter
    from mloda.core.filter.filter_type_enum import FilterType
    called: List[str] = []
    ns = {}
    for m in ["range", "min", "max", "equal", "regex", "categorical_inclusion", "custom"]:
        def f(cls: Any, data: Any, ff: Any, _m: str = m) -> Any:
            called.append(_m)
            return data
        ns[f"do_{m}_filter"] = classmethod(f)
    Rec = type("RecEngine", (BaseFilterEngine,), ns)
    out = []
    items: List[Tuple[str, Any]] = [(m.name, m) for m in FilterType] + [(s, s) for s in ["custom", "zscore", "Range", "RANGE", " min", "in"]]
    for label, ft in items:
        called.clear()
        try:
            Rec.do_filter([], SingleFilter("c", ft, {"value": 1}))
            obs = called[0] if len(called) == 1 else None
        except BaseException:  # noqa: BLE001
            obs = None
        val = ft.value if not isinstance(ft, str) else ft
        out.append({"kind": "dispatch", "label": label, "value": val, "is_member": not isinstance(ft, str), "obs": obs})
    return out


METH = {"range": "MRange", "min": "MMin", "max": "MMax", "equal": "MEqual", "regex": "MRegex",
        "categorical_inclusion": "MIn", "custom": "MCustom"}


def dispatch_term(c: Dict[str, Any]) -> str:
    ft = FTYPES.get(c["value"], "FCustom")
    return f"({ft}, {'None' if c['obs'] is None else '(Some ' + METH[c['obs']] + ')'})"


# ------------------------------------------------------------------------------------------------------------
# end to end
# ------------------------------------------------------------------------------------------------------------
_uid = [0]


def fw_class(fw: str) -> Any:
    if fw == "pa":
        from mloda_plugins.compute_framework.base_implementations.pyarrow.table import PyArrowTable
        return PyArrowTable
    if fw == "py":
        from mloda_plugins.compute_framework.base_implementations.python_dict.python_dict_framework import PythonDictFramework
        return PythonDictFramework
    from mloda_plugins.compute_framework.base_implementations.pandas.dataframe import PandasDataFrame
    return PandasDataFrame


def make_root(fw: str, g: Dict[str, Any]) -> type:
    from mloda.provider import FeatureGroup, DataCreator
    _uid[0] += 1
    names = {g["id"]} | set(g["cols"])
    table, cols, idname = g["table"], g["cols"], g["id"]

    def input_data(cls: Any) -> Any:
        return DataCreator(names)

    def calculate_feature(cls: Any, data: Any, features: Any) -> Any:
        return native(fw, table, cols, idname)          # the framework's native type: filters run on the raw return value

    def compute_framework_rule(cls: Any) -> Any:
        return {fw_class(fw)}

    return type(f"K11R{_uid[0]}", (FeatureGroup,), {"input_data": classmethod(input_data),
                                                     "calculate_feature": classmethod(calculate_feature),
                                                     "compute_framework_rule": classmethod(compute_framework_rule)})


def make_derived(fw: str, src: str, out: str) -> type:
    from mloda.provider import FeatureGroup
    from mloda.user import Feature
    _uid[0] += 1

    def input_features(self: Any, options: Any, feature_name: Any) -> Any:
        return {Feature(src)}

    def feature_names_supported(cls: Any) -> Any:
        return {out}

    def calculate_feature(cls: Any, data: Any, features: Any) -> Any:
        if fw == "pa":
            import pyarrow as pa
            return pa.table({out: data.column(src)})
        if fw == "py":
            return [{out: r[src]} for r in data]
        import pandas as pd
        df = pd.DataFrame({out: list(data[src])})
        if fw == "pdo":
            df.columns = df.columns.astype(object)
        return df

    def compute_framework_rule(cls: Any) -> Any:
        return {fw_class(fw)}

    return type(f"K11D{_uid[0]}", (FeatureGroup,), {"input_features": input_features,
                                                     "feature_names_supported": classmethod(feature_names_supported),
                                                     "calculate_feature": classmethod(calculate_feature),
                                                     "compute_framework_rule": classmethod(compute_framework_rule)})


def result_column(res: List[Any], col: str) -> Optional[List[Any]]:
    import pandas as pd
    import pyarrow as pa
    for r in res:
        if isinstance(r, pa.Table):
            if col in r.column_names:
                return r.column(col).to_pylist()
        elif isinstance(r, pd.DataFrame):
            if col in [str(c) for c in r.columns]:
                return list(r[col])
        elif isinstance(r, list):
            if r and col in r[0]:
                return [x.get(col) for x in r]
    return None


def run_error_name(e: BaseException) -> str:
    """run_all wraps the failure of a step into Exception(<traceback text>): classify by the last line of that text."""
    msg = str(e).replace("\\n", "\n")
    lines = [l.strip(" '\")(,") for l in msg.splitlines() if l.strip(" '\")(,")]
    last = lines[-1] if lines else ""
    if "has different filters for different features" in msg:
        return "DifferentFilters"
    if last.startswith("KeyError") and "FeatureName" in last:
        return "KeyError"
    if "Data is empty or not in expected format" in last or "Data cannot be empty" in last:
        return "Empty"
    if last.startswith("pyarrow.lib.ArrowTypeError"):
        return "ArrowType"
    for nm in ("ValueError", "TypeError", "NotImplementedError"):
        if last.startswith(nm):
            return nm
    return "Other:" + type(e).__name__ + ":" + last[:120]


def run_e2e(c: Dict[str, Any]) -> Dict[str, Any]:
    """mloda.run_all with a fresh GlobalFilter; returns {'error': name | None, 'ids': {requested column: ids | None}}."""
    from mloda.user import mloda, Feature, PluginCollector, GlobalFilter
    fw = c["fw"]
    gf = GlobalFilter()
    try:
        if c.get("time"):
            for tf in c["time"]:
                a, b = mk_dt(tf["from"]), mk_dt(tf["to"])
                kw: Dict[str, Any] = {"event_time_column": tf["col"], "max_exclusive": tf["excl"]}
                if tf.get("valid"):
                    kw.update(valid_from=mk_dt(tf["valid"]["from"]), valid_to=mk_dt(tf["valid"]["to"]),
                              validity_time_column=tf["valid"]["col"])
                gf.add_time_and_time_travel_filters(a, b, **kw)
        for f in c["filters"]:
            gf.add_filter(f["col"], f["type"], real_par(f["par"], values_as_list=c.get("values_list", False)))
    except BaseException as e:  # noqa: BLE001
        return {"error": "add_filter:" + err_name(e), "ids": {}}
    classes = {make_root(fw, g) for g in c["groups"]}
    for d in c.get("derived", []):
        classes.add(make_derived(fw, d["src"], d["out"]))
    try:
        res = mloda.run_all([Feature(r) for r in c["request"]], compute_frameworks={fw_class(fw)}, global_filter=gf,
                            plugin_collector=PluginCollector.enabled_feature_groups(classes))
    except BaseException as e:  # noqa: BLE001
        return {"error": run_error_name(e), "ids": {}}
    ids: Dict[str, Any] = {}
    for r in c["request"]:
        col = result_column(res, r)
        if col is None:
            ids[r] = None
        else:
            vals = [canon_cell(x) for x in col]
            ids[r] = [int(v) for v in vals] if all(isinstance(v, Fraction) for v in vals) else "Mutated"
    return {"error": None, "ids": ids}


def e2e_cases(rng: random.Random, n: int) -> List[Dict[str, Any]]:
    out = []
    for ci in range(n):
        fw = rng.choice(["pa", "pa", "pa", "py", "py", "py", "pdo", "pd", "pd"])
        ngroups = rng.choice([1, 2, 2])
        groups = []
        allkinds = {"c": rng.choice(["int", "num", "str", "flt"]), "d": rng.choice(["int", "str"])}
        for gi in range(ngroups):
            have = [k for k in ("c", "d") if rng.random() < (0.75 if gi == 0 else 0.4)]
            cols = {k: allkinds[k] for k in have}
            t = gen_table(rng, cols, 10, missing_keys=False)
            if not t:
                t = gen_table(rng, cols, 10, missing_keys=False) or [{"id": ["i", 0], **{k: gen_cell(rng, v, 0.2) for k, v in cols.items()}}]
            groups.append({"id": "ab"[gi] + "_id", "cols": cols, "table": t})
        fl = []
        for _ in range(rng.choice([1, 1, 2, 3])):
            col = rng.choice(["c", "c", "d", "zz"] if rng.random() < 0.9 else ["zz"])
            kind = allkinds.get(col, "int")
            pres = [v for g in groups for v in present_values(g["table"], col)]
            fl.append(gen_filter(rng, col, kind, pres))
        seen, uniq = set(), []
        for f in fl:
            k = json.dumps(f, sort_keys=True)
            if k not in seen:
                seen.add(k)
                uniq.append(f)
        request = [g["id"] for g in groups]
        derived = []
        if rng.random() < 0.3:
            derived.append({"src": groups[0]["id"], "out": "dout"})
            request = (["dout"] + request[1:]) if rng.random() < 0.5 else (request + ["dout"])
        c = {"kind": "e2e", "fw": fw, "groups": groups, "filters": uniq, "request": request, "derived": derived}
        c["result"] = run_e2e(c)
        out.append(c)
    return out


def e2e_group_cases(c: Dict[str, Any]) -> List[Dict[str, Any]]:
    """one spec case per requested column: (columns the producing root exposes, all global filters, its table, obs)."""
    res = c["result"]
    out = []
    for r in c["request"]:
        src = r
        for d in c.get("derived", []):
            if d["out"] == r:
                src = d["src"]
        g = next(g for g in c["groups"] if g["id"] == src)
        if res["error"]:
            obs: Any = res["error"]
        else:
            obs = res["ids"].get(r)
            if obs is None:
                obs = "Missing"
        out.append({"names": [g["id"]] + list(g["cols"]), "filters": c["filters"], "table": g["table"],
                    "obs": obs, "request": r, "kinds": g["cols"]})
    return out


# ------------------------------------------------------------------------------------------------------------
# pure-Python row predicate (direct judgement of end-to-end results, independent of the Coq definitions)
# ------------------------------------------------------------------------------------------------------------
def _cmp(a: Any, b: Any) -> Optional[int]:
    if a is None or b is None:
        return None
    if (a[0] == "s") != (b[0] == "s"):
        return None
    x = a[1] if a[0] == "s" else (Fraction(a[1]) if a[0] == "i" else Fraction(a[1], 2 ** a[2]))
    y = b[1] if b[0] == "s" else (Fraction(b[1]) if b[0] == "i" else Fraction(b[1], 2 ** b[2]))
    return -1 if x < y else (1 if x > y else 0)


def _same(a: Any, b: Any) -> bool:
    if a is None and b is None:
        return True
    return _cmp(a, b) == 0


def py_holds(f: Dict[str, Any], x: Any) -> bool:
    """does cell x satisfy the (well-formed) filter f?  range lower inclusive, upper by flag; null never satisfies an order."""
    t, par = f["type"], f["par"]
    le = lambda a, b: _cmp(a, b) in (-1, 0)  # noqa: E731
    lt = lambda a, b: _cmp(a, b) == -1  # noqa: E731
    if t == "range":
        return le(par["min"], x) and (lt(x, par["max"]) if par.get("max_exclusive") is True else le(x, par["max"]))
    if t == "min":
        return le(par["value"], x)
    if t == "max":
        if "max" in par:
            return lt(x, par["max"]) if par.get("max_exclusive") is True else le(x, par["max"])
        return le(x, par["value"])
    if t == "equal":
        return _same(x, par["value"])
    if t == "categorical_inclusion":
        return any(_same(x, v) for v in par["values"])
    if t == "regex":
        if x is None or x[0] != "s":
            return False
        pat = par["value"][1]
        pat = pat[1:] if pat.startswith("^") else pat
        if pat.endswith("$"):
            return x[1] == pat[:-1]
        return x[1].startswith(pat)
    raise ValueError(t)


def py_expected_ids(cols: Sequence[str], filters: List[Dict[str, Any]], table: List[Dict[str, Any]]) -> List[int]:
    return [r["id"][1] for r in table if all(py_holds(f, r.get(f["col"])) for f in filters if f["col"] in cols)]


# ------------------------------------------------------------------------------------------------------------
# end to end, several requested features whose options differ (planner glue: identity_matched_filters,
# _add_filter_feature, add_single_filters_to_feature_set)
# ------------------------------------------------------------------------------------------------------------
SCHEMES = ["none", "identical", "diffkeys", "samekey", "with_without", "context_only", "context_vs_none", "group_same_context_diff"]
FWMODES = ["pa", "py", "pd", "pdo", "mixed"]


def scheme_options(scheme: str, k: int) -> List[Dict[str, Any]]:
    out = []
    for i in range(k):
        g: Dict[str, Any] = {}
        c: Dict[str, Any] = {}
        if scheme == "identical":
            g = {"x": 1}
        elif scheme == "diffkeys":
            g = {f"k{i}": f"v{i}"}
        elif scheme == "samekey":
            g = {"x": i + 1}
        elif scheme == "with_without":
            g = {"x": 1} if i == 0 else ({"y": 2} if i == 2 else {})
        elif scheme == "context_only":
            c = {"cx": i + 1}
        elif scheme == "context_vs_none":
            c = {"cx": 1} if i == 0 else {}
        elif scheme == "group_same_context_diff":
            g, c = {"x": 1}, {"cx": i + 1}
        out.append({"group": g, "context": c})
    return out


def full_table(g: Dict[str, Any]) -> Tuple[List[Dict[str, Any]], Dict[str, str]]:
    """table and column kinds including the value columns  name = id + offset  of a multi-feature group."""
    t = [{**r, **{v: ["i", r["id"][1] + off] for v, off in g["vcols"].items()}} for r in g["table"]]
    return t, {**g["cols"], **{v: "int" for v in g["vcols"]}}


def make_multi_root(g: Dict[str, Any]) -> type:
    from mloda.provider import FeatureGroup, DataCreator
    _uid[0] += 1
    t, kinds = full_table(g)
    names = {"id"} | set(kinds)
    fw = g["fw"]

    def input_data(cls: Any) -> Any:
        return DataCreator(names)

    def calculate_feature(cls: Any, data: Any, features: Any) -> Any:
        return native(fw, t, kinds)

    def compute_framework_rule(cls: Any) -> Any:
        return {fw_class(fw)}

    return type(f"K11M{_uid[0]}_{g['name']}", (FeatureGroup,), {"input_data": classmethod(input_data),
                                                                 "calculate_feature": classmethod(calculate_feature),
                                                                 "compute_framework_rule": classmethod(compute_framework_rule)})


def run_multi(c: Dict[str, Any]) -> Dict[str, Any]:
    """prepare (plan export) and run_all, each with fresh GlobalFilter / Feature objects."""
    from mloda.user import mloda, Feature, PluginCollector, GlobalFilter, Options
    from mloda.core.core.step.feature_group_step import FeatureGroupStep
    classes = {g["name"]: make_multi_root(g) for g in c["groups"]}
    by_class = {v: k for k, v in classes.items()}
    cfws = {fw_class(g["fw"]) for g in c["groups"]}
    pars = [real_par(f["par"]) for f in c["filters"]]

    def args() -> Tuple[List[Any], Any]:
        gf = GlobalFilter()
        for f, rp in zip(c["filters"], pars):
            gf.add_filter(f["col"], f["type"], rp)
        feats = [Feature(r["name"], options=Options(group=dict(r["opt"]["group"]), context=dict(r["opt"]["context"]))) for r in c["request"]]
        return feats, gf

    out: Dict[str, Any] = {"plan": None, "plan_error": None, "error": None, "ids": {}}
    # -- the plan
    try:
        feats, gf = args()
        sess = mloda.prepare(feats, compute_frameworks=cfws, global_filter=gf,
                             plugin_collector=PluginCollector.enabled_feature_groups(set(classes.values())))
        steps = []
        for st in sess.engine.execution_planner:
            if isinstance(st, FeatureGroupStep) and st.feature_group in by_class:
                fl = []
                for sf in (st.features.filters or []):
                    raw = dict(sf.parameter._raw)
                    idx = next((i for i, (f, rp) in enumerate(zip(c["filters"], pars))
                                if f["col"] == str(sf.filter_feature.name) and f["type"] == sf.filter_type and rp == raw), None)
                    fl.append(idx)
                steps.append({"group": by_class[st.feature_group], "names": sorted(st.features.get_all_names()),
                              "filters": fl, "filters_none": st.features.filters is None,
                              "requested": sorted(f.get_name() for f in st.features.features if f.initial_requested_data),
                              "opts": sorted(json.dumps([f.get_name(), f.options.group, f.options.context], sort_keys=True, default=str)
                                             for f in st.features.features)})
        seen_steps, uniq_steps = set(), []
        for st in steps:
            k = json.dumps(st, sort_keys=True)
            if k not in seen_steps:
                seen_steps.add(k)
                uniq_steps.append(st)
        out["plan"] = uniq_steps
    except BaseException as e:  # noqa: BLE001
        out["plan_error"] = run_error_name(e)
    # -- the run
    try:
        feats, gf = args()
        res = mloda.run_all(feats, compute_frameworks=cfws, global_filter=gf,
                            plugin_collector=PluginCollector.enabled_feature_groups(set(classes.values())))
    except BaseException as e:  # noqa: BLE001
        out["error"] = run_error_name(e)
        return out
    for r in c["request"]:
        col = result_column(res, r["name"])
        if col is None:
            out["ids"][r["name"]] = None
            continue
        g = next(g for g in c["groups"] if r["name"] in g["vcols"])
        vals = [canon_cell(x) for x in col]
        out["ids"][r["name"]] = [int(v) - g["vcols"][r["name"]] for v in vals] if all(isinstance(v, Fraction) for v in vals) else "Mutated"
    return out


def gen_multi_case(rng: random.Random, scheme: str, fwmode: str, same_group: bool, k: int) -> Dict[str, Any]:
    fws = {"A": fwmode, "B": fwmode}
    if fwmode == "mixed":
        a, b = rng.sample(["pa", "py", "pd"], 2)
        fws = {"A": a, "B": b}
    kinds = {"c": rng.choice(["int", "num", "str"]), "d": rng.choice(["int", "str"])}
    groups = []
    for name, vnames in (("A", ["a1", "a2", "a3"]), ("B", ["b1", "b2"])):
        have = ["c"] if name == "A" else (["c"] if rng.random() < 0.6 else [])
        if rng.random() < 0.4:
            have.append("d")
        cols = {x: kinds[x] for x in have}
        n = rng.randrange(4, 9)
        t = [{"id": ["i", i], **{x: gen_cell(rng, kk, 0.15) for x, kk in cols.items()}} for i in range(n)]
        groups.append({"name": name, "fw": fws[name], "cols": cols, "table": t,
                       "vcols": {v: 100 * j for j, v in enumerate(vnames)}})
    if not same_group or k == 3 and rng.random() < 0.3:
        names = ["a1", "b1", "a2"][:k]
    else:
        names = ["a1", "a2", "a3"][:k]
    rng.shuffle(names)
    opts = scheme_options(scheme, k)
    request = [{"name": n, "opt": o} for n, o in zip(names, opts)]
    A = groups[0]
    # 1-2 global filters; the first one is made effective on group A (keeps a proper, non-empty part of its rows)
    filters: List[Dict[str, Any]] = []
    for _ in range(30):
        f = gen_filter(rng, "c", kinds["c"], present_values(A["table"], "c"))
        if f["type"] == "categorical_inclusion" and not f["par"]["values"]:
            continue
        kept = py_expected_ids(["c"], [f], A["table"])
        if 0 < len(kept) < len(A["table"]) and all(py_expected_ids(list(g["cols"]), [f], g["table"]) for g in groups):
            filters = [f]
            break
    if not filters:
        filters = [{"col": "c", "type": "categorical_inclusion", "par": {"values": [present_values(A["table"], "c")[0]]}}
                   if present_values(A["table"], "c") else {"col": "c", "type": "min", "par": {"value": ["i", 0]}}]
    if rng.random() < 0.5:
        col = rng.choice(["c", "d", "d", "zz"])
        kind = kinds.get(col, "int")
        pres = [v for g in groups for v in present_values(g["table"], col)]
        for _ in range(10):
            f2 = gen_filter(rng, col, kind, pres)
            if f2["type"] == "categorical_inclusion" and not f2["par"]["values"]:
                continue
            if json.dumps(f2, sort_keys=True) != json.dumps(filters[0], sort_keys=True) and \
                    all(py_expected_ids(list(g["cols"]), filters + [f2], g["table"]) for g in groups):
                filters.append(f2)
                break
    return {"kind": "multi", "scheme": scheme, "fwmode": fwmode, "groups": groups, "request": request, "filters": filters}


def multi_witness() -> Dict[str, Any]:
    """the demo of the seeded regression seeded/C11: three groups exposing the filter column, one per framework,
    three requested features with different option keys, one filter."""
    ages = [10, 29, 30, 31, 30, 55]
    groups = [{"name": n, "fw": fw, "cols": {"c": "int"}, "table": [{"id": ["i", i], "c": ["i", a]} for i, a in enumerate(ages)],
               "vcols": {v: 0}} for n, fw, v in (("A", "py", "orders_value"), ("B", "pd", "payments_value"), ("C", "pa", "clicks_value"))]
    request = [{"name": "orders_value", "opt": {"group": {"orders_source": "shop"}, "context": {}}},
               {"name": "payments_value", "opt": {"group": {"payments_source": "bank"}, "context": {}}},
               {"name": "clicks_value", "opt": {"group": {"clicks_source": "web"}, "context": {}}}]
    return {"kind": "multi", "scheme": "diffkeys", "fwmode": "mixed", "groups": groups, "request": request,
            "filters": [{"col": "c", "type": "min", "par": {"value": ["i", 30]}}], "witness": True}


def multi_witness_context() -> Dict[str, Any]:
    """witness of C11-context-options-filter-lost: ONE requested feature with a context option, one filter."""
    g = {"name": "A", "fw": "pa", "cols": {"c": "int"}, "table": [{"id": ["i", i], "c": ["i", v]} for i, v in enumerate([1, 2, 3, 4])],
         "vcols": {"a1": 0}}
    return {"kind": "multi", "scheme": "context_only", "fwmode": "pa", "groups": [g], "witness": True,
            "request": [{"name": "a1", "opt": {"group": {}, "context": {"cx": 1}}}],
            "filters": [{"col": "c", "type": "min", "par": {"value": ["i", 3]}}]}


def multi_cases(rng: random.Random, rounds: int) -> List[Dict[str, Any]]:
    """every scheme x framework mode in every round (quick: 2 rounds = 80 runs), alternating same / different groups and 2 / 3 features."""
    out = [multi_witness(), multi_witness_context()]
    i = 0
    for rd in range(rounds):
        for scheme in SCHEMES:
            for fwmode in FWMODES:
                out.append(gen_multi_case(rng, scheme, fwmode, same_group=(i % 2 == 0), k=2 + (i // 2) % 2))
                i += 1
    for c in out:
        c["result"] = run_multi(c)
    return out


def context_conflict(c: Dict[str, Any]) -> bool:
    """known-finding domain C11-context-options-filter-lost (rejection symptom): two requested features of ONE group with equal group options (one
    feature set) but different context options, and a global filter on a column that group exposes."""
    for g in c["groups"]:
        rs = [r for r in c["request"] if r["name"] in g["vcols"]]
        if not any(f["col"] in g["cols"] for f in c["filters"]):
            continue
        for i in range(len(rs)):
            for j in range(i + 1, len(rs)):
                if rs[i]["opt"]["group"] == rs[j]["opt"]["group"] and rs[i]["opt"]["context"] != rs[j]["opt"]["context"]:
                    return True
    return False


def own_options_witness() -> Dict[str, Any]:
    """witness of C11-filter-feature-own-options, run in fresh interpreters (the outcome depends on set iteration order)."""
    import os
    import subprocess
    from concurrent.futures import ThreadPoolExecutor
    env = dict(os.environ)

    def one(arg: Tuple[int, str]) -> Any:
        seed, variant = arg
        e = dict(env, PYTHONHASHSEED=str(seed))
        try:
            p = subprocess.run([vlib.PY, str(vlib.VERIF / "harness" / "c11_sub.py"), "1", variant], env=e, timeout=120,
                               stdout=subprocess.PIPE, stderr=subprocess.DEVNULL, text=True)
            return json.loads(p.stdout.strip().splitlines()[-1])
        except BaseException as ex:  # noqa: BLE001
            return ["EXC:" + type(ex).__name__]
    # the outcome is fixed per interpreter (ids of the generated classes / hash seed) and about one process in four shows the
    # defect: 24 fresh interpreters with one call each, 3 controls without the own options
    jobs = [(sd, "own") for sd in range(24)] + [(sd, "plain") for sd in (0, 1, 2)]
    with ThreadPoolExecutor(max_workers=vlib.NCPU) as ex:
        res = list(ex.map(one, jobs))
    return {"kind": "witness_own_options", "expected": [23, 43],
            "own": {str(sd): r for (sd, v), r in zip(jobs, res) if v == "own"},
            "plain": {str(sd): r for (sd, v), r in zip(jobs, res) if v == "plain"}}


# ------------------------------------------------------------------------------------------------------------
# time
# ------------------------------------------------------------------------------------------------------------
ZONES = ["UTC", "Europe/Berlin", "America/New_York", "Asia/Kolkata", "Asia/Kathmandu", "Australia/Lord_Howe",
         "Pacific/Chatham", "America/St_Johns", "Pacific/Kiritimati", "Pacific/Pago_Pago", "Africa/Monrovia", "Asia/Tokyo",
         "America/Sao_Paulo", "Europe/London"]


def mk_dt(d: Dict[str, Any]) -> datetime:
    tz: Any = None
    if d.get("zone"):
        from zoneinfo import ZoneInfo
        tz = ZoneInfo(d["zone"])
    elif d.get("fixed_us") is not None:
        tz = timezone(timedelta(microseconds=d["fixed_us"]))
    return datetime(d["y"], d["mo"], d["d"], d["h"], d["mi"], d["s"], d["us"], tzinfo=tz, fold=d.get("fold", 0))


def cq_dt(d: Dict[str, Any], off_us: Optional[int]) -> str:
    off = "None" if off_us is None else f"(Some {cq_z(off_us)})"
    return (f"{{| yr := {cq_z(d['y'])}; mo := {cq_z(d['mo'])}; dy := {cq_z(d['d'])}; hh := {cq_z(d['h'])}; "
            f"mi := {cq_z(d['mi'])}; ss := {cq_z(d['s'])}; us := {cq_z(d['us'])}; off := {off} |}}")


def td_us(td: timedelta) -> int:
    return (td.days * 86400 + td.seconds) * 1000000 + td.microseconds


def gen_dt(rng: random.Random, tzmode: Optional[str] = None) -> Dict[str, Any]:
    y = rng.choice([1971, 1999, 2000, 2016, 2023, 2024, 2024, 2025, 2038, 2099, 1905, 2150])
    mo = rng.randrange(1, 13)
    dmax = [31, 29 if (y % 4 == 0 and (y % 100 != 0 or y % 400 == 0)) else 28, 31, 30, 31, 30, 31, 31, 30, 31, 30, 31][mo - 1]
    d = {"y": y, "mo": mo, "d": rng.choice([1, dmax, rng.randrange(1, dmax + 1)]), "h": rng.choice([0, 1, 2, 3, 12, 23, rng.randrange(24)]),
         "mi": rng.choice([0, 30, 59, rng.randrange(60)]), "s": rng.choice([0, 0, 59, rng.randrange(60)]),
         "us": rng.choice([0, 0, 0, 1, 500000, 999999, rng.randrange(1000000)]), "fold": rng.choice([0, 0, 0, 1])}
    mode = tzmode or rng.choice(["zone"] * 8 + ["fixed", "naive"])
    if mode == "zone":
        d["zone"] = rng.choice(ZONES)
    elif mode == "fixed":
        d["fixed_us"] = rng.choice([0, 3600 * 10**6, -5 * 3600 * 10**6, 20700 * 10**6, 3630000007, -86399 * 10**6, 86399 * 10**6 + 999999,
                                    rng.randrange(-86399, 86400) * 10**6])
    return d


def time_cases(rng: random.Random, n: int) -> List[Dict[str, Any]]:
    from mloda.user import GlobalFilter
    g = GlobalFilter()
    out = []
    specials = [{"y": 1, "mo": 1, "d": 1, "h": 0, "mi": 0, "s": 0, "us": 0, "fixed_us": 5 * 3600 * 10**6},
                {"y": 9999, "mo": 12, "d": 31, "h": 23, "mi": 59, "s": 59, "us": 999999, "fixed_us": -3600 * 10**6},
                {"y": 1, "mo": 1, "d": 1, "h": 0, "mi": 0, "s": 0, "us": 0, "fixed_us": 0},
                {"y": 9999, "mo": 12, "d": 31, "h": 23, "mi": 59, "s": 59, "us": 999999, "fixed_us": 0}]
    for ci in range(n):
        d = specials[ci] if ci < len(specials) else gen_dt(rng)
        x = mk_dt(d)
        off = x.utcoffset()
        try:
            obs = "S:" + g._check_and_convert_time_info(x)
        except ValueError:
            obs = "ValueError"
        except OverflowError:
            obs = "OverflowError"
        except BaseException as e:  # noqa: BLE001
            obs = "Other:" + type(e).__name__
        c = {"kind": "time", "dt": d, "off_us": None if off is None else td_us(off), "obs": obs}
        # the same instant written in another zone must give the same string
        if off is not None and obs.startswith("S:") and 1900 < d["y"] < 2190:
            from zoneinfo import ZoneInfo
            z2 = rng.choice(ZONES)
            y = x.astimezone(ZoneInfo(z2))
            try:
                c["other_zone"] = z2
                c["same_instant_same_string"] = (g._check_and_convert_time_info(y) == obs[2:])
                c["other"] = {"y": y.year, "mo": y.month, "d": y.day, "h": y.hour, "mi": y.minute, "s": y.second, "us": y.microsecond,
                              "off_us": td_us(y.utcoffset())}
            except BaseException as e:  # noqa: BLE001
                c["same_instant_same_string"] = False
        out.append(c)
    return out


def time_term(d: Dict[str, Any], off_us: Optional[int], obs: str) -> str:
    if obs.startswith("S:"):
        o = f"(TS {cq_str(obs[2:])})"
    else:
        o = {"ValueError": "TVal", "OverflowError": "TOvf"}.get(obs, "TOther")
    return f"({cq_dt(d, off_us)}, {o})"


def time_e2e_cases(rng: random.Random, n: int) -> List[Dict[str, Any]]:
    from zoneinfo import ZoneInfo
    out = []
    for ci in range(n):
        fw = rng.choice(["pa", "py", "pd", "pa", "py", "pdo", "pd"])
        base = datetime(rng.choice([2000, 2023, 2024, 2025]), rng.randrange(1, 13), rng.randrange(1, 29), rng.randrange(24),
                        rng.choice([0, 30, rng.randrange(60)]), rng.choice([0, rng.randrange(60)]),
                        rng.choice([0, 0, 500000, rng.randrange(1000000)]), tzinfo=timezone.utc)
        span = timedelta(seconds=rng.choice([1, 60, 3600, 86400, 86400 * 3]))

        def as_zone(x: datetime) -> Dict[str, Any]:
            z = rng.choice(ZONES)
            y = x.astimezone(ZoneInfo(z))
            return {"y": y.year, "mo": y.month, "d": y.day, "h": y.hour, "mi": y.minute, "s": y.second, "us": y.microsecond,
                    "zone": z, "fold": y.fold}

        def window(col: str, lo: datetime, hi: datetime) -> Tuple[Dict[str, Any], datetime, datetime]:
            w = {"col": col, "from": as_zone(lo), "to": as_zone(hi)}
            a, b = mk_dt(w["from"]), mk_dt(w["to"])
            w["from_off"], w["to_off"] = td_us(a.utcoffset()), td_us(b.utcoffset())
            return w, a.astimezone(timezone.utc), b.astimezone(timezone.utc)     # the instants actually denoted

        def cell(lo_i: datetime, hi_i: datetime) -> Tuple[Any, Optional[datetime]]:
            if rng.random() < 0.15:
                return None, None
            x = rng.choice([lo_i, hi_i, lo_i - timedelta(microseconds=1), hi_i - timedelta(microseconds=1),
                            lo_i + timedelta(microseconds=1), hi_i + timedelta(microseconds=1), lo_i + (hi_i - lo_i) / 2,
                            lo_i - timedelta(days=1), hi_i + timedelta(hours=5), lo_i.replace(microsecond=0),
                            hi_i.replace(microsecond=0) + timedelta(seconds=1)])
            return ["s", x.isoformat()], x

        tf, lo_i, hi_i = window("c", base, base + span)
        tf["excl"] = rng.choice([True, True, False])
        cols = {"c": "str"}
        if rng.random() < 0.35:
            v, vlo, vhi = window("d", base - span, base + span / 2)
            tf["valid"] = v
            cols["d"] = "str"
        rows, instants = [], []
        for i in range(rng.randrange(1, 10)):
            r: Dict[str, Any] = {"id": ["i", i]}
            r["c"], x = cell(lo_i, hi_i)
            y: Optional[datetime] = None
            if "d" in cols:
                r["d"], y = cell(vlo, vhi)
            rows.append(r)
            instants.append((x, y))
        groups = [{"id": "a_id", "cols": cols, "table": rows}]
        if rng.random() < 0.4:
            groups.append({"id": "b_id", "cols": {}, "table": [{"id": ["i", j]} for j in range(rng.randrange(1, 4))]})
        c = {"kind": "time_e2e", "fw": fw, "groups": groups, "filters": [], "time": [tf], "request": [g["id"] for g in groups], "derived": []}
        c["result"] = run_e2e(c)
        # Python oracle on instants (aware datetime comparison)
        def inside(x: Optional[datetime], lo: datetime, hi: datetime) -> bool:
            return x is not None and lo <= x and (x < hi if tf["excl"] else x <= hi)
        c["oracle_ids"] = [i for i, (x, y) in enumerate(instants)
                           if inside(x, lo_i, hi_i) and ("valid" not in tf or inside(y, vlo, vhi))]
        out.append(c)
    return out


def tcase_term(c: Dict[str, Any], g: Dict[str, Any], obs: Any) -> str:
    tf = c["time"][0]
    ws = [tf] + ([tf["valid"]] if tf.get("valid") else [])
    l = cq_list(f"({cq_str(w['col'])}, {cq_dt(w['from'], w['from_off'])}, {cq_dt(w['to'], w['to_off'])}, {cq_bool(tf['excl'])})" for w in ws)
    names = cq_list(cq_str(n) for n in [g["id"]] + list(g["cols"]))
    return f"(({names}, {l}, {cq_table(g['table'])}), {cq_obs(obs)})"


# ------------------------------------------------------------------------------------------------------------
# witnesses of the known findings (replayed on every run)
# ------------------------------------------------------------------------------------------------------------
def witness_list_parameter() -> Dict[str, Any]:
    from mloda.user import GlobalFilter
    out: Dict[str, Any] = {"kind": "witness_list"}
    try:
        GlobalFilter().add_filter("c", "categorical_inclusion", {"values": [1, 2]})
        out["list"] = "accepted"
    except TypeError as e:
        out["list"] = "TypeError: " + str(e)[:60]
    except BaseException as e:  # noqa: BLE001
        out["list"] = "Other:" + type(e).__name__
    try:
        GlobalFilter().add_filter("c", "categorical_inclusion", {"values": (1, 2)})
        out["tuple"] = "accepted"
    except BaseException as e:  # noqa: BLE001
        out["tuple"] = "Other:" + type(e).__name__
    return out


# ------------------------------------------------------------------------------------------------------------
def coq_bad(name: str, fn: str, terms: List[str], ty: str = ECASE_TY, shard: int = 250) -> Tuple[set, Dict[str, Any]]:
    if not terms:
        return set(), {"coq_cases": 0}
    bad, info = vlib.run_cases("C11", name, REQ, fn, terms, extra_defs=EXTRA, case_type=ty, shard=shard)
    return set(bad), info


def short(c: Dict[str, Any]) -> Dict[str, Any]:
    return c


def untyped_on_string_column(c: Dict[str, Any]) -> bool:
    """an applicable categorical filter whose value list is empty or all None, on a column holding strings."""
    for f in c["filters"]:
        if f["type"] == "categorical_inclusion" and f["col"] in c["names"] and all(v is None for v in f["par"].get("values", [1])):
            if c.get("kinds", {}).get(f["col"]) == "str":
                return True
    return False


def classify_spec_cases(rep: vlib.Reporter, tag: str, cases: List[Dict[str, Any]], ctx: List[Dict[str, Any]]) -> Tuple[int, Dict[str, int]]:
    """cases: dicts with fw, names, filters, table, obs (+ ctx[i] = replay object). Compare with the SPEC; route failures
    into the known-finding domains; everything else is a violation. Returns (#violations, counters)."""
    terms = [ecase_term(c) for c in cases]
    bad, _ = coq_bad(tag + "_spec", "chk_spec", terms)
    cnt = {"agree_with_spec": len(cases) - len(bad), "kf_pandas_isin_null": 0,
           "kf_pydict_empty": 0, "kf_arrow_untyped_values": 0, "violations": 0}
    if not bad:
        return 0, cnt
    idx = sorted(bad)
    sub = [terms[i] for i in idx]
    fails = {}
    for fn in ("chk_pd_isin_null", "chk_py_empty", "chk_pa_untyped"):
        b, _ = coq_bad(tag + "_" + fn, fn, sub)
        fails[fn] = {idx[j] for j in range(len(idx)) if j not in b}      # cases PASSING the kf checker
    nviol = 0
    for i in idx:
        c = cases[i]
        if c["fw"] in ("pd", "pdo") and i in fails["chk_pd_isin_null"]:
            cnt["kf_pandas_isin_null"] += 1
            rep.finding("C11-pandas-isin-null-member", "Pandas isin did not match null cells although None is a member", ctx[i])
        elif c["fw"] == "pa" and i in fails["chk_pa_untyped"] and untyped_on_string_column(c):
            cnt["kf_arrow_untyped_values"] += 1
            rep.finding("C11-pyarrow-isin-untyped-values", "PyArrow is_in raised ArrowTypeError for an empty / all-None value list "
                        "on a string column", ctx[i])
        elif c["fw"] == "py" and c.get("e2e") and i in fails["chk_py_empty"]:
            cnt["kf_pydict_empty"] += 1
            rep.finding("C11-pydict-empty-result-raises", "PythonDict run failed because the filtered result is empty", ctx[i])
        else:
            nviol += 1
            cnt["violations"] += 1
            if nviol <= 5:
                rep.finding(f"{tag}:{c['fw']}:{json.dumps([c['names'], c['filters'], c['table']], sort_keys=True)[:400]}:{c['obs']}",
                            f"{tag}: framework {c['fw']} returned {c['obs']} for filters {json.dumps(c['filters'])} on feature-set "
                            f"columns {c['names']}; the rows satisfying the applicable filters are different (see replay)", ctx[i])
    return nviol, cnt


def run(rep: vlib.Reporter, tier: str, seed: int) -> None:
    rng = random.Random(seed * 7919 + 11)
    big = tier == "thorough"
    pr = vlib.build_props("C11")
    rep.proof(pr)
    pr_path = vlib.build_props("C11path")      # the path add_filter -> identity_matched_filters -> rename -> gate -> column read
    rep.proof(pr_path)
    rep.coverage["trusted_base"] += [
        "hand-written models Model/FilterPyDict.v (python_dict_filter_engine.py, BaseFilterEngine.do_filter / apply_single_filters), "
        "Model/FilterArrow.v (PyArrow do_regex_filter only), Model/TimeFilter.v (_check_and_convert_time_info); tied by T2 "
        "correspondence on the inputs listed under coverage",
        "Pandas and PyArrow engines are NOT modelled: their comparison / isin / regex kernels are compared with Spec/Filter.v "
        "on generated tables only (correspondence, no theorem)",
        "Python value semantics assumed by Spec.vcmp: int/float compared exactly (floats generated as dyadic rationals "
        "m/2^e, |m| < 2^10), str compared by code point (generators stay in printable ASCII, no newline), set(values) membership = ==",
        "regex family: ['^'] literal ['$'] over [A-Za-z0-9 _]; re.match / str.match / RE2 outside this family are not covered",
        "zoneinfo offsets are inputs (datetime.utcoffset()), not modelled; year range of C11_utc_denotes_instant is 1900..2199",
        "the planner glue (identity_matched_filters, _add_filter_feature, add_single_filters_to_feature_set) is not modelled: every "
        "plan exported from the real prepare is checked step by step with Spec/FilterPlan.glue_okb (sufficiency proved: "
        "C11_plan_glue_sufficient) and the rows returned by run_all are judged by a pure-Python predicate and by Spec/Filter.expected; "
        "the plan exporter (FeatureGroupStep.features / .filters) is ordinary Python",
        "filter features with options of their own are covered by one committed witness only (harness/c11_sub.py, fresh interpreters) "
        "and at unit level (identity_matched_filters vs Model/FilterPath.identity_matched)",
        "hand-written model Model/FilterPath.v (identity_matched_filters, unify_options, Engine._add_filter_feature, the gate of "
        "apply_single_filters, the column the engines read), tied by T2: recording wrappers around identity_matched_filters / "
        "apply_single_filters / do_filter and proxies around the data handed to do_filter (harness/c11_path.py, ordinary Python); "
        "its planned_names assumes feature sets are split by group options (planner not modelled); class-name based rules of "
        "match_feature_group_criteria are not modelled; parameter equality of two filters is structural (generators avoid 2 vs 2.0)",
        "canonicalisation: rows identified by an integer id column; returned cells compared with the input cells (NaN/None = null)"]
    found = False
    from harness import srctie      # source-text tie (Props/SrcTie.v): add_single_filters_to_feature_set regenerated from the source text = Model/FilterAttach.v (which steps get which filters)
    found = (not srctie.check(rep)) or found

    # ---- dispatch (exhaustive over the enum) ----
    dc = dispatch_cases()
    bad, info = coq_bad("dispatch", "chk_dispatch", [dispatch_term(c) for c in dc], ty="ftype * option meth")
    unknown = [c for c in dc if c["is_member"] and c["value"] not in FTYPES]
    rep.count(len(dc))
    rep.add("dispatch", {**info, "cases": len(dc), "enum_members": sum(1 for c in dc if c["is_member"]), "disagreements": len(bad),
                         "members_unknown_to_spec": [c["label"] for c in unknown], "exhaustive": True})
    for i in sorted(bad)[:5]:
        rep.finding(f"dispatch:{dc[i]['label']}:{dc[i]['obs']}", f"do_filter sends filter type {dc[i]['value']!r} to do_{dc[i]['obs']}_filter, "
                    "the model expects another method", dc[i])
        found = True
    for c in unknown[:3]:
        rep.finding(f"dispatch-unknown:{c['label']}", f"FilterType member {c['label']} is not covered by Spec/Filter.v", c)
        found = True
    for c in dc:
        if c["is_member"]:
            rep.nontrivial(("d", c["label"]))

    # ---- engine level ----
    ec = witness_engine_cases() + engine_cases(rng, 20000 if big else 620)
    rep.count(len(ec))
    mix: Dict[str, int] = {}
    ftmix: Dict[str, int] = {}
    errs: Dict[str, int] = {}
    sizes: Dict[str, int] = {}
    for c in ec:
        mix[f"{c['fw']}:{c['flavour']}"] = mix.get(f"{c['fw']}:{c['flavour']}", 0) + 1
        for f in c["filters"]:
            ftmix[f["type"]] = ftmix.get(f["type"], 0) + 1
        if not isinstance(c["obs"], list):
            errs[f"{c['fw']}:{c['obs']}"] = errs.get(f"{c['fw']}:{c['obs']}", 0) + 1
        k = f"rows={min(len(c['table']), 9)}{'+' if len(c['table']) > 9 else ''},filters={len(c['filters'])}"
        sizes[k] = sizes.get(k, 0) + 1
    # (1) PythonDict vs the model; malformed parameters of every engine vs the model
    m_idx = [i for i, c in enumerate(ec) if c["fw"] == "py" or c["flavour"] == "malformed"]
    badm, info_m = coq_bad("engine_model", "chk_model", [ecase_term(ec[i]) for i in m_idx])
    for j in sorted(badm)[:5]:
        c = ec[m_idx[j]]
        rep.finding(f"engine-model:{c['fw']}:{json.dumps([c['names'], c['filters'], c['table']], sort_keys=True)[:400]}:{c['obs']}",
                    f"{c['fw']} engine returned {c['obs']} for filters {json.dumps(c['filters'])} (feature-set columns {c['names']}); the "
                    "model of the engine computes something else", c)
        found = True
    # (2) every engine vs the SPEC on the well-typed, well-formed domain (for PythonDict this is the theorem, observed)
    s_idx = [i for i, c in enumerate(ec) if c["flavour"] in ("fine", "values_list", "null_member")
             or (c["flavour"] == "regex_int" and c["fw"] == "py")]
    fine_bad, _ = coq_bad("engine_triv", "chk_trivial", [ecase_term(ec[i]) for i in s_idx])      # labels only
    spec_cases = [ec[i] for i in s_idx]
    nv, cnt = classify_spec_cases(rep, "engine", spec_cases, spec_cases)
    found = found or nv > 0
    # (3) the PyArrow regex method vs its model (Model/FilterArrow.v, the subject of C11_arrow_regex_refines)
    ar = [c for c in ec if c["fw"] == "pa" and len(c["filters"]) == 1 and c["filters"][0]["type"] == "regex"
          and c["filters"][0]["col"] in c["names"] and c["kinds"].get(c["filters"][0]["col"]) == "str" and isinstance(c["obs"], list)]
    bad_ar, _ = coq_bad("engine_arrow_regex", "chk_arrow_regex", [ecase_term(c) for c in ar])
    for j in sorted(bad_ar)[:5]:
        c = ar[j]
        rep.finding(f"arrow-regex-model:{json.dumps([c['filters'], c['table']], sort_keys=True)[:400]}:{c['obs']}",
                    f"PyArrow regex filter {json.dumps(c['filters'])} returned {c['obs']}; the model of the anchored RE2 search gives other rows", c)
        found = True
    cnt["arrow_regex_model_compared"] = len(ar)
    cnt["arrow_regex_model_disagreements"] = len(bad_ar)
    nontriv = 0
    for j, i in enumerate(s_idx):
        if j in fine_bad:                        # chk_trivial = false -> non-trivial
            nontriv += 1
            c = ec[i]
            rep.nontrivial(("e", c["fw"], c["names"], c["filters"], c["table"]))
    for c in ec:
        if not isinstance(c["obs"], list):
            rep.nontrivial(("x", c["fw"], c["names"], c["filters"], c["table"]))
    rep.add("engine", {"cases": len(ec), "framework_x_flavour": mix, "filter_types": ftmix, "sizes": sizes, "errors_observed": errs,
                       "model_compared": len(m_idx), "model_disagreements": len(badm), "spec_compared": len(spec_cases),
                       "nontrivial_results": nontriv, **cnt, **{k: v for k, v in info_m.items() if k == "cmd"}})

    # ---- end to end ----
    xc = witness_e2e_cases() + e2e_cases(rng, 1000 if big else 64)
    rep.count(len(xc))
    per_group: List[Dict[str, Any]] = []
    ctx: List[Dict[str, Any]] = []
    e2e_err: Dict[str, int] = {}
    err_runs = []
    for c in xc:
        gcs = [{**g, "fw": c["fw"], "e2e": True} for g in e2e_group_cases(c)]
        if c["result"]["error"]:
            k = c["fw"] + ":" + c["result"]["error"][:40]
            e2e_err[k] = e2e_err.get(k, 0) + 1
            err_runs.append((c, gcs))
        else:
            for g in gcs:
                per_group.append(g)
                ctx.append(c)
    nv, cnt = classify_spec_cases(rep, "e2e", per_group, ctx)
    found = found or nv > 0
    # a failed run is judged as a whole: the error must be explained by a known-finding domain of one of its groups
    flat = [g for _, gcs in err_runs for g in gcs]
    ok_empty = set(range(len(flat))) - coq_bad("e2e_err_empty", "chk_py_empty", [ecase_term(g) for g in flat])[0]
    ok_untyped = set(range(len(flat))) - coq_bad("e2e_err_untyped", "chk_pa_untyped", [ecase_term(g) for g in flat])[0]
    pos = 0
    for c, gcs in err_runs:
        rng_idx = range(pos, pos + len(gcs))
        pos += len(gcs)
        if c["fw"] == "pa" and c["result"]["error"] == "ArrowType" and any(i in ok_untyped and untyped_on_string_column(flat[i]) for i in rng_idx):
            cnt["kf_arrow_untyped_values"] += 1
            rep.finding("C11-pyarrow-isin-untyped-values", "PyArrow is_in raised ArrowTypeError for an empty / all-None value list", c)
        elif c["fw"] == "py" and c["result"]["error"] == "Empty" and any(i in ok_empty for i in rng_idx):
            cnt["kf_pydict_empty"] += 1
            rep.finding("C11-pydict-empty-result-raises", "PythonDict run failed because a filtered result is empty", c)
        else:
            cnt["violations"] += 1
            rep.finding(f"e2e-error:{c['fw']}:{json.dumps(c['filters'])[:300]}:{c['result']['error'][:60]}",
                        f"run_all on {c['fw']} with global filters {json.dumps(c['filters'])} failed with {c['result']['error']}", c)
            found = True
    normal_pg = list(zip(per_group, ctx))
    tb, _ = coq_bad("e2e_triv", "chk_trivial", [ecase_term(g) for g, _ in normal_pg])
    for j, (g, x) in enumerate(normal_pg):
        if j in tb:
            rep.nontrivial(("r", g["fw"], g["names"], g["filters"], g["table"], g["request"]))
    allg = per_group + flat
    with_col = sum(1 for g in allg if any(f["col"] in g["names"] for f in g["filters"]))
    rep.add("e2e", {"runs": len(xc), "requested_columns_judged": len(per_group), "failed_runs_judged_as_a_whole": len(err_runs), "groups_exposing_a_filter_column": with_col,
                    "groups_without_any_filter_column": len(allg) - with_col,
                    "frameworks": {fw: sum(1 for c in xc if c["fw"] == fw) for fw in ("pa", "py", "pdo", "pd")},
                    "with_derived_group": sum(1 for c in xc if c["derived"]), "run_errors": e2e_err, "nontrivial_results": len(tb), **cnt})

    # ---- end to end, several requested features with differing options (planner glue) ----
    mc = multi_cases(rng, 30 if big else 2)
    rep.count(len(mc))
    m_cnt = {"runs": len(mc), "requested_features_judged": 0, "direct_disagreements": 0, "coq_spec_mismatches_incl_known_finding_domain": 0, "plan_steps_checked": 0,
             "plan_glue_failures": 0, "kf_context_options_rejected": 0, "kf_context_options_filter_skipped": 0,
             "kf_context_options_plan_steps": 0, "kf_pydict_empty": 0, "violations": 0,
             "schemes": {}, "fwmodes": {}, "same_group_requests": 0, "different_group_requests": 0, "features_per_request": {},
             "filters_per_request": {}, "feature_sets_per_run": {}}
    spec_terms: List[str] = []
    spec_ctx: List[Tuple[Dict[str, Any], str, Any, List[int]]] = []
    glue_terms: List[str] = []
    glue_ctx: List[Tuple[Dict[str, Any], Dict[str, Any]]] = []
    for c in mc:
        res = c["result"]
        m_cnt["schemes"][c["scheme"]] = m_cnt["schemes"].get(c["scheme"], 0) + 1
        m_cnt["fwmodes"][c["fwmode"]] = m_cnt["fwmodes"].get(c["fwmode"], 0) + 1
        gs = {next(g["name"] for g in c["groups"] if r["name"] in g["vcols"]) for r in c["request"]}
        m_cnt["same_group_requests" if len(gs) == 1 else "different_group_requests"] += 1
        for key, val in (("features_per_request", len(c["request"])), ("filters_per_request", len(c["filters"]))):
            m_cnt[key][str(val)] = m_cnt[key].get(str(val), 0) + 1
        if res["plan"] is not None:
            nfs = str(sum(1 for st in res["plan"] if st["requested"]))
            m_cnt["feature_sets_per_run"][nfs] = m_cnt["feature_sets_per_run"].get(nfs, 0) + 1
        if res["error"]:
            if res["error"] == "DifferentFilters" and context_conflict(c):
                m_cnt["kf_context_options_rejected"] += 1
                rep.finding("C11-context-options-filter-lost", "request with differing context options and a global filter rejected", c)
            elif res["error"] == "Empty" and any(g["fw"] == "py" and not py_expected_ids(list(g["cols"]), c["filters"], g["table"])
                                                 for g in c["groups"]):
                m_cnt["kf_pydict_empty"] += 1
                rep.finding("C11-pydict-empty-result-raises", "PythonDict run failed because a filtered result is empty", c)
            else:
                m_cnt["violations"] += 1
                rep.finding(f"multi-error:{c['scheme']}:{c['fwmode']}:{json.dumps(c['request'])[:200]}:{res['error'][:60]}",
                            f"run_all of {json.dumps(c['request'])} with global filters {json.dumps(c['filters'])} failed with {res['error']}", c)
                found = True
            continue
        for r in c["request"]:
            g = next(g for g in c["groups"] if r["name"] in g["vcols"])
            obs = res["ids"].get(r["name"])
            want = py_expected_ids(list(g["cols"]), c["filters"], g["table"])
            m_cnt["requested_features_judged"] += 1
            if obs != want and r["opt"]["context"] and obs == [x["id"][1] for x in g["table"]]:
                # known-finding domain: the requested feature carries a context option -> every filter of its step is skipped
                m_cnt["kf_context_options_filter_skipped"] += 1
                rep.finding("C11-context-options-filter-lost", "global filters skipped for a requested feature with a context option", c)
            elif obs != want:
                m_cnt["direct_disagreements"] += 1
                m_cnt["violations"] += 1
                if m_cnt["direct_disagreements"] <= 5:
                    rep.finding(f"multi:{c['scheme']}:{c['fwmode']}:{json.dumps(c['request'])[:300]}:{r['name']}:{obs}",
                                f"request {json.dumps(c['request'])} with global filters {json.dumps(c['filters'])}: feature {r['name']!r} of group "
                                f"{g['name']} ({g['fw']}) returned rows {obs}; the rows satisfying every applicable filter are {want}", c)
                found = True
            t_full, kinds = full_table(g)
            spec_terms.append(ecase_term({"names": ["id"] + list(kinds), "filters": c["filters"], "table": g["table"],
                                          "obs": obs if obs is not None else "Missing"}))
            spec_ctx.append((c, r["name"], obs, want))
            if 0 < len(want) < len(g["table"]):
                rep.nontrivial(("m", c["scheme"], c["fwmode"], c["request"], c["filters"], g["table"], r["name"]))
        for st in res["plan"] or []:
            if not st["requested"]:
                continue
            g = next(g for g in c["groups"] if g["name"] == st["group"])
            _, kinds = full_table(g)
            foreign = '{| f_col := "?"; f_type := FCustom; f_par := {| p_value := None; p_values := None; p_min := None; p_max := None; p_excl := false |} |}'
            fsS = [foreign if i is None else cq_filter(c["filters"][i]) for i in st["filters"]]
            glue_terms.append(f"({cq_list(cq_str(n) for n in ['id'] + list(kinds))}, {cq_list(cq_str(n) for n in st['names'])}, "
                              f"{cq_list(fsS)}, {cq_list(cq_filter(f) for f in c['filters'])})")
            glue_ctx.append((c, st))
    bad_s, _ = coq_bad("multi_spec", "chk_spec", spec_terms)
    for i in sorted(bad_s):
        c, name, obs, want = spec_ctx[i]
        m_cnt["coq_spec_mismatches_incl_known_finding_domain"] += 1
        if obs == want:                 # the Python predicate agreed but the Coq spec does not: report as well
            m_cnt["violations"] += 1
            rep.finding(f"multi-spec:{c['scheme']}:{c['fwmode']}:{json.dumps(c['request'])[:300]}:{name}:{obs}",
                        f"request {json.dumps(c['request'])} with global filters {json.dumps(c['filters'])}: feature {name!r} returned rows {obs}, "
                        "which Spec/Filter.expected does not give", c)
            found = True
    bad_g, _ = coq_bad("multi_glue", "chk_glue", glue_terms, ty="list string * list string * list filt * list filt")
    m_cnt["plan_steps_checked"] = len(glue_terms)
    for i in sorted(bad_g):
        c, st = glue_ctx[i]
        if any(r["opt"]["context"] for r in c["request"] if r["name"] in st["requested"]):
            m_cnt["kf_context_options_plan_steps"] += 1
            rep.finding("C11-context-options-filter-lost", "plan step of a feature with a context option lacks the filter column", c)
            continue
        m_cnt["plan_glue_failures"] += 1
        m_cnt["violations"] += 1
        if m_cnt["plan_glue_failures"] <= 5:
            rep.finding(f"multi-plan:{c['scheme']}:{c['fwmode']}:{json.dumps(c['request'])[:300]}:{json.dumps(st)[:200]}",
                        f"plan for request {json.dumps(c['request'])} with global filters {json.dumps(c['filters'])}: the step of group {st['group']} "
                        f"holding {st['requested']} has feature names {st['names']} and filters {st['filters']} (indices into the global filters); "
                        "it must carry every global filter whose column the group exposes and have that column among its names", c)
        found = True
    rep.add("multi_feature_e2e", m_cnt)

    # ---- the path add_filter -> engine column: renamed filter features (harness/c11_path.py) ----
    from harness import c11_path
    found = c11_path.run(rep, rng, big) or found

    # ---- witness: a filter feature with options of its own (outcome depends on set order; fresh interpreters) ----
    ow = own_options_witness()
    rep.count(len(ow["own"]) + len(ow["plain"]))
    rep.add("witness_filter_feature_own_options", ow)
    flat_own = [x for r in ow["own"].values() for x in r]
    flat_plain = [x for r in ow["plain"].values() for x in r]
    if any(x != ow["expected"] for x in flat_plain):
        rep.finding("own-options-control", f"control (filter feature without own options) returned {flat_plain}, expected {ow['expected']}", ow)
        found = True
    if any(x == [23, 43, 73] for x in flat_own):
        rep.finding("C11-filter-feature-own-options", "a second global filter is not applied when another filter feature carries own options", ow)
    if any(x not in ([23, 43], [23, 43, 73]) for x in flat_own):
        rep.finding("own-options-other", f"filter feature with own options: unexpected outcomes {flat_own}", ow)
        found = True

    # ---- time ----
    tc = time_cases(rng, 4000 if big else 260)
    rep.count(len(tc))
    badt, info_t = coq_bad("time", "chk_time", [time_term(c["dt"], c["off_us"], c["obs"]) for c in tc], ty="dt * tobs", shard=400)
    for i in sorted(badt)[:5]:
        rep.finding(f"time:{json.dumps(tc[i]['dt'], sort_keys=True)}:{tc[i]['obs']}",
                    f"_check_and_convert_time_info({tc[i]['dt']}) gave {tc[i]['obs']}; the model of the UTC conversion gives another answer", tc[i])
        found = True
    # the same instant in another zone: model on the second writing + direct comparison of the two real strings
    oc = [c for c in tc if "other" in c]
    bado, _ = coq_bad("time_other", "chk_time", [time_term(c["other"], c["other"]["off_us"], c["obs"]) for c in oc], ty="dt * tobs", shard=400)
    nz = 0
    for j, c in enumerate(oc):
        if (j in bado or not c["same_instant_same_string"]) and nz < 5:
            nz += 1
            rep.finding(f"time-zone:{json.dumps(c['dt'], sort_keys=True)}:{c['other_zone']}",
                        f"the instant {c['dt']} written in zone {c['other_zone']} is converted to a different string", c)
            found = True
    for c in tc:
        if c["obs"].startswith("S:") and c["off_us"] not in (0, None):
            rep.nontrivial(("t", c["dt"]))
    zc: Dict[str, int] = {}
    for c in tc:
        z = c["dt"].get("zone") or ("fixed" if c["dt"].get("fixed_us") is not None else "naive")
        zc[z] = zc.get(z, 0) + 1
    rep.add("time", {**info_t, "cases": len(tc), "zones": zc, "same_instant_pairs": len(oc),
                     "outcomes": {k: sum(1 for c in tc if c["obs"].split(":")[0] == k) for k in ("S", "ValueError", "OverflowError")},
                     "disagreements": len(badt) + len(bado)})

    te = time_e2e_cases(rng, 200 if big else 24)
    rep.count(len(te))
    t_terms, t_ctx, t_cases = [], [], []
    oracle_diff = 0
    for c in te:
        res = c["result"]
        for g in c["groups"]:
            obs: Any = res["error"] if res["error"] else (res["ids"].get(g["id"]) if res["ids"].get(g["id"]) is not None else "Missing")
            t_terms.append(tcase_term(c, g, obs))
            t_ctx.append(c)
            t_cases.append({"fw": c["fw"], "obs": obs, "group": g})
            if g["id"] == "a_id" and isinstance(obs, list) and obs != c["oracle_ids"]:
                oracle_diff += 1
                rep.finding(f"time-e2e-oracle:{c['fw']}:{json.dumps(c['time'])[:300]}", f"time window {c['time']} kept rows {obs}, the rows whose "
                            f"instants lie in the window are {c['oracle_ids']}", c)
                found = True
    badz, _ = coq_bad("time_e2e", "chk_time_e2e", t_terms, ty="tcase")
    kf_t = {"kf_pydict_empty": 0}
    for i in sorted(badz):
        c, tcs = t_ctx[i], t_cases[i]
        if tcs["fw"] == "py" and tcs["obs"] == "Empty" and c["oracle_ids"] == []:
            kf_t["kf_pydict_empty"] += 1
            rep.finding("C11-pydict-empty-result-raises", "PythonDict run failed because the filtered result is empty", c)
        else:
            rep.finding(f"time-e2e:{tcs['fw']}:{json.dumps(c['time'])[:300]}:{tcs['obs']}",
                        f"time window {c['time']} on framework {tcs['fw']} returned {tcs['obs']} for group {tcs['group']['id']}", c)
            found = True
    for c in te:
        if not c["result"]["error"] and 0 < len(c["oracle_ids"]) < len(c["groups"][0]["table"]):
            rep.nontrivial(("te", c["fw"], c["time"], c["groups"][0]["table"]))
    rep.add("time_e2e", {"runs": len(te), "judged": len(t_terms), "with_validity_window": sum(1 for c in te if "valid" in c["time"][0]),
                         "frameworks": {fw: sum(1 for c in te if c["fw"] == fw) for fw in ("pa", "py", "pdo", "pd")}, "disagreements_with_spec": len(badz) - sum(kf_t.values()),
                         "disagreements_with_instant_oracle": oracle_diff, **kf_t})

    # ---- witnesses ----
    w = witness_list_parameter()
    rep.count(1)
    rep.add("witness_list_parameter", w)
    if w["tuple"] != "accepted":
        rep.finding("witness-tuple", f"add_filter with a tuple-valued parameter failed: {w['tuple']}", w)
        found = True
    if w["list"].startswith("TypeError"):
        rep.finding("C11-add-filter-list-unhashable", "add_filter with a list-valued parameter raises TypeError", w)
    elif w["list"] != "accepted":
        rep.finding("witness-list", f"add_filter with a list-valued parameter: {w['list']}", w)
        found = True

    rep.add("rule", "path families (every run; harness/c11_path.py): A multi-column features base~0.. with the base listed / not listed in "
                    "feature_names_supported, filters on one / several sub-columns, on a single-column feature, on unexposed columns, pairs "
                    "with equal type and parameter; B groups overriding set_feature_name (to one name / suffix, renamed column present / absent); "
                    "C one filter matched by two groups renaming differently (also two frameworks); D filter features with a domain; three "
                    "frameworks each; all six filter types with parameters drawn from the cells present; non-trivial = a proper non-empty "
                    "subset of the rows comes back. unit level: identity_matched_filters with own options / context options / domains / "
                    "frameworks / sub-column names; non-trivial = something matched. "
                    "multi-feature end to end (every run): 8 option schemes (none, identical, different keys, same key / different value, "
                    "with / without, context only, context vs none, same group + different context) x 5 framework modes (pa, py, pandas "
                    "default index, pandas object index, one framework per group) x 2 rounds, 2-3 requested features of the same or of "
                    "different groups, 1-2 global filters the first of which keeps a proper non-empty part of the rows; judged per "
                    "requested feature by a Python predicate and by the Coq spec, and per exported plan step by glue_okb. "
                    "engine level: PRNG tables (0..12 rows; int / mixed int+dyadic-float / float / string columns, nulls 0-100 %, "
                    "duplicates, for PythonDict also rows lacking the key), 1-3 filters of all six types with parameters drawn mostly "
                    "from the values present in the column (so bounds are hit), feature sets with / without the filter columns, "
                    "plus ill-typed, malformed, list-valued and None-member parameters; end to end: run_all over 1-2 root groups with / "
                    "without the filter columns (+ a derived group), three frameworks (Pandas with default and object column index). "
                    "non-trivial = an applicable filter and a result that is a proper non-empty subset of the rows, or an error outcome; "
                    "distinct by full input. time: aware datetimes in 14 IANA zones, fixed offsets with seconds/microseconds, naive, "
                    "overflow; non-trivial = non-zero offset and successful conversion")
    for c in (dc[0], next((c for c in ec if c["fw"] == "pa" and c["flavour"] == "fine" and not c.get("witness") and len(c["table"]) > 2), ec[0]),
              next((c for c in ec if c["fw"] == "py" and len(c["filters"]) > 1 and len(c["table"]) > 2), ec[1]),
              next((c for c in xc if not c.get("witness") and not c["result"]["error"]), xc[0]),
              next((c for c in mc if not c.get("witness") and c["scheme"] == "diffkeys"), mc[0]), tc[7],
              next((c for c in te if not c["result"]["error"]), te[0])):
        rep.sample(short(c), cap=8)
    if not pr.ok and not found:
        rep.finding("proof-broken", "Props/C11.v no longer checks",
                    {"failed_files": pr.failed_files, "forbidden": pr.forbidden, "log_tail": pr.log[-3000:]}, found_input=False)
    if not pr_path.ok and not found:
        rep.finding("proof-broken-path", "Props/C11path.v no longer checks",
                    {"failed_files": pr_path.failed_files, "forbidden": pr_path.forbidden, "log_tail": pr_path.log[-3000:]}, found_input=False)


def replay(path: str) -> int:
    r = json.load(open(path))["replay"]
    k = r.get("kind")
    if k == "srctie":
        from harness import srctie
        srctie.replay(r, show=True)
        return 0
    if k == "engine":
        c = dict(r)
        obs, order = run_engine(c)
        print("engine", r["fw"], "filters", json.dumps(r["filters"]), "names", r["names"])
        print(" table:", json.dumps(r["table"]))
        print(" now:", obs, " recorded:", r.get("obs"))
    elif k in ("e2e", "time_e2e"):
        print(k, r["fw"], "filters", json.dumps(r.get("filters")), "time", json.dumps(r.get("time")), "request", r["request"])
        for g in r["groups"]:
            print(" group", g["id"], g["cols"], json.dumps(g["table"]))
        print(" now:", run_e2e(dict(r)), " recorded:", r.get("result"), " oracle:", r.get("oracle_ids"))
    elif k == "multi":
        print("multi request", json.dumps(r["request"]), "filters", json.dumps(r["filters"]))
        for g in r["groups"]:
            print(" group", g["name"], g["fw"], g["cols"], "value columns", g["vcols"], json.dumps(g["table"]))
            print("   rows satisfying every applicable filter:", py_expected_ids(list(g["cols"]), r["filters"], g["table"]))
        now = run_multi(dict(r))
        print(" now: error", now["error"], "rows per requested feature", now["ids"], " recorded:", r.get("result", {}).get("error"), r.get("result", {}).get("ids"))
        for st in now["plan"] or []:
            print("   plan step", st)
    elif k in ("path", "match"):
        from harness import c11_path
        c11_path.replay(r)
    elif k == "witness_own_options":
        print("now:", own_options_witness(), "recorded:", r)
    elif k == "time":
        from mloda.user import GlobalFilter
        try:
            now = GlobalFilter()._check_and_convert_time_info(mk_dt(r["dt"]))
        except BaseException as e:  # noqa: BLE001
            now = type(e).__name__
        print("time", r["dt"], "now:", now, "recorded:", r.get("obs"))
    elif k == "witness_list":
        print("now:", witness_list_parameter(), "recorded:", r)
    elif k == "dispatch":
        print("now:", [c for c in dispatch_cases() if c["label"] == r["label"]], "recorded:", r)
    else:
        print(json.dumps(r, indent=1))
    return 0
