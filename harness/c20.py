"""C20 — extenders see every wrapped call, in priority order, without changing results.

Model: coq/Model/Extender.v, spec: coq/Spec/ExtenderSpec.v, theorems: coq/Props/C20.v.
T2 (correspondence; the Coq side is evaluated by vm_compute on the same inputs):
  composite : the real _CompositeExtender([...])(f, data, features) with recording extenders; lists of <= 4 extenders x
              priorities from {50, default(100), 150} (ties included) x behaviour {pass, raise before, raise after} x
              wrapped function {returns, raises}                               vs  composite_call
  wrapped   : the real ComputeFramework.run_calculate_feature / run_validate_input_features /
              run_validate_output_features on a real PyArrowTable object holding a *set* of <= 4 recording extenders
              (x hook subsets; iteration order = order of the wraps() calls observed)   vs  run_wrapped
  e2e       : mloda.run_all(..., function_extender={...}) on a generated chain of 2-3 feature groups in SYNC and
              THREADING; per-call logs of recording extenders vs run_calls; results with / without extenders
  e2e_modes : the same configurations in SYNC, THREADING and MULTIPROCESSING (chain, and a two-object plan); the wrapped
              calls of MULTIPROCESSING run in forked worker processes whose activations come back through a file
              (harness/mp_obs.py); vs run_calls and run_calls_in (per mode), per-copy invocation counters, and each other
Strict: the model follows the code repaired by /repo commit 50d7ec2 and is proved equal to the ideal computation
(C20_chain_ideal, C20_plan_ideal); every disagreement with it is a VIOLATION, and independently of the model every
wrapped call under a chain is checked in Python for: wrapped function executed exactly once, every extender of the
chain entered exactly once, outcome equal to the bare call's (the two former known findings are `fixed` and suppress
nothing).
"""
from __future__ import annotations

import itertools
import json
import logging
import os
import random
import re
import threading
import time
from typing import Any, Dict, List, Optional, Sequence, Tuple

from lib import vlib
from lib.vlib import cq_bool, cq_list, cq_nat, cq_z
from harness import mp_obs

LEVEL = "proof"
REQ = ["MV.Model.Modes", "MV.Model.Extender", "MV.Spec.ExtenderSpec"]
MODES3 = ["SYNC", "THREADING", "MULTIPROCESSING"]
CQ_MODE = {"SYNC": "MSync", "THREADING": "MThreading", "MULTIPROCESSING": "MMultiprocessing"}

PRIOS = [50, None, 150]          # None = attribute unset -> Extender.priority default 100
PRIOS_BOUNDARY = [0, -7, 1, 99, 100, 101, None, 50, 150]
BEHS = ["pass", "rb", "ra"]
HOOKS = ["calc", "vin", "vout"]
KINDS = ["vin", "calc", "vout"]  # order inside one step
KIND_METHOD = {"calc": "run_calculate_feature", "vin": "run_validate_input_features",
               "vout": "run_validate_output_features"}
FG_METHOD = {"calc": "calculate_feature", "vin": "validate_input_features", "vout": "validate_output_features"}
CQ_HOOK = {"calc": "HCalc", "vin": "HVin", "vout": "HVout"}
CQ_KIND = {"calc": "KCalculate", "vin": "KValidateInput", "vout": "KValidateOutput"}
CQ_BEH = {"pass": "Pass", "rb": "RaiseBefore", "ra": "RaiseAfter"}

EXTRA = """
Definition exn_eqb (a b : exn) : bool :=
  match a, b with ExtExn i, ExtExn j => Nat.eqb i j | WrappedExn, WrappedExn => true | _, _ => false end.
Definition res_eqb (a b : result nat) : bool :=
  match a, b with Ok x, Ok y => Nat.eqb x y | Err x, Err y => exn_eqb x y | _, _ => false end.
Definition comp_eqb (a b : comp nat) : bool := trace_eqb (fst a) (fst b) && res_eqb (snd a) (snd b).
Definition wres (ok : bool) : result nat := if ok then Ok 7%nat else Err WrappedExn.
(* composite level: (extender list as given, wrapped returns?) , observed *)
Definition caseA := ((list extender * bool) * comp nat)%type.
Definition mA (c : caseA) := composite_call (fst (fst c)) (wrapped (wres (snd (fst c)))).
Definition chkA_model (c : caseA) := comp_eqb (snd c) (mA c).
(* wrapped-call level: (iteration order of the set, call kind, wrapped returns?), observed *)
Definition caseB := ((list extender * kind * bool) * comp nat)%type.
Definition mB (c : caseB) := match fst c with (o, k, ok) => run_wrapped (kind_hook k) o (wrapped (wres ok)) end.
Definition chkB_model (c : caseB) := comp_eqb (snd c) (mB c).
(* plan level *)
Definition kind_eqb (a b : kind) : bool :=
  match a, b with KValidateInput, KValidateInput | KCalculate, KCalculate | KValidateOutput, KValidateOutput => true
  | _, _ => false end.
Definition call_eqb (a b : call) : bool := Nat.eqb (fst a) (fst b) && kind_eqb (snd a) (snd b).
Fixpoint log_eqb (a b : list (call * list event)) : bool :=
  match a, b with
  | [], [] => true
  | (c, t) :: a', (d, u) :: b' => call_eqb c d && trace_eqb t u && log_eqb a' b'
  | _, _ => false
  end.
Definition run_eqb (a b : list (call * list event) * bool) := log_eqb (fst a) (fst b) && Bool.eqb (snd a) (snd b).
Definition fails_of (f : option call) (c : call) : bool := match f with Some d => call_eqb c d | None => false end.
Definition caseE := ((list extender * list bool * option call) * (list (call * list event) * bool))%type.
Definition mE (c : caseE) := match fst c with (o, st, f) => run_calls o (fails_of f) (plan_calls 0 st) end.
Definition chkE_model (c : caseE) := run_eqb (snd c) (mE c).
(* plan level with the execution mode: (mode, the caller's set order, per step the iteration order of the set held by the
   step's compute-framework object, steps, failing call), observed *)
Definition caseM := ((pmode * list extender * list (nat * list extender) * list bool * option call)
                     * (list (call * list event) * bool))%type.
Definition copy_of (l : list (nat * list extender)) (d : list extender) (s : nat) : list extender :=
  match find (fun p => Nat.eqb (fst p) s) l with Some p => snd p | None => d end.
Definition mM (c : caseM) :=
  match fst c with (m, o, cp, st, f) => run_calls_in m o (copy_of cp o) (fails_of f) (plan_calls 0 st) end.
Definition chkM_model (c : caseM) := run_eqb (snd c) (mM c).
"""


# ------------------------------------------------------------------------------------------------------------
# recording machinery (harness side only; nothing in /repo changes)
# ------------------------------------------------------------------------------------------------------------
class _Recorder:
    """Events are appended to the activation of the current thread (one activation = one run_* call of a compute
    framework, set by the wrappers installed in _install_context) or to `loose` when there is none."""

    def __init__(self) -> None:
        self.tl = threading.local()
        self.lock = threading.Lock()
        self.reset()

    def reset(self) -> None:
        self.loose: List[Tuple] = []
        self.loose_wraps: List[int] = []
        self.activations: List[dict] = []

    def begin(self, fg: str, kind: str) -> dict:
        act = {"fg": fg, "kind": kind, "events": [], "wraps": [], "counts": [],
               "thread": threading.current_thread().name, "pid": os.getpid()}
        with self.lock:
            self.activations.append(act)
        stack = getattr(self.tl, "stack", None)
        if stack is None:
            stack = self.tl.stack = []
        stack.append(act)
        return act

    def end(self, act: dict) -> None:
        self.tl.stack.pop()
        if mp_obs.in_child():
            # a worker PROCESS of a MULTIPROCESSING run: this recorder is a forked copy, ship the activation to the parent
            mp_obs.emit({"ev": "act", "act": act})

    def _cur(self) -> Optional[dict]:
        stack = getattr(self.tl, "stack", None)
        return stack[-1] if stack else None

    def ev(self, e: Tuple) -> None:
        act = self._cur()
        (self.loose if act is None else act["events"]).append(e)
        if act is None and mp_obs.in_child():
            mp_obs.emit({"ev": "loose", "e": list(e)})

    def counted(self, i: int, obj: int, n: int) -> None:
        """extender i, living at address obj of this process, has now been invoked n times (its own counter)"""
        act = self._cur()
        if act is not None:
            act["counts"].append([i, obj, n])

    def wraps_called(self, i: int) -> None:
        act = self._cur()
        (self.loose_wraps if act is None else act["wraps"]).append(i)


REC = _Recorder()
_installed = False
SENTINEL_MSG_EXT = "C20X|"
SENTINEL_MSG_WRAPPED = "C20W"


class _LogHandler(logging.Handler):
    """Sees logging.error(...) of _CompositeExtender's except branch: '<class name> <ext.name> <message>'."""

    def emit(self, record: logging.LogRecord) -> None:
        try:
            m = re.match(r"Rec20 x(\d+) ", record.getMessage())
        except Exception:  # noqa: BLE001
            return
        if m:
            REC.ev(("logged", int(m.group(1))))


def _install() -> None:
    global _installed
    if _installed:
        return
    _installed = True
    logging.disable(logging.INFO)
    root = logging.getLogger()
    for h in list(root.handlers):
        root.removeHandler(h)
    root.addHandler(_LogHandler())
    threading.excepthook = lambda args: None  # worker-thread tracebacks of failing runs are expected noise
    from mloda.core.abstract_plugins.compute_framework import ComputeFramework as CF
    for kind, name in KIND_METHOD.items():
        orig = getattr(CF, name)

        def patched(self: Any, feature_group: Any, features: Any, _orig: Any = orig, _kind: str = kind) -> Any:
            act = REC.begin(getattr(feature_group, "__name__", str(feature_group)), _kind)
            try:
                return _orig(self, feature_group, features)
            finally:
                REC.end(act)

        setattr(CF, name, patched)


Rec20: Any = None


def _rec_class() -> Any:
    """The recording extender class. Module-level name (harness.c20.Rec20) so that instances survive pickling: in
    THREADING mode the extender set travels through a multiprocessing manager and every compute framework object gets an
    unpickled copy."""
    global Rec20
    if Rec20 is not None:
        return Rec20
    from mloda.core.abstract_plugins.function_extender import Extender, ExtenderHook
    hk = {"calc": ExtenderHook.FEATURE_GROUP_CALCULATE_FEATURE, "vin": ExtenderHook.VALIDATE_INPUT_FEATURE,
          "vout": ExtenderHook.VALIDATE_OUTPUT_FEATURE}

    class _Rec20(Extender):
        def __init__(self, i: int, prio: Optional[int], beh: str, hooks: Sequence[str], hashv: int, via_setter: bool) -> None:
            self.i = i
            self.name = f"x{i}"
            self.beh = beh
            self.hook_names = list(hooks)
            self._h = hashv
            self.count = 0          # STATE: number of invocations of THIS object (copies made by pickling start from the value they were copied with)
            if prio is not None:
                if via_setter:
                    self.priority = prio
                else:
                    self._priority = prio

        def __hash__(self) -> int:
            return self._h

        def __eq__(self, other: object) -> bool:
            return self is other

        def wraps(self) -> Any:
            REC.wraps_called(self.i)
            return {hk[h] for h in self.hook_names}

        def __call__(self, func: Any, *a: Any, **k: Any) -> Any:
            self.count += 1
            REC.counted(self.i, id(self), self.count)
            REC.ev(("enter", self.i))
            if self.beh == "rb":
                raise RuntimeError(f"{SENTINEL_MSG_EXT}{self.i}")
            r = func(*a, **k)
            if self.beh == "ra":
                raise RuntimeError(f"{SENTINEL_MSG_EXT}{self.i}")
            REC.ev(("exit", self.i))
            return r

    _Rec20.__name__ = _Rec20.__qualname__ = "Rec20"
    _Rec20.__module__ = __name__
    Rec20 = _Rec20
    return Rec20


def make_ext(i: int, prio: Optional[int], beh: str, hooks: Sequence[str], hashv: int, via_setter: bool = False) -> Any:
    return _rec_class()(i, prio, beh, hooks, hashv, via_setter)


def slot_hashes(hr: random.Random, n: int) -> List[int]:
    """Hash values that are pairwise distinct modulo 8 (a set of <= 4 elements has 8 slots): the iteration order of the
    set is then a function of the hashes alone, also after the set was pickled and rebuilt, and varies with the PRNG."""
    slots = hr.sample(range(8), n)
    return [8 * hr.getrandbits(20) + s for s in slots]


def classify_exc(e: BaseException) -> Tuple:
    s = str(e)
    m = re.search(r"C20X\|(\d+)", s)
    if m and isinstance(e, RuntimeError) and s == f"{SENTINEL_MSG_EXT}{m.group(1)}":
        return ("ext", int(m.group(1)))
    if isinstance(e, RuntimeError) and s == SENTINEL_MSG_WRAPPED:
        return ("wrapped",)
    return ("other", type(e).__name__ + ":" + s[:80])


# ------------------------------------------------------------------------------------------------------------
# Coq printers
# ------------------------------------------------------------------------------------------------------------
def prio_val(p: Optional[int]) -> int:
    return 100 if p is None else p


def cq_ext(x: dict) -> str:
    return (f"{{| eid := {cq_nat(x['i'])}; prio := {cq_z(prio_val(x['prio']))}; "
            f"hooks := {cq_list(CQ_HOOK[h] for h in x['hooks'])}; beh := {CQ_BEH[x['beh']]} |}}")


def cq_event(e: Sequence) -> str:
    if e[0] == "call":
        return "Call"
    return {"enter": "Enter", "exit": "Exit", "logged": "Logged"}[e[0]] + " " + cq_nat(e[1])


def cq_trace(t: Sequence[Sequence]) -> str:
    return cq_list(cq_event(e) for e in t)


def cq_res(r: Sequence) -> str:
    if r[0] == "ok":
        return "Ok 7%nat"
    if r[0] == "okdiff":
        return "Ok 0%nat"
    if r[0] == "ext":
        return f"Err (ExtExn {cq_nat(r[1])})"
    if r[0] == "wrapped":
        return "Err WrappedExn"
    return "Err (ExtExn 999%nat)"  # unclassified exception: never equal to a model result (ids < 10)


def termA(c: dict) -> str:
    return f"(({cq_list(cq_ext(x) for x in c['exts'])}, {cq_bool(c['wok'])}), ({cq_trace(c['trace'])}, {cq_res(c['res'])}))"


def termB(c: dict) -> str:
    by_id = {x["i"]: x for x in c["exts"]}
    order = [by_id[i] for i in c["order"]]
    return (f"(({cq_list(cq_ext(x) for x in order)}, {CQ_KIND[c['kind']]}, {cq_bool(c['wok'])}), "
            f"({cq_trace(c['trace'])}, {cq_res(c['res'])}))")


def termM(c: dict) -> str:
    by_id = {x["i"]: x for x in c["exts"]}
    order = [by_id[i] for i in c["order"]]
    n = c["nsteps"] + (1 if c.get("shape") == "two" else 0)
    steps = cq_list([cq_bool(k > 0) for k in range(c["nsteps"])] + (["false"] if c.get("shape") == "two" else []))
    cp = cq_list(f"({cq_nat(int(k))}, {cq_list(cq_ext(by_id[i]) for i in o)})" for k, o in c["step_orders"].items() if int(k) < n)
    fail = "None" if c["fail_at"] is None else f"(Some ({cq_nat(c['fail_at'][0])}, {CQ_KIND[c['fail_at'][1]]}))"
    log = cq_list(f"(({cq_nat(s)}, {CQ_KIND[k]}), {cq_trace(t)})" for s, k, t in c["log"])
    return (f"(({CQ_MODE[c['mode']]}, {cq_list(cq_ext(x) for x in order)}, {cp}, {steps}, {fail}), "
            f"({log}, {cq_bool(c['failed'])}))")


def termE(c: dict) -> str:
    by_id = {x["i"]: x for x in c["exts"]}
    order = [by_id[i] for i in c["order"]]
    steps = cq_list([cq_bool(k > 0) for k in range(c["nsteps"])] + (["false"] if c.get("shape") == "two" else []))
    fail = "None" if c["fail_at"] is None else f"(Some ({cq_nat(c['fail_at'][0])}, {CQ_KIND[c['fail_at'][1]]}))"
    log = cq_list(f"(({cq_nat(s)}, {CQ_KIND[k]}), {cq_trace(t)})" for s, k, t in c["log"])
    return f"(({cq_list(cq_ext(x) for x in order)}, {steps}, {fail}), ({log}, {cq_bool(c['failed'])}))"


# ------------------------------------------------------------------------------------------------------------
# (A) the real _CompositeExtender
# ------------------------------------------------------------------------------------------------------------
_DATA = object()
_FEAT = object()
_RESULT = object()


def run_composite(exts: List[dict], wok: bool) -> dict:
    from mloda.core.abstract_plugins.function_extender import _CompositeExtender
    objs = [make_ext(x["i"], x["prio"], x["beh"], x["hooks"], x["i"], via_setter=bool(x["i"] % 2)) for x in exts]

    def f(data: Any, features: Any, **kw: Any) -> Any:
        REC.ev(("call",))
        if data is not _DATA or features is not _FEAT or kw != {"kw": 1}:
            raise RuntimeError("C20ARGS")
        if not wok:
            raise RuntimeError(SENTINEL_MSG_WRAPPED)
        return _RESULT

    REC.reset()
    try:
        r = _CompositeExtender(list(objs))(f, _DATA, _FEAT, kw=1)
        res: Tuple = ("ok",) if r is _RESULT else ("okdiff",)
    except Exception as e:  # noqa: BLE001
        res = classify_exc(e)
    return {"level": "composite", "exts": exts, "wok": wok, "trace": [list(e) for e in REC.loose], "res": list(res)}


def composite_space(n: int) -> List[List[dict]]:
    out = []
    for combo in itertools.product(itertools.product(PRIOS, BEHS), repeat=n):
        out.append([{"i": i, "prio": p, "beh": b, "hooks": ["calc"]} for i, (p, b) in enumerate(combo)])
    return out


def composite_cases(rng: random.Random, big: bool) -> List[dict]:
    specs: List[Tuple[List[dict], bool]] = []
    for n in range(0, 5):
        sp = composite_space(n)
        if not big and n == 3:
            sp = rng.sample(sp, 330)
        if not big and n == 4:
            sp = rng.sample(sp, 380)
        for s in sp:
            for wok in (True, False):
                specs.append((s, wok))
    return [run_composite(s, wok) for s, wok in specs]


# ------------------------------------------------------------------------------------------------------------
# (B) the real get_function_extender + the three run_* methods on a real compute framework object
# ------------------------------------------------------------------------------------------------------------
_unit_env: Dict[str, Any] = {}


def _unit_environment() -> Dict[str, Any]:
    if _unit_env:
        return _unit_env
    import pyarrow as pa
    from mloda.core.abstract_plugins.components.feature import Feature
    from mloda.core.abstract_plugins.components.feature_set import FeatureSet
    fs = FeatureSet()
    fs.add(Feature("x"))
    _unit_env.update({"data": pa.table({"x": [1, 2]}), "fs": fs, "result": pa.table({"x": [3, 4]})})
    return _unit_env


def run_wrapped_real(exts: List[dict], kind: str, wok: bool, hash_seed: int, before: Optional[List[dict]] = None) -> dict:
    """before: the SAME extender objects were first configured as `before` (priority / behaviour / hooks per index) and used
    for one call on another compute-framework object; then they are re-configured in place (public priority setter, wraps()
    answering differently) to `exts` and the observed call is made: earlier uses of the objects must not matter."""
    from uuid import uuid4
    from mloda.user import ParallelizationMode
    from mloda_plugins.compute_framework.base_implementations.pyarrow.table import PyArrowTable
    env = _unit_environment()
    hv = slot_hashes(random.Random(hash_seed), len(exts))
    first = before if before is not None else exts
    objs = {make_ext(x["i"], x["prio"], x["beh"], x["hooks"], hv[j], via_setter=bool(x["i"] % 2)) for j, x in enumerate(first)}
    if before is not None:
        cfw0 = PyArrowTable(ParallelizationMode.SYNC, frozenset(), uuid4(), function_extender=objs)
        cfw0.data = env["data"]
        FG0 = type("G20U0", (), {FG_METHOD[kind]: classmethod(lambda cls, data, features: env["result"] if kind == "calc" else True)})
        try:
            getattr(cfw0, KIND_METHOD[kind])(FG0, env["fs"])
        except Exception:  # noqa: BLE001
            pass
        by_i = {o.i: o for o in objs}
        for x in exts:
            o = by_i[x["i"]]
            o.beh, o.hook_names = x["beh"], list(x["hooks"])
            if x["prio"] is not None:
                o.priority = x["prio"]
            elif "_priority" in vars(o):
                del o._priority
            o.count = 0
    cfw = PyArrowTable(ParallelizationMode.SYNC, frozenset(), uuid4(), function_extender=objs)
    cfw.data = env["data"]

    def body(cls: Any, data: Any, features: Any) -> Any:
        REC.ev(("call",))
        if data is not env["data"] or features is not env["fs"]:
            raise RuntimeError("C20ARGS")
        if not wok:
            raise RuntimeError(SENTINEL_MSG_WRAPPED)
        return env["result"] if kind == "calc" else True

    FG = type("G20U", (), {FG_METHOD[kind]: classmethod(body)})
    REC.reset()
    try:
        r = getattr(cfw, KIND_METHOD[kind])(FG, env["fs"])
        if kind == "calc":
            res: Tuple = ("ok",) if r is env["result"] else ("okdiff",)
        else:
            res = ("ok",) if r is None else ("okdiff",)
    except Exception as e:  # noqa: BLE001
        res = classify_exc(e)
    acts = [a for a in REC.activations if a["kind"] == kind]
    trace = [list(e) for a in acts for e in a["events"]]
    order = acts[0]["wraps"] if acts else []
    ok_order = len(acts) == 1 and sorted(order) == sorted(x["i"] for x in exts)
    if not ok_order:
        order = [o.i for o in objs]
    return {"level": "wrapped", "exts": exts, "kind": kind, "wok": wok, "hash_seed": hash_seed, "order": order,
            "order_observed": ok_order, "activations": len(acts), "trace": trace, "res": list(res),
            "stray": [list(e) for e in REC.loose], **({"before": before} if before is not None else {})}


ALL_HOOKSETS = [[h for h, b in zip(HOOKS, bits) if b] for bits in itertools.product([0, 1], repeat=3)]


def wrapped_cases(rng: random.Random, big: bool) -> List[dict]:
    specs: List[Tuple[List[dict], str, bool]] = []
    per_ext = list(itertools.product(PRIOS, BEHS, ALL_HOOKSETS))  # 72
    # n = 0
    for kind in KINDS:
        for wok in (True, False):
            specs.append(([], kind, wok))
    # n = 1, 2 : full product of (priority, behaviour, hook subset) in thorough
    for n in (1, 2):
        space = list(itertools.product(per_ext, repeat=n))
        if not big:
            space = rng.sample(space, 70 if n == 1 else 330)
        for combo in space:
            exts = [{"i": i, "prio": p, "beh": b, "hooks": hs} for i, (p, b, hs) in enumerate(combo)]
            for kind in (KINDS if big else [rng.choice(KINDS)]):
                for wok in ((True, False) if big else (rng.random() < 0.75,)):
                    specs.append((exts, kind, wok))
    # n = 3, 4 : (priority, behaviour, declares the called hook?) enumerated; the other hooks of the subset random
    for n, take in ((3, None if big else 450), (4, None if big else 550)):
        space = list(itertools.product(itertools.product(PRIOS, BEHS, [True, False]), repeat=n))
        if take is not None and take < len(space):
            space = rng.sample(space, take)
        for combo in space:
            kind = rng.choice(KINDS)
            exts = []
            for i, (p, b, m) in enumerate(combo):
                hs = [h for h in HOOKS if (h == kind and m) or (h != kind and rng.random() < 0.5)]
                exts.append({"i": i, "prio": p, "beh": b, "hooks": hs})
            specs.append((exts, kind, rng.random() < 0.8))
    # boundary priorities: 0 and negative values (falsy / below every default), the explicit default 100 and its neighbours
    for _ in range(1500 if big else 200):
        n = rng.choice([2, 2, 3])
        kind = rng.choice(KINDS)
        exts = [{"i": i, "prio": rng.choice(PRIOS_BOUNDARY), "beh": rng.choice(BEHS) if rng.random() < 0.3 else "pass",
                 "hooks": [h for h in HOOKS if h == kind or rng.random() < 0.4]} for i in range(n)]
        specs.append((exts, kind, rng.random() < 0.85))
    out = []
    for k, (exts, kind, wok) in enumerate(specs):
        out.append(run_wrapped_real(exts, kind, wok, rng.getrandbits(30)))
    # the same extender OBJECTS re-configured between two uses (priority setter, other hooks / behaviour): the second use is
    # judged like a first one
    multi = [sp for sp in specs if len(sp[0]) >= 2]
    for exts, kind, wok in rng.sample(multi, min(len(multi), 600 if big else 120)):
        prios = [x["prio"] for x in exts]
        before = [{"i": x["i"], "prio": rng.choice(PRIOS), "beh": rng.choice(["pass", x["beh"]]),
                   "hooks": sorted(set(x["hooks"]) | {kind}) if rng.random() < 0.7 else [h for h in HOOKS if rng.random() < 0.5]}
                  for x in exts]
        if [b["prio"] for b in before] == prios and all(b["hooks"] == x["hooks"] for b, x in zip(before, exts)):
            before[0]["prio"] = next(p for p in PRIOS if p != prios[0])
        out.append(run_wrapped_real(exts, kind, wok, rng.getrandbits(30), before=before))
    return out


# ------------------------------------------------------------------------------------------------------------
# (C) end to end
# ------------------------------------------------------------------------------------------------------------
_E2E: Dict[str, Any] = {"fail_at": None}
_groups: List[type] = []


def e2e_groups() -> List[type]:
    if _groups:
        return _groups
    import pyarrow as pa
    import pyarrow.compute as pc
    from mloda.provider import FeatureGroup, DataCreator
    from mloda.user import Feature
    from mloda_plugins.compute_framework.base_implementations.pyarrow.table import PyArrowTable

    from mloda_plugins.compute_framework.base_implementations.pandas.dataframe import PandasDataFrame

    def mk(k: int) -> type:
        name = f"G20_{k}"
        # G20_9: a second, independent root (its own object / worker).  G20_5 <- G20_0 and G20_6 <- G20_5 live on PandasDataFrame:
        # shape "switch" = the chain G20_0 (PyArrow) -> transform step -> G20_5 -> G20_6 (steps 0, 1, 2 of the linear plan model)
        src = None if k in (0, 9) else "G20_0" if k == 5 else f"G20_{k - 1}"
        kk = {5: 1, 6: 2}.get(k, k)
        fwc = PandasDataFrame if k in (5, 6) else PyArrowTable

        def maybe_fail(kind: str) -> None:
            REC.ev(("call",))
            if _E2E["fail_at"] == (kk, kind) and ((k in (0, 5, 6)) if _E2E.get("shape") == "switch" else (k not in (5, 6))):
                raise RuntimeError(SENTINEL_MSG_WRAPPED)

        def calculate_feature(cls: Any, data: Any, features: Any) -> Any:
            maybe_fail("calc")
            if src is None:
                return pa.table({name: [1, 2, 3]})
            if k in (5, 6):
                import pandas as pd
                return pd.DataFrame({name: [int(v) + 10 ** kk for v in data[src]]})
            return pa.table({name: pc.add(data.column(src), 10 ** k)})

        def validate_input_features(cls: Any, data: Any, features: Any) -> Any:
            maybe_fail("vin")
            return True

        def validate_output_features(cls: Any, data: Any, features: Any) -> Any:
            maybe_fail("vout")
            return None

        d: Dict[str, Any] = {"calculate_feature": classmethod(calculate_feature),
                             "validate_input_features": classmethod(validate_input_features),
                             "validate_output_features": classmethod(validate_output_features),
                             "compute_framework_rule": classmethod(lambda cls, _f=fwc: {_f})}
        if src is None:
            d["input_data"] = classmethod(lambda cls: DataCreator({name}))
        else:
            d["input_features"] = lambda self, options, feature_name, _s=src: {Feature(_s)}
        # module attribute harness.dynclasses.G20_k: MULTIPROCESSING pickles every step (with its feature group class, by
        # reference) through the worker's command queue
        return mp_obs.register_class(type(name, (FeatureGroup,), d), name)

    _groups.extend(mk(k) for k in (0, 1, 2, 9, 5, 6))
    return _groups


_SINK: List[Any] = []


def _sink() -> Any:
    if not _SINK:
        _SINK.append(mp_obs.Sink(str(vlib.BUILD / "C20" / "mp" / f"acts_{os.getpid()}.jsonl")))
    return _SINK[0]


KF_UNPICKLABLE = "C20-unpicklable-extender-rejected-outside-sync"


def run_e2e(exts: List[dict], nsteps: int, mode: str, fail_at: Optional[Tuple[int, str]], hash_seed: int,
            shape: str = "chain", attach_lock: bool = False) -> dict:
    """One mloda.run_all with recording extenders.  shape "chain": G20_0 <- .. <- G20_{nsteps-1} on one compute-framework
    object; "two": the chain plus the independent root G20_9 (a second object: its own extender copies, and in
    MULTIPROCESSING its own worker process; counted as step number nsteps; no failing call in this shape, the two
    objects' calls interleave).  MULTIPROCESSING: the wrapped calls (and the extender copies with
    their counters) live in forked worker processes; their activations come back through the sink file and are merged
    with whatever the parent itself recorded (nothing, if the wrapped calls all run in the children)."""
    from mloda.user import mloda, Feature, PluginCollector, ParallelizationMode
    from mloda_plugins.compute_framework.base_implementations.pyarrow.table import PyArrowTable
    groups = e2e_groups()
    hv = slot_hashes(random.Random(hash_seed), len(exts))
    objs = {make_ext(x["i"], x["prio"], x["beh"], x["hooks"], hv[j], via_setter=bool(x["i"] % 2)) for j, x in enumerate(exts)}
    if attach_lock:
        for o_ in objs:
            o_.lock = threading.Lock()       # ordinary state of a thread-safe extender; cannot be pickled
    _E2E["fail_at"] = fail_at
    REC.reset()
    exc = None
    exc_msg = ""
    value = None
    status = "ok"
    n_timeouts = 0
    kw: Dict[str, Any] = {}
    sink = None
    if mode == "MULTIPROCESSING":
        from harness.orch import flight_server
        kw["flight_server"] = flight_server()
        sink = _sink()
        sink.reset()
    mp_obs.CUR["sink"] = sink

    _E2E["shape"] = shape
    top = f"G20_{nsteps - 1}" if shape != "switch" else ("G20_5" if nsteps == 2 else "G20_6")
    fws_ = {PyArrowTable}
    if shape == "switch":
        from mloda_plugins.compute_framework.base_implementations.pandas.dataframe import PandasDataFrame
        from harness.universe import load_transformers
        load_transformers()
        fws_ = {PyArrowTable, PandasDataFrame}

    def call() -> Any:
        return mloda.run_all([Feature(top)] + ([Feature("G20_9")] if shape == "two" else []),
                             compute_frameworks=fws_,
                             plugin_collector=PluginCollector.enabled_feature_groups(set(groups)),
                             parallelization_modes={ParallelizationMode[mode]},
                             function_extender=objs if exts is not None else None, **kw)
    t0 = time.time()
    try:
        if mode == "MULTIPROCESSING":
            def again() -> None:
                REC.reset()
                sink.reset()
            status, res, n_timeouts = mp_obs.watchdog_retry(call, 30.0, again)
            if status == "raised":
                raise res
            if status == "hang":
                exc = "HANG"
        else:
            res = call()
        if status == "ok":
            value = sorted(json.dumps(r.to_pydict() if hasattr(r, "to_pydict") else {c_: [int(v) for v in r[c_]] for c_ in r.columns}, sort_keys=True) for r in res)
    except Exception as e:  # noqa: BLE001
        exc = type(e).__name__
        exc_msg = str(e)[-160:]
    finally:
        _E2E["fail_at"] = None
        mp_obs.CUR["sink"] = None
    wall = time.time() - t0
    acts = list(REC.activations)
    stray = [list(e) for e in REC.loose]
    n_parent = len(acts)
    pids = {os.getpid()} if acts else set()
    if sink is not None:
        for line in sink.read():
            if line["ev"] == "act":
                acts.append(line["act"])
                pids.add(line["pid"])
            elif line["ev"] == "loose":
                stray.append(line["e"])
    log = []
    orders = []
    step_orders: Dict[int, List[List[int]]] = {}
    counts: Dict[str, List[int]] = {}      # "<extender>@<pid>:<address>" -> successive counter values
    for a in acts:
        m = re.fullmatch(r"G20_(\d)", a["fg"])
        k = int(m.group(1)) if m else 99
        k = nsteps if k == 9 else {5: 1, 6: 2}.get(k, k)
        if a["events"]:
            log.append([k, a["kind"], [list(e) for e in a["events"]]])
        if a["wraps"]:
            orders.append(a["wraps"])
            step_orders.setdefault(k, []).append(a["wraps"])
        for i, obj, n in a.get("counts", []):
            counts.setdefault(f"{i}@{a.get('pid')}:{obj}", []).append(n)
    if shape == "two":
        log.sort(key=lambda e: e[0])       # stable: the calls of one step keep their observed order
    ids = sorted(x["i"] for x in exts)
    good = [o for o in orders if sorted(o) == ids]
    order = good[0] if good else [o.i for o in objs]
    return {"level": "e2e", "exts": exts, "nsteps": nsteps, "shape": shape, "mode": mode, "fail_at": list(fail_at) if fail_at else None,
            "hash_seed": hash_seed, "order": order, "orders_agree": all(o == order for o in orders),
            "step_orders": {str(k): v[0] for k, v in sorted(step_orders.items()) if sorted(v[0]) == ids},
            "step_orders_stable": all(all(o == v[0] for o in v) for v in step_orders.values()),
            "log": log, "failed": exc is not None, "exc": exc, "value": value, "stray": stray,
            "threads": len({(a.get("pid"), a["thread"]) for a in acts}),
            "processes": len(pids), "acts_in_parent": n_parent, "acts_in_children": len(acts) - n_parent,
            "counts": counts, "caller_counts": sorted([o.i, o.count] for o in objs), "wall": round(wall, 3),
            "timeouts": n_timeouts, "exc_msg": exc_msg, "attach_lock": attach_lock}


def e2e_specs(rng: random.Random, n_cases: int) -> List[Tuple[List[dict], int, Optional[Tuple[int, str]]]]:
    out = []
    for ci in range(n_cases):
        n = rng.choice([1, 2, 2, 3, 3, 4, 4, 4]) if ci % 12 else 0
        style = rng.random()
        exts = []
        for i in range(n):
            if style < 0.4:
                b = "pass"
            elif style < 0.7:
                b = rng.choice(["pass", "pass", "rb"])
            else:
                b = rng.choice(BEHS)
            hs = [h for h in HOOKS if rng.random() < 0.75]
            exts.append({"i": i, "prio": rng.choice(PRIOS), "beh": b, "hooks": hs})
        nsteps = rng.choice([2, 3, 3])
        fail_at = None
        if rng.random() < 0.15:
            k = rng.randrange(nsteps)
            fail_at = (k, rng.choice(["calc", "vout"] if k == 0 else KINDS))
        out.append((exts, nsteps, fail_at))
    return out


# ------------------------------------------------------------------------------------------------------------
def n_matching(c: dict) -> int:
    if c["level"] == "composite":
        return len(c["exts"])
    return sum(1 for x in c["exts"] if c["kind"] in x["hooks"])


def describe(c: dict) -> str:
    if c["level"] == "e2e":
        per = "; ".join(f"step{s}.{k}: calls={sum(1 for e in t if e[0] == 'call')} enter={[e[1] for e in t if e[0] == 'enter']}"
                        for s, k, t in c["log"])
        return (f"run_all mode={c['mode']} shape={c.get('shape', 'chain')} steps={c['nsteps']} fail_at={c['fail_at']} extenders="
                f"{[(x['i'], prio_val(x['prio']), x['beh'], x['hooks']) for x in c['exts']]} set order {c['order']}: "
                f"failed={c['failed']} ({c['exc']}); {per}")
    t = c["trace"]
    return (f"{c['level']} kind={c.get('kind', '-')} wrapped_returns={c['wok']} extenders="
            f"{[(x['i'], prio_val(x['prio']), x['beh'], x['hooks']) for x in c['exts']]} order={c.get('order')}: result={c['res']} "
            f"wrapped calls={sum(1 for e in t if e[0] == 'call')} enter order={[e[1] for e in t if e[0] == 'enter']} "
            f"exit order={[e[1] for e in t if e[0] == 'exit']} logged={[e[1] for e in t if e[0] == 'logged']}")


def direct_check(exts: List[dict], order: List[int], trace: List[List], chain: bool, wok: bool) -> Optional[str]:
    """The property itself on one wrapped call, without the model. exts = the extenders wrapping this call, order = the
    order in which the set was iterated (or the list order), chain = they are protected by _CompositeExtender,
    wok = the wrapped function returns."""
    ncalls = sum(1 for e in trace if e[0] == "call")
    enters = [e[1] for e in trace if e[0] == "enter"]
    exits = [e[1] for e in trace if e[0] == "exit"]
    logged = sorted(e[1] for e in trace if e[0] == "logged")
    by_id = {x["i"]: x for x in exts}
    if not chain:
        if not exts and (ncalls != 1 or enters or logged):
            return f"no extender wraps the call but calls={ncalls} enters={enters} logged={logged}"
        return None
    if ncalls == 0:
        return "wrapped call lost: the wrapped function was not executed under a chain"
    if ncalls != 1:
        return f"wrapped function executed {ncalls} times under a chain (expected exactly once)"
    expect = sorted((i for i in order if i in by_id), key=lambda i: prio_val(by_id[i]["prio"]))  # stable, like sorted()
    if enters != expect:
        return f"enter order {enters} differs from 'every extender once in ascending priority order' {expect}"
    want_exits = [i for i in reversed(expect) if by_id[i]["beh"] == "pass"] if wok else []
    if exits != want_exits:
        return f"exit order {exits} differs from {want_exits}"
    want_logged = sorted(i for i in by_id if by_id[i]["beh"] == "rb" or (wok and by_id[i]["beh"] == "ra"))
    if logged != want_logged:
        return f"logged extenders {logged} differ from exactly the raising extenders {want_logged}"
    return None


def strict_level(rep: vlib.Reporter, level: str, cases: List[dict], terms: List[str], prefix: str, case_type: str) -> Dict[str, Any]:
    bad_model, info = vlib.run_cases("C20", f"{level}_model", REQ, f"chk{prefix}_model", terms, case_type=case_type,
                                     extra_defs=EXTRA, shard=350)
    return {"info": info, "violations": sorted(bad_model)}


def chain_exts(c: dict, kind: Optional[str] = None) -> List[dict]:
    if c["level"] == "composite":
        return c["exts"]
    k = kind or c["kind"]
    return [x for x in c["exts"] if k in x["hooks"]]


def run(rep: vlib.Reporter, tier: str, seed: int) -> None:
    rng = random.Random(seed * 7919 + 20)
    big = tier == "thorough"
    pr = vlib.build_props("C20")
    rep.proof(pr)
    rep.coverage["trusted_base"] += [
        "hand-written model Model/Extender.v of _CompositeExtender.__init__/__call__ (make_wrapper with tracked_inner, "
        "try/except, fallback; code after /repo fix 50d7ec2), "
        "ComputeFramework.get_function_extender and the three run_* wrappers; tied by correspondence (T2) on the inputs "
        "listed under coverage",
        "recording extenders (harness/c20.py: Rec20) are deterministic and pass arguments through unchanged; their only state is an "
        "invocation counter (per object: outside SYNC every compute-framework object works on unpickled copies); "
        "calling a function twice is modelled as using its trace twice",
        "MULTIPROCESSING: activations are recorded inside the forked worker processes by the same class-level wrappers (start "
        "method fork, checked) and appended to a file the parent reads after the run; held / run_calls_in (Model/Extender.v) "
        "model which extender set a compute-framework object holds per mode, the per-step iteration orders are observed",
        "except Exception catches every exception raised by the generated extenders / wrapped functions (RuntimeError); a "
        "recording extender calls through at most once and never swallows the wrapped function's exception",
        "observation: per-thread context set by harness-side wrappers around ComputeFramework.run_calculate_feature / "
        "run_validate_input_features / run_validate_output_features; logging.error observed through a root log handler; "
        "set iteration order observed as the order of the wraps() calls",
        "Python sorted() is stable (model: insertion sort, stability proved: stable_wrt)"]
    _install()
    found = False
    dist: Dict[str, Any] = {}

    def violation(key: str, what: str, c: dict) -> None:
        nonlocal found
        rep.finding(key, what, c)
        found = True

    def handle(level: str, cases: List[dict], terms: List[str], prefix: str, ty: str) -> None:
        r = strict_level(rep, level, cases, terms, prefix, ty)
        rep.count(len(cases))
        rep.add(level, {**r["info"], "cases": len(cases), "disagreements_with_model": len(r["violations"])})
        for i in r["violations"][:6]:
            c = cases[i]
            violation(f"{level}:{json.dumps([c['exts'], c.get('kind'), c.get('wok'), c.get('order'), c.get('mode'), c.get('fail_at'), c.get('nsteps')])}",
                      "observed behaviour differs from the model of the extender chain: " + describe(c), c)

    def direct(level: str, cases: List[dict]) -> None:
        """property evaluated directly on the observation (no model): never lost, never repeated, order, outcome"""
        nbad, nchain = 0, 0
        for c in cases:
            msgs = []
            if c["level"] == "e2e":
                for s_, k, t in c["log"]:
                    m = chain_exts(c, k)
                    failing = c["fail_at"] is not None and tuple(c["fail_at"]) == (s_, k)
                    nchain += len(m) >= 2
                    msg = direct_check(m, c["order"], t, len(m) >= 2, not failing)
                    if msg:
                        msgs.append(f"step {s_} {k}: {msg}")
            else:
                m = chain_exts(c)
                chain = level == "composite" or len(m) >= 2
                nchain += chain
                order = c.get("order") or [x["i"] for x in c["exts"]]
                msg = direct_check(m, order, c["trace"], chain, c["wok"])
                if msg:
                    msgs.append(msg)
                if chain and c["res"] != (["ok"] if c["wok"] else ["wrapped"]):
                    msgs.append(f"outcome {c['res']} differs from the bare call's ({'value' if c['wok'] else 'its own exception'})")
            if msgs:
                nbad += 1
                if nbad <= 6:
                    violation(f"{level}-property:{json.dumps([c['exts'], c.get('kind'), c.get('wok'), c.get('order'), c.get('mode'), c.get('fail_at')])}",
                              "; ".join(msgs) + " -- " + describe(c), c)
        rep.coverage[level]["direct_property_checks_on_chains"] = nchain
        rep.coverage[level]["direct_property_failures"] = nbad

    # ---- (A)
    ca = composite_cases(rng, big)
    handle("composite", ca, [termA(c) for c in ca], "A", "caseA")
    direct("composite", ca)
    for c in ca:
        if len(c["exts"]) >= 2:
            rep.nontrivial(("A", c["exts"], c["wok"]))
    dist["composite_by_size"] = {str(n): sum(1 for c in ca if len(c["exts"]) == n) for n in range(5)}
    dist["composite_results"] = _hist(c["res"][0] for c in ca)
    dist["composite_max_wrapped_calls"] = max(sum(1 for e in c["trace"] if e[0] == "call") for c in ca)
    dist["composite_with_raise_after"] = sum(1 for c in ca if any(x["beh"] == "ra" for x in c["exts"]))
    rep.coverage["composite"]["exhaustive"] = big

    # ---- (B)
    cb = wrapped_cases(rng, big)
    handle("wrapped", cb, [termB(c) for c in cb], "B", "caseB")
    direct("wrapped", cb)
    for c in cb:
        if n_matching(c) >= 2:
            rep.nontrivial(("B", c["exts"], c["kind"], c["wok"], c["order"]))
    dist["wrapped_by_size"] = _hist(len(c["exts"]) for c in cb)
    dist["wrapped_by_matching"] = _hist(n_matching(c) for c in cb)
    dist["wrapped_by_kind"] = _hist(c["kind"] for c in cb)
    dist["wrapped_results"] = _hist(c["res"][0] for c in cb)
    dist["wrapped_chain_with_raise_after"] = sum(1 for c in cb if n_matching(c) >= 2 and any(x["beh"] == "ra" for x in chain_exts(c)))
    dist["wrapped_chain_with_raising_wrapped_function"] = sum(1 for c in cb if n_matching(c) >= 2 and not c["wok"])
    dist["wrapped_with_priority_tie_in_chain"] = sum(1 for c in cb if _tie(c))
    dist["wrapped_iteration_order_not_identity"] = sum(1 for c in cb if c["order"] != sorted(c["order"]))
    dist["wrapped_order_not_observed"] = sum(1 for c in cb if not c["order_observed"])
    for c in cb:
        if c["stray"] or c["activations"] != 1:
            violation(f"wrapped-context:{json.dumps(c['exts'])}:{c['kind']}",
                      f"events outside the expected single {KIND_METHOD[c['kind']]} activation: " + describe(c), c)

    # ---- (C)
    specs = e2e_specs(rng, 1200 if big else 120)
    baseline: Dict[Tuple[int, str], Any] = {}
    ce: List[dict] = []
    for mode in ("SYNC", "THREADING"):
        for nsteps in (2, 3):
            b = run_e2e([], nsteps, mode, None, 0)
            baseline[(nsteps, mode)] = b["value"]
            if b["failed"] or b["value"] is None:
                violation(f"e2e-baseline:{nsteps}:{mode}", "run without extenders failed: " + describe(b), b)
        for exts, nsteps, fail_at in specs:
            ce.append(run_e2e(exts, nsteps, mode, fail_at, rng.getrandbits(30)))
    handle("e2e", ce, [termE(c) for c in ce], "E", "caseE")
    direct("e2e", ce)
    changed = 0
    for c in ce:
        if any(len(chain_exts(c, k)) >= 2 for k in HOOKS):
            rep.nontrivial(("E", c["exts"], c["nsteps"], c["mode"], c["fail_at"], c["order"]))
        if not c["failed"] and c["value"] != baseline[(c["nsteps"], c["mode"])]:
            changed += 1
            violation(f"e2e-result:{json.dumps([c['exts'], c['nsteps'], c['mode']])}",
                      "result with extenders differs from the result without: " + describe(c), c)
        if c["stray"] or not c["orders_agree"]:
            violation(f"e2e-context:{json.dumps([c['exts'], c['nsteps'], c['mode']])}",
                      "extender events outside a run_* call or varying set iteration order: " + describe(c), c)
    dist["e2e_by_mode"] = _hist(c["mode"] for c in ce)
    dist["e2e_failed_runs"] = sum(1 for c in ce if c["failed"])
    dist["e2e_with_failing_wrapped"] = sum(1 for c in ce if c["fail_at"])
    dist["e2e_all_pass"] = sum(1 for c in ce if all(x["beh"] == "pass" for x in c["exts"]))
    dist["e2e_calls_logged"] = sum(len(c["log"]) for c in ce)
    dist["e2e_threads_used_max"] = max((c["threads"] for c in ce if c["mode"] == "THREADING"), default=0)
    dist["e2e_results_changed"] = changed
    rep.add("distribution", dist)

    # ---- (D) the same extender configurations under every execution mode: SYNC / THREADING / MULTIPROCESSING
    # (wrapped calls of MULTIPROCESSING run in forked worker processes; their activations are shipped back through a file
    #  and merged), judged by the same Coq checker chkE_model as (C), by the mode-aware chkM_model (run_calls_in over the
    #  iteration orders the objects actually held), by the direct property check, and against each other
    t_d = time.time()
    drng = random.Random(seed * 104729 + 2020)
    specs_d = e2e_specs(drng, 600 if big else 40)
    base_d: Dict[Tuple[str, int, str], Any] = {}
    for shape in ("chain", "two", "switch"):
        for nsteps in (2, 3):
            for mode in MODES3:
                b = run_e2e([], nsteps, mode, None, 0, shape)
                base_d[(shape, nsteps, mode)] = b["value"]
                if b["failed"] or b["value"] is None:
                    violation(f"modes-baseline:{shape}:{nsteps}:{mode}", "run without extenders failed: " + describe(b), b)
            if len({json.dumps(base_d[(shape, nsteps, m)]) for m in MODES3}) != 1:
                violation(f"modes-baseline-differs:{shape}:{nsteps}", f"results without extenders differ between modes: "
                          f"{[base_d[(shape, nsteps, m)] for m in MODES3]}", {"level": "baseline", "shape": shape, "nsteps": nsteps})
    cd: List[dict] = []
    trios: List[Dict[str, dict]] = []
    for k, (exts, nsteps, fail_at) in enumerate(specs_d):
        shape = "two" if k % 3 == 2 else "switch" if k % 3 == 1 else "chain"
        if shape == "two" and any(len(m_) == 1 and m_[0]["beh"] != "pass" for m_ in ([x for x in exts if h in x["hooks"]] for h in HOOKS)):
            # a single (bare, unprotected) raising extender makes the run fail; what the OTHER object has done by then depends on
            # the schedule -- the linear plan model covers failing runs on one object only
            shape = "chain"
        if shape == "two":
            fail_at = None
        hs = drng.getrandbits(30)
        trio = {m: run_e2e(exts, nsteps, m, fail_at, hs, shape) for m in MODES3}
        trios.append(trio)
        cd.extend(trio[m] for m in MODES3)
    handle("e2e_modes", cd, [termE(c) for c in cd], "E", "caseE")
    direct("e2e_modes", cd)
    bad_m, info_m = vlib.run_cases("C20", "e2e_modes_in", REQ, "chkM_model", [termM(c) for c in cd], case_type="caseM",
                                   extra_defs=EXTRA, shard=350)
    rep.coverage["e2e_modes"]["mode_aware_model"] = {**info_m, "disagreements": len(bad_m)}
    for i in bad_m[:6]:
        c = cd[i]
        violation(f"e2e_modes_in:{json.dumps([c['exts'], c['mode'], c['shape'], c['nsteps'], c['fail_at'], c['step_orders']])}",
                  "observed run differs from run_calls_in (the model of the run in this execution mode): " + describe(c), c)
    per_mode: Dict[str, Dict[str, Any]] = {m: {"runs": 0, "failed_runs": 0, "wrapped_calls_logged": 0, "chain_calls": 0,
                                               "with_raising_extender": 0, "two_objects": 0, "processes_max": 0,
                                               "extender_copies_max": 0, "activations_in_children": 0, "activations_in_parent": 0,
                                               "caller_object_counter_total": 0, "copies_counter_total": 0, "wall_s": 0.0}
                                           for m in MODES3}
    n_cross = 0
    for c in cd:
        pm = per_mode[c["mode"]]
        pm["runs"] += 1
        pm["failed_runs"] += int(c["failed"])
        pm["wrapped_calls_logged"] += len(c["log"])
        pm["chain_calls"] += sum(1 for s_, k_, t in c["log"] if len(chain_exts(c, k_)) >= 2)
        pm["with_raising_extender"] += int(any(x["beh"] != "pass" for x in c["exts"]))
        pm["two_objects"] += int(c["shape"] == "two")
        pm["processes_max"] = max(pm["processes_max"], c["processes"])
        pm["activations_in_children"] += c["acts_in_children"]
        pm["activations_in_parent"] += c["acts_in_parent"]
        pm["wall_s"] = round(pm["wall_s"] + c["wall"], 2)
        pm["timeouts_not_reproduced_on_retry"] = pm.get("timeouts_not_reproduced_on_retry", 0) + int(c.get("timeouts", 0) == 1)
        key = [c["exts"], c["nsteps"], c["shape"], c["mode"], c["fail_at"], c["hash_seed"]]
        if any(len(chain_exts(c, k_)) >= 2 for k_ in HOOKS):
            rep.nontrivial(("D", c["exts"], c["nsteps"], c["shape"], c["mode"], c["fail_at"], c["order"]))
        if c["exc"] == "HANG":
            violation(f"modes-hang:{json.dumps(key)}", "the run did not return within 30 s, twice: " + describe(c), c)
            continue
        if not c["failed"] and c["value"] != base_d[(c["shape"], c["nsteps"], c["mode"])]:
            violation(f"modes-result:{json.dumps(key)}", "result with extenders differs from the result without: " + describe(c), c)
        if c["stray"] or not c["orders_agree"] or not c["step_orders_stable"]:
            violation(f"modes-context:{json.dumps(key)}", "extender events outside a run_* call, or the iteration order of the "
                      "extender set varied within the run: " + describe(c), c)
        # extender STATE: every copy counts its own invocations 1, 2, 3, ... (no invocation doubled or skipped on any
        # copy) and all copies together were invoked exactly as often as the merged log shows the extender entered
        enters: Dict[int, int] = {}
        for s_, k_, t in c["log"]:
            for e in t:
                if e[0] == "enter":
                    enters[e[1]] = enters.get(e[1], 0) + 1
        per_ext: Dict[int, int] = {}
        copies: Dict[int, int] = {}
        for ck, seq in c["counts"].items():
            i = int(ck.split("@")[0])
            per_ext[i] = per_ext.get(i, 0) + len(seq)
            copies[i] = copies.get(i, 0) + 1
            if seq != list(range(1, len(seq) + 1)):
                violation(f"modes-counter:{json.dumps(key)}", f"the invocation counter of extender copy {ck} ran {seq}, not 1..n: "
                          + describe(c), c)
        if per_ext != enters:
            violation(f"modes-counter-sum:{json.dumps(key)}", f"invocations counted by the extender copies {per_ext} differ from the "
                      f"enter events of the merged log {enters}: " + describe(c), c)
        pm["extender_copies_max"] = max([pm["extender_copies_max"]] + list(copies.values()))
        pm["copies_counter_total"] += sum(per_ext.values())
        pm["caller_object_counter_total"] += sum(n for _, n in c["caller_counts"])
        if c["mode"] == "SYNC" and {i: n for i, n in c["caller_counts"] if n} != enters:
            violation(f"modes-caller-counter:{json.dumps(key)}", f"SYNC: the caller's extender objects counted {c['caller_counts']} "
                      f"invocations, the log shows {enters}: " + describe(c), c)
    for trio in trios:
        a = trio["SYNC"]
        for m in ("THREADING", "MULTIPROCESSING"):
            b = trio[m]
            if b["exc"] == "HANG" or a["order"] != b["order"]:
                continue
            n_cross += 1
            if a["log"] != b["log"] or a["failed"] != b["failed"] or a["value"] != b["value"]:
                violation(f"modes-differ:{json.dumps([a['exts'], a['nsteps'], a['shape'], a['fail_at'], a['hash_seed'], m])}",
                          f"the same extender configuration behaves differently in SYNC and {m}: SYNC: " + describe(a) + f" -- {m}: " + describe(b), b)
    # an extender that holds a lock (not picklable): outside SYNC the extender set is pickled into the manager process
    wl: Dict[str, Any] = {}
    xs = [{"i": 0, "prio": 50, "beh": "pass", "hooks": ["calc", "vout"]}, {"i": 1, "prio": None, "beh": "pass", "hooks": ["calc"]}]
    ref_log = run_e2e(xs, 2, "SYNC", None, 3)["log"]          # the same two extenders without the lock
    for mode in MODES3:
        c = run_e2e(xs, 2, mode, None, 3, "chain", attach_lock=True)
        rejected = c["failed"] and c["exc"] == "TypeError" and "pickle" in c["exc_msg"] and not c["log"]
        wl[mode] = "rejected: " + c["exc_msg"][-60:] if rejected else ("failed: " + str(c["exc"]) if c["failed"] else "ok")
        if rejected and mode != "SYNC":
            rep.finding(KF_UNPICKLABLE, f"run_all in {mode} with an extender holding a threading.Lock raises {c['exc_msg']}", c)
        elif c["failed"] or c["value"] != base_d[("chain", 2, mode)] or c["log"] != ref_log:
            violation(f"modes-lock:{mode}", "extenders holding a lock: " + describe(c) + " " + c["exc_msg"], c)
    rep.coverage["e2e_modes"]["extender_holding_a_lock"] = wl
    rep.coverage["e2e_modes"]["per_mode"] = per_mode
    rep.coverage["e2e_modes"]["cross_mode_comparisons"] = n_cross
    rep.coverage["e2e_modes"]["process_start_method"] = mp_obs.start_method()
    rep.coverage["e2e_modes"]["wall_s"] = round(time.time() - t_d, 1)
    if mp_obs.start_method() != "fork":
        violation("modes-start-method", f"worker processes start with {mp_obs.start_method()!r}: harness wrappers are not inherited, "
                  "child-side observation is void", {"level": "start-method"})
    from harness.orch import stop_flight_server
    stop_flight_server()

    # ---- the two former known-finding witnesses (fixed by /repo 50d7ec2), replayed strictly on every run
    w = run_wrapped_real([{"i": 0, "prio": 50, "beh": "pass", "hooks": ["calc"]}, {"i": 1, "prio": None, "beh": "ra", "hooks": ["calc"]},
                          {"i": 2, "prio": 150, "beh": "pass", "hooks": ["calc"]}], "calc", True, 1)
    ncalls = sum(1 for e in w["trace"] if e[0] == "call")
    rep.add("witness_raise_after", {"wrapped_calls": ncalls, "trace": w["trace"], "result": w["res"]})
    if ncalls != 1 or w["res"] != ["ok"]:
        violation("witness-raise-after", f"raise-after extender in a chain: wrapped function executed {ncalls} times: " + describe(w), w)
    w2 = run_wrapped_real([{"i": i, "prio": p, "beh": "pass", "hooks": ["vin"]} for i, p in enumerate([50, None, 150])], "vin", False, 2)
    ncalls2 = sum(1 for e in w2["trace"] if e[0] == "call")
    rep.add("witness_failing_wrapped", {"wrapped_calls": ncalls2, "trace": w2["trace"], "result": w2["res"]})
    if ncalls2 != 1 or w2["res"] != ["wrapped"]:
        violation("witness-failing-wrapped", f"raising wrapped function under 3 pass-through extenders executed {ncalls2} times: " + describe(w2), w2)

    rep.add("rule", "composite: all lists of <= 4 extenders x 3 priorities (50, default 100, 150; ties) x 3 behaviours x wrapped "
                    "returns/raises (exhaustive in thorough, n<=2 exhaustive + sample in quick); wrapped: sets of <= 4 extenders on a real "
                    "PyArrowTable through the three run_* methods, n<=2 full product with all 8 hook subsets x 3 kinds x returns/raises "
                    "in thorough, n=3 all (priority, behaviour, declares-the-hook) combinations, n=4 sample; e2e: run_all on a chain of "
                    "2-3 generated groups, SYNC and THREADING; e2e_modes: 40 (quick) / 600 (thorough) PRNG configurations, each in SYNC, "
                    "THREADING and MULTIPROCESSING, two thirds on the chain, one third on a two-object plan. non-trivial = at least two "
                    "extenders wrap the same call (a real chain)")
    for c in (ca[len(ca) // 2], cb[len(cb) // 2], ce[1], ce[-1]):
        rep.sample({k: v for k, v in c.items() if k != "value"})
    if not pr.ok and not found:
        rep.finding("proof-broken", "Props/C20.v no longer checks",
                    {"failed_files": pr.failed_files, "forbidden": pr.forbidden, "log_tail": pr.log[-3000:]}, found_input=False)


def _hist(it: Any) -> Dict[str, int]:
    h: Dict[str, int] = {}
    for x in it:
        h[str(x)] = h.get(str(x), 0) + 1
    return dict(sorted(h.items()))


def _tie(c: dict) -> bool:
    m = [prio_val(x["prio"]) for x in c["exts"] if c["kind"] in x["hooks"]]
    return len(m) >= 2 and len(set(m)) < len(m)


def replay(path: str) -> int:
    r = json.load(open(path))["replay"]
    _install()
    if r.get("level") == "composite":
        now = run_composite(r["exts"], r["wok"])
    elif r.get("level") == "wrapped":
        now = run_wrapped_real(r["exts"], r["kind"], r["wok"], r["hash_seed"], before=r.get("before"))
    elif r.get("level") == "e2e":
        now = run_e2e(r["exts"], r["nsteps"], r["mode"], tuple(r["fail_at"]) if r["fail_at"] else None, r["hash_seed"],
                      r.get("shape", "chain"), attach_lock=bool(r.get("attach_lock")))
    else:
        print(json.dumps(r, indent=1))
        return 0
    print("recorded:", describe(r))
    print("now     :", describe(now))
    return 0
