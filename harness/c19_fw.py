"""C19 extension: (1) the MODEL TIE of the PyArrow / pandas glue models (coq/Model/MissingValueArrow.v,
MissingValuePandas.v, TimeWindowFw.v; theorems coq/Props/C19fw.v) and (2) direct tests of the KERNEL CONTRACTS those
theorems assume (the trusted base of C19fw): every contract is evaluated inside Coq (chk_kernel of
coq/Model/BuiltinsFwChk.v) on the recorded output of the REAL library kernel for inputs taken from the cases the check
generates anyway.

Which test covers which contract
  family of the model tie       contracts exercised THROUGH the glue
    imp:pa                      c_mean c_quantile50 c_drop_null c_value_counts c_max c_fill_null(_none) c_cast_f64 c_filter
                                c_indices_nonzero c_array
    imp:pd                      p_mean p_median p_fillna p_fillna_series p_value_counts p_idxmax p_ffill p_bfill p_groups
                                p_transform_*
    win:pa / agg:pa             cw_sort cw_take cw_agg
    win:pd / agg:pd             cd_argsort cd_iloc cd_rolling cd_apply cd_agg
  direct test (kernel:<name>)   one constructor of `kcase` per contract, see KERNELS below
"""
from __future__ import annotations

import random
from fractions import Fraction
from typing import Any, Dict, List, Optional, Sequence, Tuple

from lib import vlib
from lib.vlib import cq_bool, cq_list, cq_nat, cq_z

REQX = ["MV.Spec.Builtins", "MV.Model.MissingValuePyDict", "MV.Model.TextCleanPyDict", "MV.Model.BuiltinsFw",
        "MV.Model.BuiltinsChk", "MV.Model.MissingValueArrow", "MV.Model.MissingValuePandas", "MV.Model.TimeWindowFw",
        "MV.Model.BuiltinsFwChk"]

CQ_AGG = {"sum": "ASum", "min": "AMin", "max": "AMax", "avg": "AMean", "mean": "AMean", "count": "ACount",
          "std": "AStd", "var": "AVar", "median": "AMedian"}
CQ_FW = {"pd": "FwPd", "pa": "FwPa", "py": "FwPy"}
AGG_NAMES = ["sum", "min", "max", "mean", "count", "std", "var", "median"]


# ------------------------------------------------------------------------------------------------------------
# terms
# ------------------------------------------------------------------------------------------------------------
def cq_cell(x: Optional[Fraction]) -> str:
    return "None" if x is None else f"(sq ({x.numerator}) {x.denominator})"


def cq_col(c: Sequence[Optional[Fraction]]) -> str:
    return cq_list(cq_cell(x) for x in c)


def cq_q(x: Fraction) -> str:
    return f"(q ({x.numerator}) {x.denominator})"


def cq_nats(l: Sequence[int]) -> str:
    return cq_list(cq_nat(int(i)) for i in l)


def cq_keys(rk: Sequence[Sequence[Optional[int]]]) -> str:
    return cq_list(cq_list("None" if v is None else f"(zk ({v}))" for v in r) for r in rk)


def cq_counts(d: Sequence[Tuple[Fraction, int]]) -> str:
    return cq_list(f"(qn ({v.numerator}) {v.denominator} {cq_nat(n)})" for v, n in d)


def aggx_term(case: Dict[str, Any], fw: str, obs: Dict[str, Any]) -> str:
    col = [None if v is None else Fraction(v) for v in case["col"]]
    o = "None" if "err" in obs else "(Some " + cq_col([None if v is None else Fraction(v) for v in obs["vals"]]) + ")"
    return f"{{| ax_fw := {CQ_FW[fw]}; ax_op := {CQ_AGG[case['op']]}; ax_col := {cq_col(col)}; ax_obs := {o} |}}"


# ------------------------------------------------------------------------------------------------------------
# real kernels
# ------------------------------------------------------------------------------------------------------------
class Bad(Exception):
    pass


def _canon(v: Any, kind: str) -> Optional[Fraction]:
    from harness import c19
    r = c19.canon_cell(v, kind)
    if isinstance(r, tuple):
        raise Bad(f"unrepresentable kernel output {r[1]}")
    return r


def _pa_arr(col: Sequence[Optional[Fraction]], kind: str) -> Any:
    import pyarrow as pa
    from harness import c19
    ty = {"int": pa.int64(), "float": pa.float64(), "str": pa.string()}[kind]
    return pa.chunked_array([pa.array([c19.native_cell(v, kind) for v in col], type=ty)])


def _pd_ser(col: Sequence[Optional[Fraction]], kind: str) -> Any:
    import pandas as pd
    from harness import c19
    vals = [c19.native_cell(v, kind) for v in col]
    if kind == "str":
        return pd.Series(vals, dtype="str") if vals else pd.Series(vals)
    has_null = any(v is None for v in vals)
    return pd.Series(vals, dtype="float64" if (has_null or kind == "float") else "int64")


def _col_out(values: Sequence[Any], kind: str) -> List[Optional[Fraction]]:
    return [_canon(v, kind) for v in values]


DT = {"int": "TInt", "float": "TFloat", "str": "TStr"}


def imp_kernels(rng: random.Random, case: Dict[str, Any]) -> List[Tuple[str, str, Dict[str, Any]]]:
    """(kernel name, kcase term, replay info) for one imputation case: every kernel the PyArrow / pandas imputation glue
    calls, on this case's column / keys."""
    import numpy as np
    import pandas as pd
    import pyarrow as pa
    import pyarrow.compute as pc
    kind = case["kind"]
    col = [None if v is None else Fraction(v) for v in case["col"]]
    n = len(col)
    out: List[Tuple[str, str, Dict[str, Any]]] = []
    info = {"col": case["col"], "kind": kind}

    def add(name: str, term: str, extra: Optional[Dict[str, Any]] = None) -> None:
        out.append((name, term, dict(info, **(extra or {}))))

    a = _pa_arr(col, kind)
    s = _pd_ser(col, kind)
    cc = cq_col(col)
    if kind != "str":
        add("pc.mean", f"KMean {cc} {cq_cell(_canon(pc.mean(a).as_py(), 'float'))}")
        add("pc.quantile", f"KQuantile50 {cc} {cq_cell(_canon(pc.quantile(a, q=0.5)[0].as_py(), 'float'))}")
    add("pc.drop_null", f"KDropNull {cc} {cq_col(_col_out(pc.drop_null(a).to_pylist(), kind))}")
    vc = pc.value_counts(pc.drop_null(a))
    vcl = [(_canon(e["values"], kind), int(e["counts"])) for e in vc.to_pylist()]
    add("pc.value_counts", f"KValueCounts {cc} {cq_counts(vcl)}")
    if len(vc) > 0:
        counts = vc.field("counts")
        add("pc.max", f"KMax {cq_nats(counts.to_pylist())} {cq_nat(pc.max(counts).as_py())}")
    # pc.fill_null: with None, with a value of the column's kind, with a float
    add("pc.fill_null", f"KFillNull {DT[kind]} {cc} None {cq_col(_col_out(pc.fill_null(a, None).to_pylist(), kind))}", {"v": None})
    if kind == "str":
        v = Fraction(rng.randint(1, 4))
        o = pc.fill_null(a, chr(96 + int(v))).to_pylist()
        add("pc.fill_null", f"KFillNull TStr {cc} (Some (pv KStr ({v.numerator}) 1)) {cq_col(_col_out(o, kind))}", {"v": str(v)})
    else:
        for v, k in ((Fraction(rng.randint(-3, 5)), "KInt"), (Fraction(rng.randint(-12, 20), 4), "KFloat")):
            pyval: Any = int(v) if k == "KInt" else float(v)
            o = pc.fill_null(a, pyval).to_pylist()
            add("pc.fill_null", f"KFillNull {DT[kind]} {cc} (Some (pv {k} ({v.numerator}) {v.denominator})) {cq_col(_col_out(o, kind))}",
                {"v": str(v), "pykind": k})
    if kind == "int":
        add("pc.cast", f"KCastF64 {cc} {cq_col(_col_out(pc.cast(a, pa.float64()).to_pylist(), 'float'))}")
    # pa.array of a Python list that mixes ints / floats / None (the `results` list of the grouped loop)
    pl: List[Any] = []
    for v in col:
        if v is None:
            pl.append(None)
        elif kind == "str":
            pl.append(chr(96 + int(v)))
        elif kind == "float" or rng.random() < 0.3:
            pl.append(float(v))
        else:
            pl.append(int(v))
    add("pa.array", f"KArray {cc} {cq_col(_col_out(pa.array(pl).to_pylist(), kind))}")
    # masks
    rk = None
    if case.get("keys") is not None:
        rk = [[kc[i] for kc in case["keys"]] for i in range(n)]
    if rk is not None and n > 0:
        i = rng.randrange(n)
        mask = [rk[j] == rk[i] for j in range(n)]
    else:
        mask = [rng.random() < 0.5 for _ in range(n)]
    pm = pa.array(mask, type=pa.bool_())
    add("pc.filter", f"KFilter {cc} {cq_list(cq_bool(b) for b in mask)} {cq_col(_col_out(pc.filter(a, pm).to_pylist(), kind))}",
        {"mask": mask})
    m2 = pc.and_(pm, pc.is_valid(a))
    add("pc.indices_nonzero", f"KNonzero {cq_list(cq_bool(b) for b in m2.to_pylist())} {cq_nats(pc.indices_nonzero(m2).to_pylist())}",
        {"mask": m2.to_pylist()})
    # pandas
    fv = None if rng.random() < 0.2 else (Fraction(rng.randint(1, 4)) if kind == "str" else Fraction(rng.randint(-12, 20), 4))
    pyfv: Any = None if fv is None else (chr(96 + int(fv)) if kind == "str" else float(fv))
    add("Series.fillna", f"KPdFillna {cc} {cq_cell(fv)} {cq_col(_col_out(list(s.fillna(pyfv)), kind))}", {"v": None if fv is None else str(fv)})
    vcp = s.value_counts(sort=False)
    vcpl = [(_canon(k, kind), int(c)) for k, c in vcp.items()]
    add("Series.value_counts", f"KPdValueCounts {cc} {cq_counts(vcpl)}")
    if not vcp.empty:
        add("Series.idxmax", f"KPdIdxmax {cq_counts(vcpl)} {cq_q(_canon(vcp.idxmax(), kind))}")
    add("Series.ffill", f"KPdFfill true {cc} {cq_col(_col_out(list(s.ffill()), kind))}")
    add("Series.bfill", f"KPdFfill false {cc} {cq_col(_col_out(list(s.bfill()), kind))}")
    if rk is not None:
        from harness import c19
        gnames = [f"g{j}" for j in range(len(case["keys"]))]
        d: Dict[str, Any] = {"x": s}
        for gi, (kk, kc) in enumerate(zip(case["keykinds"], case["keys"])):
            kv = [c19.native_cell(None if v is None else Fraction(v), kk) for v in kc]
            d[gnames[gi]] = pd.Series(kv, dtype="str") if kk == "str" else pd.Series(kv, dtype="float64" if any(v is None for v in kv) else "int64")
        df = pd.DataFrame(d)
        grouped = df.groupby(gnames, dropna=False)
        ck = cq_keys(rk)
        groups = [[int(i) for i in g.index] for _, g in grouped]
        add("groupby.__iter__", f"KPdGroups {ck} {cq_list(cq_nats(g) for g in groups)}", {"keys": case["keys"]})
        if kind != "str":
            for med, nm in ((False, "mean"), (True, "median")):
                tr = grouped["x"].transform(nm)
                add(f"groupby.transform({nm})", f"KPdTransform {cq_bool(med)} {ck} {cc} {cq_col(_col_out(list(tr), 'float'))}",
                    {"keys": case["keys"]})
            other = grouped["x"].transform("mean")
            add("Series.fillna(Series)", f"KPdFillnaSeries {cc} {cq_col(_col_out(list(other), 'float'))} "
                                         f"{cq_col(_col_out(list(s.fillna(other)), 'float'))}", {"keys": case["keys"]})
        for fwd in (True, False):
            tr = grouped["x"].transform((lambda x: x.ffill()) if fwd else (lambda x: x.bfill()))
            add("groupby.transform(fill)", f"KPdTransformFill {cq_bool(fwd)} {ck} {cc} {cq_col(_col_out(list(tr), kind))}",
                {"keys": case["keys"], "forward": fwd})
    return out


def win_kernels(rng: random.Random, case: Dict[str, Any]) -> List[Tuple[str, str, Dict[str, Any]]]:
    import datetime as dt
    import numpy as np
    import pandas as pd
    import pyarrow as pa
    import pyarrow.compute as pc
    kind = case["kind"]
    col = [None if v is None else Fraction(v) for v in case["col"]]
    times = case["times"]
    w = case["w"]
    out: List[Tuple[str, str, Dict[str, Any]]] = []
    info = {"col": case["col"], "kind": kind, "times": times, "w": w}

    def add(name: str, term: str, extra: Optional[Dict[str, Any]] = None) -> None:
        out.append((name, term, dict(info, **(extra or {}))))

    base = dt.datetime(2023, 1, 1)
    tvals = [base + dt.timedelta(days=t) for t in times]
    ct = cq_list(cq_z(t) for t in times)
    cc = cq_col(col)
    a = _pa_arr(col, kind)
    si = pc.sort_indices(pa.chunked_array([pa.array(tvals, type=pa.timestamp("us"))])).to_pylist()
    add("pc.sort_indices", f"KSort {ct} {cq_nats(si)}")
    ao = pd.Series(pd.to_datetime(tvals)).to_numpy().argsort(kind="stable")
    add("ndarray.argsort(stable)", f"KSort {ct} {cq_nats(ao.tolist())}")
    idx = [rng.randrange(len(col)) for _ in range(rng.randint(0, len(col)))] if col else []
    add("pc.take", f"KTake {cc} {cq_nats(idx)} {cq_col(_col_out(pc.take(a, pa.array(idx, type=pa.int64())).to_pylist(), kind))}", {"idx": idx})
    s = _pd_ser(col, kind)
    add("DataFrame.iloc", f"KTake {cc} {cq_nats(idx)} {cq_col(_col_out(list(pd.DataFrame({'x': s}).iloc[idx]['x']), kind))}", {"idx": idx})
    op = case["op"] if case["op"] in CQ_AGG else rng.choice(AGG_NAMES)
    # one PyArrow aggregate kernel on a window of the column
    i = rng.randrange(len(col))
    win = col[max(0, i - w + 1):i + 1]
    wa = _pa_arr(win, kind)
    kern = {"sum": pc.sum, "min": pc.min, "max": pc.max, "avg": pc.mean, "mean": pc.mean, "count": pc.count,
            "std": pc.stddev, "var": pc.variance}
    r = pc.quantile(wa, q=0.5)[0].as_py() if op == "median" else kern[op](wa).as_py()
    if op == "std" and r is not None:
        pass        # compared as a root of the variance (close_root)
    add("pc." + op, f"KAggPa {CQ_AGG[op]} {cq_col(win)} {cq_cell(_canon(r, 'float'))}", {"window": [None if v is None else str(v) for v in win]})
    # pandas rolling on the column (as it stands; the glue applies it to the time-sorted column)
    sf = s.astype("float64")
    roll = sf.rolling(window=w, min_periods=1)
    pdop = "mean" if op == "avg" else op
    add("rolling." + pdop, f"KRolling {CQ_AGG[op]} {cq_nat(w)} {cc} {cq_col(_col_out(list(getattr(roll, pdop)()), 'float'))}")
    for first in (True, False):
        res = roll.apply((lambda x: x.iloc[0] if len(x) > 0 else None) if first else (lambda x: x.iloc[-1] if len(x) > 0 else None), raw=False)
        add("rolling.apply", f"KRollingApply {cq_bool(first)} {cq_nat(w)} {cc} {cq_col(_col_out(list(res), 'float'))}", {"first": first})
    # numpy index assignment with the sort permutation
    values = np.array([np.nan if v is None else float(v) for v in col], dtype="float64")
    restored = values.copy()
    restored[ao] = values
    add("ndarray.__setitem__", f"KScatter {cq_nats(ao.tolist())} {cc} {cq_col(_col_out(list(restored), 'float'))}")
    return out


def agg_kernels(rng: random.Random, case: Dict[str, Any]) -> List[Tuple[str, str, Dict[str, Any]]]:
    import pyarrow.compute as pc
    kind = case["kind"]
    col = [None if v is None else Fraction(v) for v in case["col"]]
    op = case["op"]
    a = _pa_arr(col, kind)
    s = _pd_ser(col, kind)
    kern = {"sum": pc.sum, "min": pc.min, "max": pc.max, "avg": pc.mean, "mean": pc.mean, "count": pc.count,
            "std": pc.stddev, "var": pc.variance}
    r = pc.quantile(a, q=0.5)[0].as_py() if op == "median" else kern[op](a).as_py()
    pdop = "mean" if op == "avg" else op
    rp = getattr(s, pdop)()
    info = {"col": case["col"], "kind": kind, "op": op}
    return [("pc." + op, f"KAggPa {CQ_AGG[op]} {cq_col(col)} {cq_cell(_canon(r, 'float'))}", info),
            ("Series." + pdop, f"KAggPd {CQ_AGG[op]} {cq_col(col)} {cq_cell(_canon(rp, 'float'))}", info)]


def kernel_contracts(rep: vlib.Reporter, seed: int, cases: Sequence[Dict[str, Any]], cap: int) -> bool:
    """Run the real kernels on inputs taken from `cases`, evaluate the contracts in Coq.  True iff a violation was found."""
    rng = random.Random(seed * 104729 + 1907)
    items: List[Tuple[str, str, Dict[str, Any]]] = []
    errors: Dict[str, int] = {}
    for case in cases:
        try:
            if case["g"] == "imp":
                items += imp_kernels(rng, case)
            elif case["g"] == "win":
                items += win_kernels(rng, case)
            elif case["g"] == "agg":
                items += agg_kernels(rng, case)
        except Bad as e:
            rep.finding(f"kernel-contract:unrepresentable:{str(e)[:120]}", f"a library kernel returned a value outside the "
                        f"modelled domain on {str(case)[:300]}: {e}", {"case": {k: v for k, v in case.items() if not k.startswith('_')}})
            return True
        except Exception as e:  # noqa: BLE001  (a kernel that raises where the contract promises a value)
            tag = type(e).__name__ + ":" + str(e)[:80]
            errors[tag] = errors.get(tag, 0) + 1
            rep.finding(f"kernel-contract:raises:{tag}", f"a library kernel raised on {str(case)[:300]}: {tag}",
                        {"case": {k: v for k, v in case.items() if not k.startswith('_')}})
            return True
    if len(items) > cap:
        items = rng.sample(items, cap)
    bad, info = vlib.run_cases("C19", "kernels", REQX, "chk_kernel", [t for _n, t, _i in items], case_type="kcase", shard=300)
    by_kernel: Dict[str, int] = {}
    for nm, _t, _i in items:
        by_kernel[nm] = by_kernel.get(nm, 0) + 1
    found = False
    for i in bad:
        nm, term, inf = items[i]
        rep.finding(f"kernel-contract:{nm}:{term[:200]}",
                    f"the library kernel {nm} does not satisfy the contract assumed by Props/C19fw.v on {str(inf)[:300]}: {term[:400]}",
                    {"kernel": nm, "input": inf, "kcase": term})
        found = True
    rep.add("kernel_contract_tests", {"calls": len(items), "violations": len(bad), "by_kernel": dict(sorted(by_kernel.items())),
                                      "coq": info,
                                      "rule": "one test = one call of a real pyarrow / pandas / numpy kernel on a column, mask, key or "
                                              "time column of a generated case; its output must satisfy the contract clause "
                                              "(chk_kernel of Model/BuiltinsFwChk.v, evaluated by vm_compute)"})
    return found
