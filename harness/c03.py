"""C03 — the result contains exactly the requested features' columns.

Model: coq/Model/Naming.v (identify_naming_convention, set_feature_name, get_column_base_feature) and
coq/Model/Collection.v (add_feature_to_collection as a fold over the engine's calls, filter/index feature insertion,
get_initial_requested_features); spec: coq/Spec/Columns.v; theorems: coq/Props/C03.v.

T2 (model evaluated by vm_compute on the same inputs as the real code):
  unit   : ComputeFramework.identify_naming_convention on random column / feature name sets (shared prefixes, ~ suffixes,
           all orderings incl. an invalid one), in this process and in every hash-seed subprocess
  names  : FeatureGroup.get_column_base_feature / set_feature_name
  process: every Engine.add_feature_to_collection call (with its return value) and the final collection of real
           run_all calls vs Model.process_request; names asked from the compute frameworks vs flagged names
  calls  : every in-situ identify_naming_convention call of those runs vs Model.identify
End to end (the property itself, evaluated on the returned tables, no model involved): generated feature graphs,
all subsets of <= 4 features x all permutations x column_ordering x PYTHONHASHSEED subprocesses x configurations
(links -> index features, global filters -> filter features, dependencies requested too, multi-column features,
name~i requests, three compute frameworks).
Family `typed` (harness/c03_typed.py; coq/Model/StepTables.v over Model/Grouping.v): requests that declare >= 2 different data
types in one feature group next to untyped requested features (also: types from return_data_type_rule, typed dependency
instances, an untyped feature that is requested AND a dependency, two option classes), every permutation of small requests x
column_ordering x pandas / pyarrow x hash seeds.  Every observed call of group_features_by_compute_framework_and_options, the
steps of the plan and the partition of the requested features into the returned tables are compared with
Grouping.group_items / StepTables.tables_of_steps evaluated in Coq under the observed set order (chk_typed); the statement is
judged directly (every requested name in exactly one returned table, nothing else).
Execution modes: a sample of the same ordered requests x orderings x configurations is run under SYNC, THREADING and
MULTIPROCESSING (one Flight server for the whole check, shared by the worker subprocesses).  Planning -- every
add_feature_to_collection call -- happens in the orchestrator's process before the run in every mode, and so does the
selection of the result columns: after a worker THREAD finished, resp. after the table uploaded by a worker PROCESS was
downloaded (observed: calls recorded inside worker processes are shipped back through a file and must be empty; the uploaded
column sets are recorded in the worker processes and compared with what the selection saw).  The runs are judged by the same
Coq checkers (chk_process_kf, chk_ident, chk_ident_kf), by chk_ident_mode (Model/Collection.seen_cols), by the statement
itself and against the SYNC run of the same case.  Two mode-specific known-defect domains, decided on the exported plan and
the object footprint of the SYNC run: conflict_free / conflict_free_x (Model/OrchCheck.v) and kf_mp_join_after_upload.
"""
from __future__ import annotations

import itertools
import json
import os
import random
import subprocess
import sys
import time
from concurrent.futures import ThreadPoolExecutor
from pathlib import Path
from typing import Any, Dict, List, Optional, Sequence, Tuple

from lib import vlib
from lib.vlib import cq_bool, cq_list, cq_nat, cq_str

LEVEL = "proof"
REQ = ["MV.Model.Modes", "MV.Model.Naming", "MV.Model.Collection"]
MODES3 = ["SYNC", "THREADING", "MULTIPROCESSING"]
CQ_MODE = {"SYNC": "MSync", "THREADING": "MThreading", "MULTIPROCESSING": "MMultiprocessing"}
WORKER = Path(__file__).resolve().parent / "c03_worker.py"
FUEL = 8

KF_ORDER = "C03-request-order-set-iteration"
KF_SUBCOL = "C03-subcolumn-request-normalised"
KF_ORPHAN = "C03-filter-feature-on-derived-group-unlinked"
KF_RACE = "C03-unordered-steps-lose-requested-column"
KF_MPJOIN = "C03-mp-join-after-upload-non-arrow"

# ------------------------------------------------------------------------------------------------------------
# generated feature graphs
# ------------------------------------------------------------------------------------------------------------
GROUPS = [
    {"id": 0, "name": "R1", "kind": "root", "cols": ["k1", "a", "b", "m~0", "m~1"], "creator": ["k1", "a", "b", "m"],
     "index": [["k1"]], "multi": {"m": 2}},
    {"id": 1, "name": "R2", "kind": "root", "cols": ["k2", "c"], "creator": ["k2", "c"], "index": [["k2"]]},
    {"id": 2, "name": "P", "kind": "derived", "supported": ["p", "q"], "inputs": ["a"], "multi": {"q": 2}},
    {"id": 3, "name": "J", "kind": "derived", "supported": ["j"], "inputs": ["a", "c"]},
    {"id": 4, "name": "PP", "kind": "derived", "supported": ["pp"], "inputs": ["p"]},
    {"id": 5, "name": "R3", "kind": "root", "cols": ["k3", "d"], "creator": ["k3", "d"], "index": [["k3"]]},
]
UNIVERSE = {"tag": "u", "groups": GROUPS}
L12 = [0, ["k1"], 1, ["k2"]]
L23 = [1, ["k2"], 5, ["k3"]]

# (pool of requestable names, configuration).  Every pool has 7 names: 1099 ordered requests of <= 4 names.
POOL_A = ["a", "b", "k1", "p", "c", "m", "m~1"]
POOL_B = ["j", "a", "c", "k1", "k2", "pp", "p"]
POOL_C = ["m", "m~0", "m~1", "q", "q~1", "p", "a"]
CONFIGS: List[dict] = [
    {"id": "A-arrow-link", "pool": POOL_A, "fw": "arrow", "links": [L12], "filters": None},
    {"id": "A-arrow-filter-b", "pool": POOL_A, "fw": "arrow", "links": None, "filters": ["b"]},
    {"id": "A-arrow-link-filter-b-k1", "pool": POOL_A, "fw": "arrow", "links": [L12], "filters": ["b", "k1"]},
    {"id": "A-pydict-filter-a", "pool": POOL_A, "fw": "pydict", "links": None, "filters": ["a"]},
    {"id": "A-pandas-plain", "pool": POOL_A, "fw": "pandas", "links": None, "filters": None},
    {"id": "B-arrow-link", "pool": POOL_B, "fw": "arrow", "links": [L12], "filters": None},
    {"id": "B-arrow-link-filter-c", "pool": POOL_B, "fw": "arrow", "links": [L12], "filters": ["c"]},
    {"id": "B-pandas-link", "pool": POOL_B, "fw": "pandas", "links": [L12], "filters": None},
    {"id": "B-arrow-2links", "pool": POOL_B, "fw": "arrow", "links": [L12, L23], "filters": None},
    {"id": "C-arrow-plain", "pool": POOL_C, "fw": "arrow", "links": None, "filters": None},
    {"id": "C-pydict-filter-p", "pool": POOL_C, "fw": "pydict", "links": None, "filters": ["p"]},
    {"id": "C-pandas-plain", "pool": POOL_C, "fw": "pandas", "links": None, "filters": None},
]
ORDERINGS: List[Optional[str]] = [None, "alphabetical", "request_order"]


def group_of_name(name: str) -> dict:
    base = name.split("~")[0]
    for g in GROUPS:
        if base in (g.get("creator") or g.get("supported") or []):
            return g
    raise KeyError(name)


def exp_cols(name: str) -> List[str]:
    """Columns the property entitles a request for `name` to (spec side, from the universe description only)."""
    if "~" in name:
        return [name]
    g = group_of_name(name)
    n = g.get("multi", {}).get(name)
    return [f"{name}~{i}" for i in range(n)] if n else [name]


def dedup(xs: Sequence[str]) -> List[str]:
    out: List[str] = []
    for x in xs:
        if x not in out:
            out.append(x)
    return out


def evaluate_property(req: List[str], ordering: Optional[str], tables: List[List[str]]) -> List[dict]:
    """The statement of C03 evaluated directly on the returned tables.  Returns a list of failures (empty = holds)."""
    fails: List[dict] = []
    allowed = {c for r in req for c in exp_cols(r)}
    for r in req:
        ec = exp_cols(r)
        holders = [i for i, t in enumerate(tables) if any(c in t for c in ec)]
        if not holders:
            fails.append({"kind": "missing", "feature": r})
        elif len(holders) > 1:
            fails.append({"kind": "several-tables", "feature": r, "tables": holders})
        elif not all(c in tables[holders[0]] for c in ec):
            fails.append({"kind": "partial", "feature": r})
    for i, t in enumerate(tables):
        for c in dedup(t):
            if c not in allowed:
                fails.append({"kind": "extra", "column": c, "table": i})
            if t.count(c) > 1:
                fails.append({"kind": "duplicate", "column": c, "table": i})
        kept = dedup([c for c in t if c in allowed])
        if ordering == "alphabetical" and kept != sorted(kept):
            fails.append({"kind": "not-sorted", "table": i, "got": t})
        if ordering == "request_order":
            want = dedup([c for r in req for c in sorted(exp_cols(r)) if c in kept])
            if kept != want:
                fails.append({"kind": "not-request-order", "table": i, "got": t, "want": want})
    return fails


def requests_for(pool: List[str], rng: random.Random, exhaustive: bool, n_big: int) -> List[List[str]]:
    out: List[List[str]] = []
    for k in (1, 2):
        for s in itertools.combinations(pool, k):
            out += [list(p) for p in itertools.permutations(s)]
    big: List[List[str]] = []
    for k in (3, 4):
        for s in itertools.combinations(pool, k):
            big += [list(p) for p in itertools.permutations(s)]
    if exhaustive:
        out += big
    else:
        out += rng.sample(big, min(n_big, len(big)))
    return out


# ------------------------------------------------------------------------------------------------------------
# subprocess workers (one per (PYTHONHASHSEED, configuration))
# ------------------------------------------------------------------------------------------------------------
def run_worker(job: dict, hashseed: int, tag: str, timeout: int = 1500) -> dict:
    d = vlib.BUILD / "C03" / "jobs"
    d.mkdir(parents=True, exist_ok=True)
    jp, op = d / f"{tag}.job.json", d / f"{tag}.out.json"
    jp.write_text(json.dumps(job))
    if op.exists():
        op.unlink()
    env = dict(os.environ)
    env["PYTHONHASHSEED"] = str(hashseed)
    env["PYTHONPATH"] = f"{vlib.REPO}:{vlib.VERIF}"
    try:
        p = subprocess.run([vlib.PY, str(WORKER), str(jp), str(op)], env=env, timeout=timeout,
                           stdout=subprocess.PIPE, stderr=subprocess.STDOUT, text=True, errors="replace")
        if p.returncode != 0 or not op.exists():
            return {"error": f"worker rc={p.returncode}: {p.stdout[-1500:]}", "cases": [], "unit": [], "names": []}
        r = json.loads(op.read_text())
    except subprocess.TimeoutExpired:
        return {"error": "worker timeout", "cases": [], "unit": [], "names": []}
    finally:
        for f in (jp, op):
            if f.exists():
                f.unlink()
    return r


# ------------------------------------------------------------------------------------------------------------
# Coq terms
# ------------------------------------------------------------------------------------------------------------
def cq_strs(xs: Sequence[str]) -> str:
    return cq_list(cq_str(x) for x in xs)


def cq_ordering(o: Optional[str]) -> str:
    return {None: "ONone", "alphabetical": "OAlpha", "request_order": "ORequest"}.get(o, "OInvalid")


def cq_result(kind: str, res: Sequence[str]) -> str:
    if kind == "err":
        return "RErr"
    return f"({'RSet' if kind == 'set' else 'RList'} {cq_strs(res)})"


def cq_feat(f: Sequence[Any]) -> str:
    return f"{{| fgrp := {cq_nat(f[0])}; fname := {cq_str(f[1])}; fkey := {cq_nat(f[2])}; fflag := {cq_bool(f[3])} |}}"


def cq_link(l: Sequence[Any]) -> str:
    return f"{{| lgrp := {cq_nat(l[0])}; lidx := {cq_strs(l[1])}; rgrp := {cq_nat(l[2])}; ridx := {cq_strs(l[3])} |}}"


GTAB = cq_list(f"({cq_str(n)}, {cq_nat(g['id'])})" for g in GROUPS for n in (g.get("creator") or g.get("supported")))
SUPTAB = cq_list(f"({cq_nat(g['id'])}, {cq_strs(g.get('supported', []))})" for g in GROUPS)
IDXTAB = cq_list(f"({cq_nat(g['id'])}, {cq_list(cq_strs(i) for i in g.get('index', []))})" for g in GROUPS)

EXTRA = f"""
Fixpoint list_eqb {{A : Type}} (e : A -> A -> bool) (a b : list A) : bool :=
  match a, b with [] , [] => true | x :: a', y :: b' => e x y && list_eqb e a' b' | _, _ => false end.
Definition subset (a b : list string) := forallb (fun x => mem_str x b) a.
Definition set_eqb (a b : list string) := subset a b && subset b a && Nat.eqb (List.length a) (List.length b).
Definition res_eqb (m o : result) : bool :=
  match m, o with
  | RErr, RErr => true
  | RSet a, RSet b => set_eqb a b
  | RList a, RList b => list_eqb String.eqb a b
  | _, _ => false
  end.
(* identify_naming_convention: (iteration order of the FeatureName set, columns, ordering), observed result *)
Definition chk_ident (c : (list string * list string * ordering) * result) : bool :=
  let '((it, cols, o), r) := c in res_eqb (identify it cols o) r.
(* in-situ call with request_order inside the known-defect domain (the names travel as a set): the faithful model, or
   the repaired behaviour (blocks in the order of the request list [rq]) *)
Definition chk_ident_kf (c : (list string * list string * list string) * result) : bool :=
  let '((it, cols, rq), r) := c in
  res_eqb (identify it cols ORequest) r || res_eqb (identify rq cols ORequest) r.
(* a selection call of a run in mode m: held = the columns of the object where the step ran (MULTIPROCESSING: of the table the
   worker process uploaded), transf = the columns the selection saw in the orchestrator's process *)
Definition perm_strs (a b : list string) : bool := list_eqb String.eqb (sort_str a) (sort_str b).
Definition chk_ident_mode (c : (pmode * list string * list string * list string * ordering) * result) : bool :=
  let '((m, it, held, transf, o), r) := c in
  perm_strs held transf
  && res_eqb (identify it (seen_cols m (fun _ => held) (fun _ => transf) 0) o) r
  && res_eqb (identify it (seen_cols MSync (fun _ => held) (fun _ => transf) 0) o) r.
Definition chk_name (c : (string * list string) * (string * string)) : bool :=
  let '((n, sup), (b, nw)) := c in String.eqb (base_feature n) b && String.eqb (set_feature_name sup n) nw.

Fixpoint assoc_nat {{A : Type}} (d : A) (k : nat) (l : list (nat * A)) : A :=
  match l with [] => d | (k', v) :: t => if Nat.eqb k k' then v else assoc_nat d k t end.
Fixpoint assoc_str (d : nat) (k : string) (l : list (string * nat)) : nat :=
  match l with [] => d | (k', v) :: t => if String.eqb k k' then v else assoc_str d k t end.
Definition gtab : list (string * nat) := {GTAB}.
Definition suptab : list (nat * list string) := {SUPTAB}.
Definition idxtab : list (nat * list (list string)) := {IDXTAB}.
(* observed iteration orders: inputs per group, matched filters per group (None = no GlobalFilter), links *)
Definition envdata := (list (nat * list string) * option (list (nat * list string)) * option (list link))%type.
Definition mk_env (norm : bool) (d : envdata) : genv :=
  let '(inp, filt, lnk) := d in
  {{| group_of := fun n => assoc_str 99 (base_feature n) gtab;
     supported := fun g => if norm then assoc_nat [] g suptab else [];
     inputs := fun g _ => assoc_nat [] g inp;
     dep_key := fun _ => 1; aux_key := fun _ => 0;
     filters_for := fun g => match filt with None => None | Some l => Some (assoc_nat [] g l) end;
     index_cols := fun g => assoc_nat [] g idxtab;
     links := lnk |}}.
Definition feat_eqb (a b : feature) : bool := feq a b && Bool.eqb (fflag a) (fflag b).
Definition coll_eqb (a b : list feature) : bool :=
  forallb (fun f => existsb (feat_eqb f) b) a && forallb (fun f => existsb (feat_eqb f) a) b
  && Nat.eqb (List.length a) (List.length b).
Definition trace_eqb (a b : list (feature * bool)) : bool :=
  list_eqb (fun x y => feat_eqb (fst x) (fst y) && Bool.eqb (snd x) (snd y)) a b.
Definition asked_of (coll : list feature) : list string := sort_str (map fname (filter fflag coll)).
Definition agree (st : pstate) (coll : list feature) (tr : list (feature * bool)) (coll_o : list feature)
                 (asked : option (list string)) : bool :=
  trace_eqb tr (snd st) && coll_eqb coll coll_o
  && match asked with None => true | Some a => list_eqb String.eqb (asked_of coll) (sort_str a) end.
Definition proc_case := (envdata * list string * list (feature * bool) * list feature * option (list string))%type.
Definition chk_process (c : proc_case) : bool :=
  let '(d, rq, tr, coll_o, asked) := c in
  let st := process_request {FUEL} (mk_env true d) rq in
  agree st (fst st) tr coll_o asked.
(* the same with the repaired variant accepted where the sub-column domain applies (no rewriting of name~x) *)
Definition chk_process_kf (c : proc_case) : bool :=
  let '(d, rq, tr, coll_o, asked) := c in
  let st := process_request {FUEL} (mk_env true d) rq in
  let st' := process_request {FUEL} (mk_env false d) rq in
  let sub := existsb (fun n => kf_subcolumn (assoc_nat [] (assoc_str 99 (base_feature n) gtab) suptab) n) rq in
  agree st (fst st) tr coll_o asked || (sub && agree st' (fst st') tr coll_o asked).
(* a filter feature newly stored in a derived group (it is never linked to the group's inputs) *)
Definition orphan_filter (e : genv) (rq : list string) : bool :=
  existsb (fun p => snd p && negb (fflag (fst p)) && Nat.eqb (fkey (fst p)) 0
                    && negb (match inputs e (fgrp (fst p)) "" with [] => true | _ => false end)
                    && match filters_for e (fgrp (fst p)) with Some l => mem_str (fname (fst p)) l | None => false end)
          (snd (process_request 8 e rq)).
Definition chk_no_orphan (c : envdata * list string) : bool := negb (orphan_filter (mk_env true (fst c)) (snd c)).
"""
IDENT_TY = "(list string * list string * ordering) * result"
IDENT_KF_TY = "(list string * list string * list string) * result"
IDENT_MODE_TY = "(pmode * list string * list string * list string * ordering) * result"
NAME_TY = "(string * list string) * (string * string)"


def ident_term(c: dict) -> str:
    return f"(({cq_strs(c['iter'])}, {cq_strs(c['cols'])}, {cq_ordering(c['ordering'])}), {cq_result(c['kind'], c['res'])})"


def env_term(env: dict) -> str:
    inp = cq_list(f"({cq_nat(int(g))}, {cq_strs(v)})" for g, v in sorted(env["inputs"].items()))
    filt = "None" if env["filters"] is None else "(Some " + cq_list(
        f"({cq_nat(int(g))}, {cq_strs(v)})" for g, v in sorted(env["filters"].items())) + ")"
    lnk = "None" if env["links"] is None else "(Some " + cq_list(cq_link(l) for l in env["links"]) + ")"
    return f"({inp}, {filt}, {lnk})"


def observed_env(case: dict, cfg: dict) -> Tuple[Optional[dict], Optional[str]]:
    """Iteration orders the engine saw (model parameters).  None + reason if they were not constant within the run."""
    inputs: Dict[str, List[str]] = {}
    for g in GROUPS:
        if g["kind"] == "derived":
            seen = case["inputs"].get(str(g["id"]))
            if seen:
                if any(s != seen[0] for s in seen):
                    return None, "input_features() iteration order changed within a run"
                inputs[str(g["id"])] = seen[0]
            else:
                inputs[str(g["id"])] = list(g["inputs"])
    filters: Optional[Dict[str, List[str]]] = None
    if cfg["filters"] is not None:
        filters = {}
        for g, seen in case["filters"].items():
            if any(s != seen[0] for s in seen):
                return None, "matched-filter iteration order changed within a run"
            filters[g] = seen[0]
    links = case["links"] if cfg["links"] is not None else None
    if cfg["links"] is not None and links is None:
        links = cfg["links"]
    return {"inputs": inputs, "filters": filters, "links": links}, None


def proc_term(env: dict, req: List[str], case: dict) -> str:
    tr = cq_list(f"({cq_feat(t[:4])}, {cq_bool(t[4])})" for t in case["trace"])
    coll = cq_list(cq_feat(f) for f in (case["coll"] or []))
    if case["exc"] is None:
        asked = "(Some " + cq_strs(sorted(n for c in case["calls"] for n in c["iter"])) + ")"
    else:
        asked = "None"
    return f"({env_term(env)}, {cq_strs(req)}, {tr}, {coll}, {asked})"


# ------------------------------------------------------------------------------------------------------------
# execution modes
# ------------------------------------------------------------------------------------------------------------
def mode_requests(pool: List[str], rng: random.Random, n: int) -> List[List[str]]:
    """n ordered requests of 1-4 names (about 1/5 singles, 1/3 pairs, the rest 3-4 names), without repetition."""
    out: List[List[str]] = []
    seen = set()
    tries = 0
    while len(out) < n and tries < 50 * n:
        tries += 1
        k = rng.choice([1, 2, 2, 3, 3, 4, 4, 4] if len(out) >= 2 else [1])
        r = rng.sample(pool, k)
        if tuple(r) not in seen:
            seen.add(tuple(r))
            out.append(r)
    return out


def canon_tables(tables: List[List[str]]) -> List[str]:
    return sorted(json.dumps(sorted(t)) for t in tables)


def kf_mp_join_after_upload(plan: Optional[dict], fw: str) -> bool:
    """MULTIPROCESSING, a compute framework other than PyArrow, and a join step whose LEFT object (the object the join
    writes) can have been uploaded before the join runs: a feature-group step that holds a requested feature, runs on that
    object and does not (transitively) wait for the join.  ComputeFramework.upload_table replaces cfw.data by its Arrow
    conversion; JoinStep._merge_data then hands a pyarrow Table to the framework's merge engine.  (Whether the upload really
    precedes the join may depend on the schedule when the two steps are unordered: both outcomes are accepted there.)"""
    if plan is None or fw == "arrow":
        return False
    foot = {int(k): v for k, v in plan["foot"].items()}
    prod = {u: st["sid"] for st in plan["steps"] for u in st["uuids"]}
    direct = {st["sid"]: {prod[u] for u in st["req"] if u in prod} for st in plan["steps"]}

    def waits_for(i: int) -> set:
        acc: set = set()
        todo = [i]
        while todo:
            for y in direct.get(todo.pop(), ()):
                if y not in acc:
                    acc.add(y)
                    todo.append(y)
        return acc
    for j in plan["steps"]:
        if j["kind"] != "JOIN" or j["sid"] not in foot:
            continue
        for st in plan["steps"]:
            if st["kind"] == "FG" and st["requested"] and foot.get(st["sid"], [None])[0] == foot[j["sid"]][0] \
                    and j["sid"] not in waits_for(st["sid"]):
                return True
    return False


def plan_term(plan: dict) -> str:
    from harness.orch import cq_plan
    from harness.c01 import cq_foot
    return f"({cq_plan(plan)}, {cq_foot({int(k): (v[0], v[1]) for k, v in plan['foot'].items()})})"


# ------------------------------------------------------------------------------------------------------------
def run(rep: vlib.Reporter, tier: str, seed: int) -> None:
    t_start = time.time()
    rng = random.Random(seed * 7919 + 3)
    pr = vlib.build_props("C03")
    rep.proof(pr)
    rep.coverage["trusted_base"] += [
        "hand-written models Model/Naming.v (identify_naming_convention, get_column_base_feature, default set_feature_name) "
        "and Model/Collection.v (add_feature_to_collection, _process_feature order incl. _add_filter_feature / "
        "_add_index_feature / create_index_feature, get_initial_requested_features); tied by correspondence (T2) on the inputs below",
        "abstraction of Feature.__eq__ to (group, name, key): key 0 = child_options None, key 1 = child_options set; generated "
        "universes use empty options, no domain, no data type, one compute framework (checked on every recorded feature)",
        "C03_exact / C03_one_table take the step of a feature as a function and the columns a compute framework holds as "
        "parameters (observed at each identify_naming_convention call); that the planner's membership relation is a function is "
        "proved for one feature group (Model/StepTables.v over Grouping.group_items) and for plans of the O-fragment (plan_O: one "
        "framework, no links, no filter) and tied by the family `typed`; for plans with joins / filters / several frameworks the "
        "steps are observed only",
        "family typed: the (options, frameworks) class it_kb of a feature is read off its group options ({} -> 0, {'k': n} -> n), one "
        "compute framework (checked per feature); generated groups have no dependency inside one feature group (one dependency "
        "level per split; checked: the steps of the plan must equal the groups)",
        "Python str ordering = String.compare on printable ASCII (generators stay in ASCII)",
        "harness/c03_worker.py records calls by wrapping Engine.add_feature_to_collection, Engine.create_setup_execution_plan, "
        "ComputeFramework.identify_naming_convention, GlobalFilter.identity_matched_filters in the worker process (no change to /repo)"]
    big = tier == "thorough"
    found = False
    hashseeds = list(range(6)) if big else [0, 1, 2]

    # ---------------- jobs
    jobs: List[Tuple[dict, int, str, dict]] = []
    for ci, cfg in enumerate(CONFIGS):
        crng = random.Random(rng.random())
        reqs = requests_for(cfg["pool"], crng, exhaustive=big, n_big=36)
        cases = [[r, o] for r in reqs for o in ORDERINGS]
        for hs in hashseeds:
            job = {"universe": UNIVERSE, "config": {k: cfg[k] for k in ("fw", "links", "filters")}, "cases": cases}
            if ci < 3:   # unit-level cases under this hash seed as well
                job["unit"] = {"seed": seed * 1000 + hs * 10 + ci, "n": 2500 if big else 250, "n_names": 300 if big else 60}
            jobs.append((job, hs, f"{cfg['id']}_{hs}", cfg))
    # execution modes: per configuration a sample of ordered requests x orderings, each run SYNC, THREADING, MULTIPROCESSING
    from harness.orch import flight_server, stop_flight_server
    from harness import mp_obs
    flight_location = flight_server().get_location()
    mode_jobs: List[Tuple[dict, int, str, dict]] = []
    for ci, cfg in enumerate(CONFIGS):
        mrng = random.Random(seed * 31337 + ci)
        mreqs = mode_requests(cfg["pool"], mrng, 96 if big else 8)
        mcases = [[r, o] for r in mreqs for o in ORDERINGS]
        hs = hashseeds[ci % len(hashseeds)]
        job = {"universe": UNIVERSE, "config": {k: cfg[k] for k in ("fw", "links", "filters")}, "cases": mcases,
               "modes": MODES3, "flight": flight_location}
        mode_jobs.append((job, hs, f"modes_{cfg['id']}_{hs}", cfg))
    # unit level in a dedicated job with the check's own hash seed
    unit_job = {"unit": {"seed": seed * 1000 + 999, "n": 20000 if big else 2000, "n_names": 3000 if big else 500}}
    nproc = max(2, min(12, vlib.NCPU - 2))
    t0 = time.time()
    from harness import c03_typed
    with ThreadPoolExecutor(max_workers=nproc) as ex:
        mfuts = [ex.submit(run_worker, j, hs, tag) for (j, hs, tag, _) in mode_jobs]       # the longest jobs first
        typed_finish = c03_typed.run_family(rep, tier, seed, ex.submit)
        futs = [ex.submit(run_worker, j, hs, tag) for (j, hs, tag, _) in jobs]
        ufut = ex.submit(run_worker, unit_job, int(os.environ.get("PYTHONHASHSEED", "0") or 0), "unit")
        results = [f.result() for f in futs]
        ures = ufut.result()
        mresults = [f.result() for f in mfuts]
    stop_flight_server()
    rep.add("workers", {"subprocesses": len(jobs) + len(mode_jobs) + 1, "parallel": nproc, "hash_seeds": hashseeds,
                        "wall_s": round(time.time() - t0, 1)})
    for (j, hs, tag, cfg), r in list(zip(jobs, results)) + list(zip(mode_jobs, mresults)) + [((unit_job, 0, "unit", {}), ures)]:
        if r.get("error"):
            rep.finding(f"worker-failed:{tag}", f"worker subprocess {tag} failed: {r['error'][:300]}", {"kind": "worker", "tag": tag},
                        found_input=False)
            found = True

    # ---------------- unit level: identify_naming_convention, names
    unit = list(ures.get("unit", []))
    names = list(ures.get("names", []))
    for r in results:
        unit += r.get("unit", [])
        names += r.get("names", [])
    ukeys: Dict[str, dict] = {}
    for c in unit:
        ukeys.setdefault(json.dumps(c, sort_keys=True), c)
    ucases = list(ukeys.values())
    other = [c for c in ucases if c["kind"].startswith("other")]
    for c in other[:3]:
        rep.finding(f"unit-exception:{json.dumps(c, sort_keys=True)}", f"identify_naming_convention raised {c['kind']}", {"kind": "unit", **c})
        found = True
    ucases = [c for c in ucases if not c["kind"].startswith("other")]
    bad, info = vlib.run_cases("C03", "unit", REQ, "chk_ident", [ident_term(c) for c in ucases], case_type=IDENT_TY,
                               extra_defs=EXTRA, shard=400)
    rep.count(len(unit))
    kinds: Dict[str, int] = {}
    for c in ucases:
        k = f"{c['ordering']}/{c['kind']}"
        kinds[k] = kinds.get(k, 0) + 1
        if c["kind"] != "err" and len(c["iter"]) >= 2 and len(c["res"]) >= 2:
            rep.nontrivial(("u", c["iter"], c["cols"], c["ordering"]))
    rep.add("unit_identify", {**info, "calls": len(unit), "distinct": len(ucases), "by_ordering_and_kind": kinds,
                              "disagreements": len(bad),
                              "with_duplicate_in_result": sum(1 for c in ucases if len(set(c["res"])) < len(c["res"]))})
    for i in bad[:5]:
        c = ucases[i]
        rep.finding(f"unit:{json.dumps(c, sort_keys=True)}",
                    f"identify_naming_convention(iter={c['iter']}, cols={c['cols']}, ordering={c['ordering']!r}) returned "
                    f"{c['kind']} {c['res']} which differs from Model.identify", {"kind": "unit", **c})
        found = True

    nkeys: Dict[str, dict] = {}
    for c in names:
        nkeys.setdefault(json.dumps(c, sort_keys=True), c)
    ncases = list(nkeys.values())
    nbad_exc = [c for c in ncases if c["base"] is None]
    ncases = [c for c in ncases if c["base"] is not None]
    bad, info = vlib.run_cases("C03", "names", REQ, "chk_name",
                               [f"(({cq_str(c['name'])}, {cq_strs(c['sup'])}), ({cq_str(c['base'])}, {cq_str(c['new'])}))" for c in ncases],
                               case_type=NAME_TY, extra_defs=EXTRA, shard=500)
    rep.count(len(names))
    rep.add("unit_names", {**info, "calls": len(names), "distinct": len(ncases), "disagreements": len(bad) + len(nbad_exc),
                           "normalised": sum(1 for c in ncases if c["new"] != c["name"])})
    for c in nbad_exc[:3] + [ncases[i] for i in bad[:5]]:
        rep.finding(f"names:{json.dumps(c, sort_keys=True)}", f"set_feature_name/get_column_base_feature on {c} differ from the model",
                    {"kind": "names", **c})
        found = True

    # ---------------- end to end
    runs: List[dict] = []
    for (j, hs, tag, cfg), r in zip(jobs, results):
        for c in r.get("cases", []):
            c["cfg"], c["hashseed"] = cfg["id"], hs
            runs.append(c)
    cfg_by_id = {c["id"]: c for c in CONFIGS}
    # runs of the execution-mode family: the SYNC run of a case is the sibling of its THREADING and MULTIPROCESSING runs
    mode_runs: List[dict] = []
    for (j, hs, tag, cfg), r in zip(mode_jobs, mresults):
        sib: Optional[dict] = None
        for c in r.get("cases", []):
            c["cfg"], c["hashseed"] = cfg["id"], hs
            if c["mode"] == "SYNC":
                sib = c
            else:
                c["sync"] = sib
            mode_runs.append(c)
    runs += mode_runs
    # known-defect domains of THREADING / MULTIPROCESSING, decided on the plan and object footprint of the SYNC sibling
    t_dom = time.time()
    sibs = [c for c in mode_runs if c["mode"] == "SYNC" and c.get("plan")]
    sib_terms = sorted({plan_term(c["plan"]) for c in sibs})
    from harness.c01 import EXTRA as C01_EXTRA
    OREQ = ["MV.Model.Orch", "MV.Model.OrchCheck"]
    if sib_terms:
        shard = max(20, min(80, len(sib_terms) // 12 + 1))
        cf_bad = {sib_terms[i] for i in vlib.run_cases("C03", "cf", OREQ, "chk_cf", sib_terms, extra_defs=C01_EXTRA,
                                                       case_type="plan * foot", shard=shard)[0]}
        cfx_bad = {sib_terms[i] for i in vlib.run_cases(
            "C03", "cfx", OREQ, "chk_cfx", sib_terms, case_type="plan * foot", shard=shard,
            extra_defs=C01_EXTRA + "\nDefinition chk_cfx (c : plan * foot) := conflict_free_x (fst c) (snd c).\n")[0]}
    else:
        cf_bad, cfx_bad = set(), set()
    for c in sibs:
        t = plan_term(c["plan"])
        c["conflict"], c["conflict_x"] = t in cf_bad, t in cfx_bad
    t_dom = round(time.time() - t_dom, 1)
    rep.count(len(runs))
    n_exc = 0
    proc_cases: Dict[str, Tuple[str, dict]] = {}      # term -> (term, first run)
    call_plain: Dict[str, Tuple[str, dict]] = {}
    call_kf: Dict[str, Tuple[str, dict]] = {}
    unmodelled: Dict[str, int] = {}
    failing: List[Tuple[dict, List[dict]]] = []
    raised: List[dict] = []
    sizes = {1: 0, 2: 0, 3: 0, 4: 0}
    for c in runs:
        cfg = cfg_by_id[c["cfg"]]
        sizes[len(c["req"])] += 1
        if c["abs_err"]:
            rep.finding(f"abstraction:{c['cfg']}:{c['req']}", f"feature attributes outside the modelled abstraction: {c['abs_err']}",
                        {"kind": "e2e", **replay_obj(c)}, found_input=False)
            found = True
        env, why = observed_env(c, cfg)
        if env is None:
            unmodelled[why or "?"] = unmodelled.get(why or "?", 0) + 1
        else:
            c["env"] = env
            t = proc_term(env, c["req"], c)
            proc_cases.setdefault(t, (t, c))
        if c["exc"] is not None:
            n_exc += 1
            raised.append(c)
            continue
        # returned tables are exactly what the identify calls produced (observation consistency, python side)
        got = sorted(json.dumps(sorted(t) if c["ordering"] is None else t) for t in c["tables"])
        via = sorted(json.dumps(k["res"]) for k in c["calls"] if k["kind"] != "err")
        if got != via:
            rep.finding(f"tables-vs-calls:{c['cfg']}:{c['req']}:{c['ordering']}",
                        f"returned tables {c['tables']} are not the results of the identify_naming_convention calls {via}",
                        {"kind": "e2e", **replay_obj(c)})
            found = True
        for k in c["calls"]:
            if k["ordering"] == "request_order" and len(k["iter"]) >= 2:
                rq_names = dedup([normalise(r) for r in c["req"]])
                rq = [n for n in rq_names if n in k["iter"]] + [n for n in k["iter"] if n not in rq_names]
                t = f"(({cq_strs(k['iter'])}, {cq_strs(k['cols'])}, {cq_strs(rq)}), {cq_result(k['kind'], k['res'])})"
                call_kf.setdefault(t, (t, c))
            else:
                t = ident_term(k)
                call_plain.setdefault(t, (t, c))
        fails = evaluate_property(c["req"], c["ordering"], c["tables"])
        if fails:
            failing.append((c, fails))
        if len(c["req"]) >= 2:
            rep.nontrivial(("e", c["cfg"], sorted(c["req"]), c["ordering"]))
    rep.add("e2e", {"runs": len(runs), "configs": [c["id"] for c in CONFIGS], "request_sizes": sizes, "orderings": [str(o) for o in ORDERINGS],
                    "exceptions": n_exc, "runs_violating_the_statement": len(failing),
                    "exhaustive_subsets_and_permutations": big, "unmodelled_orders": unmodelled})
    for why, n in unmodelled.items():
        rep.finding(f"unmodelled:{why}", f"{n} runs: {why}", {"kind": "e2e"}, found_input=False)
        found = True

    # runs that raised: tolerated only inside the orphan-filter domain (decided on the model) with the listed symptom
    oq: Dict[str, str] = {}
    for c in raised:
        if "env" in c:
            oq.setdefault(f"({env_term(c['env'])}, {cq_strs(c['req'])})", "")
    oterms = list(oq)
    orphan = set()
    if oterms:
        idx, _ = vlib.run_cases("C03", "kf_orphan", REQ, "chk_no_orphan", oterms, case_type="envdata * list string", extra_defs=EXTRA, shard=400)
        orphan = {oterms[i] for i in idx}
    n_orphan = 0
    reported_exc = 0
    mode_kf: Dict[str, int] = {}
    mode_kf_first: Dict[str, dict] = {}
    for c in raised:
        t = f"({env_term(c['env'])}, {cq_strs(c['req'])})" if "env" in c else None
        if t in orphan and "NoneType" in c["exc"]:
            n_orphan += 1
            if n_orphan == 1:
                rep.finding(KF_ORPHAN, "filter feature on a derived group is not linked to the group's inputs", {"kind": "e2e", **replay_obj(c)})
        else:
            key = mode_domain(c, cfg_by_id[c["cfg"]])
            if key is not None:
                mode_kf[key] = mode_kf.get(key, 0) + 1
                if key not in mode_kf_first:
                    mode_kf_first[key] = c
                continue
            if reported_exc < 8:
                rep.finding(f"e2e-exception:{c['cfg']}:{c['req']}:{c['ordering']}:{c.get('mode', 'SYNC')}",
                            f"run_all({c['req']}, column_ordering={c['ordering']!r}, mode {c.get('mode', 'SYNC')}) [{c['cfg']}, hash seed "
                            f"{c['hashseed']}] raised {c['exc']}", {"kind": "e2e", **replay_obj(c)})
                reported_exc += 1
            found = True
    rep.coverage["e2e"]["exceptions_in_orphan_filter_domain"] = n_orphan
    for key, c in mode_kf_first.items():
        rep.finding(key, f"{key}: run_all({c['req']}, mode {c['mode']}) [{c['cfg']}] raised {c['exc'][-200:]}; the SYNC run returns "
                         f"{c['sync']['tables']}", {"kind": "e2e", **replay_obj(c)})

    # process correspondence (trace, collection, asked names)
    pts = list(proc_cases.values())
    bad, info = vlib.run_cases("C03", "process", REQ, "chk_process_kf", [t for t, _ in pts], case_type="proc_case",
                               extra_defs=EXTRA, shard=300)
    strict_bad, _ = vlib.run_cases("C03", "process_strict", REQ, "chk_process", [t for t, _ in pts], case_type="proc_case",
                                   extra_defs=EXTRA, shard=300)
    rep.add("process", {**info, "distinct_cases": len(pts), "disagreements": len(bad),
                        "agree_only_with_repaired_variant": len(set(strict_bad) - set(bad)),
                        "max_trace_len": max((len(c["trace"]) for _, c in pts), default=0)})
    for i in bad[:5]:
        c = pts[i][1]
        rep.finding(f"process:{c['cfg']}:{c['req']}",
                    f"calls to add_feature_to_collection / final collection / names asked from the compute frameworks for request "
                    f"{c['req']} [{c['cfg']}, hash seed {c['hashseed']}] differ from Model.process_request: trace={c['trace']} coll={c['coll']}",
                    {"kind": "e2e", **replay_obj(c)})
        found = True
    if set(strict_bad) - set(bad):
        rep.notes.append("some runs agree only with a repaired variant of the model: a known defect seems fixed in /repo")

    # in-situ identify calls
    cps = list(call_plain.values())
    bad, info = vlib.run_cases("C03", "calls", REQ, "chk_ident", [t for t, _ in cps], case_type=IDENT_TY, extra_defs=EXTRA, shard=400)
    cks = list(call_kf.values())
    bad2, info2 = vlib.run_cases("C03", "calls_kf", REQ, "chk_ident_kf", [t for t, _ in cks], case_type=IDENT_KF_TY, extra_defs=EXTRA, shard=400)
    rep.add("in_situ_identify_calls", {"distinct_plain": len(cps), "distinct_request_order_multi": len(cks),
                                       "disagreements": len(bad) + len(bad2), "coq_eval_s": info["coq_eval_s"] + info2["coq_eval_s"]})
    for (lst, idxs) in ((cps, bad), (cks, bad2)):
        for i in idxs[:5]:
            c = lst[i][1]
            rep.finding(f"call:{lst[i][0][:200]}", f"an identify_naming_convention call during run_all({c['req']}) [{c['cfg']}] differs from "
                        f"Model.identify: {lst[i][0][:400]}", {"kind": "e2e", **replay_obj(c)})
            found = True

    # ---------------- classification of the runs that violate the statement
    counts = {KF_ORDER: 0, KF_SUBCOL: 0, "violation": 0}
    first: Dict[str, dict] = {}
    reported = 0
    for c, fails in failing:
        cfg = cfg_by_id[c["cfg"]]
        for f in fails:
            key = classify(c, f)
            if key is None:
                counts["violation"] += 1
                if reported < 8:
                    rep.finding(f"e2e:{f['kind']}:{c['cfg']}:{c['req']}:{c['ordering']}",
                                f"run_all({c['req']}, column_ordering={c['ordering']!r}) [{c['cfg']}, hash seed {c['hashseed']}] returned "
                                f"{c['tables']}: {f}", {"kind": "e2e", "failure": f, **replay_obj(c)})
                    reported += 1
                found = True
            else:
                counts[key] += 1
                if key not in first:
                    first[key] = {"kind": "e2e", "failure": f, **replay_obj(c)}
    for key, w in first.items():
        rep.finding(key, f"{key}: {w['failure']} for request {w['req']} ({w['cfg']}, hash seed {w['hashseed']}) -> {w['tables']}", w)
    rep.add("statement_failures_by_class", counts)
    # ---------------- execution modes: the THREADING / MULTIPROCESSING runs against their SYNC sibling, transfer observation
    per_mode: Dict[str, Dict[str, Any]] = {m: {"runs": 0, "ok": 0, "raised": 0, "raised_in_orphan_filter_domain": 0, "same_tables_as_sync": 0,
                                               "statement_holds": 0, "identify_calls": 0, "by_ordering": {}, "by_framework": {},
                                               "with_filter_or_index_feature_requested": 0, "with_subcolumn_request": 0,
                                               "plans_with_join": 0, "in_conflict_domain": 0, "in_mp_join_domain": 0,
                                               "known_defect_domain_failures": 0} for m in MODES3}
    failing_ids = {id(c) for c, _ in failing}
    mode_terms: Dict[str, Tuple[str, dict]] = {}
    reported_mode = 0
    n_uploads = 0
    max_procs = 0
    for c in mode_runs:
        cfg = cfg_by_id[c["cfg"]]
        pm = per_mode[c["mode"]]
        pm["runs"] += 1
        pm["by_ordering"][str(c["ordering"])] = pm["by_ordering"].get(str(c["ordering"]), 0) + 1
        pm["by_framework"][cfg["fw"]] = pm["by_framework"].get(cfg["fw"], 0) + 1
        aux = set(cfg["filters"] or []) | {i for l in (cfg["links"] or []) for i in l[1] + l[3]}
        pm["with_filter_or_index_feature_requested"] += int(any(r in aux for r in c["req"]))
        pm["with_subcolumn_request"] += int(any("~" in r for r in c["req"]))
        sib = c if c["mode"] == "SYNC" else c.get("sync")
        plan = sib.get("plan") if sib else None
        pm["plans_with_join"] += int(bool(plan) and any(st["kind"] == "JOIN" for st in plan["steps"]))
        pm["in_conflict_domain"] += int(bool(sib) and bool(sib.get("conflict_x" if c["mode"] == "MULTIPROCESSING" else "conflict")))
        pm["in_mp_join_domain"] += int(kf_mp_join_after_upload(plan, cfg["fw"]))
        pm["identify_calls"] += len(c["calls"])
        pm["timeouts_not_reproduced_on_retry"] = pm.get("timeouts_not_reproduced_on_retry", 0) + int(c.get("timeouts", 0) == 1)
        if len(c["req"]) >= 2:
            rep.nontrivial(("m", c["cfg"], c["req"], c["ordering"], c["mode"]))
        if c["exc"] is not None:
            pm["raised"] += 1
            continue
        pm["ok"] += 1
        pm["statement_holds"] += int(id(c) not in failing_ids)
        if c["mode"] == "SYNC":
            if c.get("plan") is None:
                rep.finding(f"mode-probe:{c['cfg']}:{c['req']}", f"plan / footprint of the SYNC run could not be exported: {c.get('plan_err')}",
                            {"kind": "e2e", **replay_obj(c)}, found_input=False)
                found = True
            continue
        problems: List[str] = []
        if sib is None or sib["exc"] is not None:
            if sib is not None and not ("NoneType" in sib["exc"] and cfg["filters"]):
                problems.append(f"the run succeeds in mode {c['mode']} while the SYNC run of the same request raised {sib['exc'][-160:]}")
        elif canon_tables(c["tables"]) != canon_tables(sib["tables"]):
            problems.append(f"returned tables {c['tables']} differ from the SYNC run's {sib['tables']}")
        else:
            pm["same_tables_as_sync"] += 1
            if c["ordering"] == "alphabetical" and sorted(map(json.dumps, c["tables"])) != sorted(map(json.dumps, sib["tables"])):
                problems.append(f"'alphabetical' tables {c['tables']} are not identical to the SYNC run's {sib['tables']}")
        if c.get("child_events"):
            problems.append(f"planning / selection calls were made inside a worker process: {c['child_events'][:4]} (the recorded trace is incomplete)")
        if c["mode"] == "MULTIPROCESSING":
            ups = c.get("uploads") or []
            n_uploads += len(ups)
            max_procs = max(max_procs, c.get("worker_processes", 0))
            for k in c["calls"]:
                held = k["cols"] if k["cols"] in ups else None
                if held is None:
                    problems.append(f"the selection saw columns {k['cols']} which no worker process uploaded (uploads: {ups})")
                elif not (k["ordering"] == "request_order" and len(k["iter"]) >= 2):
                    t = (f"(({CQ_MODE[c['mode']]}, {cq_strs(k['iter'])}, {cq_strs(held)}, {cq_strs(k['cols'])}, {cq_ordering(k['ordering'])}), "
                         f"{cq_result(k['kind'], k['res'])})")
                    mode_terms.setdefault(t, (t, c))
        else:
            for k in c["calls"]:
                if not (k["ordering"] == "request_order" and len(k["iter"]) >= 2):
                    t = (f"(({CQ_MODE[c['mode']]}, {cq_strs(k['iter'])}, {cq_strs(k['cols'])}, {cq_strs(k['cols'])}, {cq_ordering(k['ordering'])}), "
                         f"{cq_result(k['kind'], k['res'])})")
                    mode_terms.setdefault(t, (t, c))
        for pmsg in problems:
            found = True
            if reported_mode < 8:
                reported_mode += 1
                rep.finding(f"mode:{c['mode']}:{c['cfg']}:{c['req']}:{c['ordering']}:{pmsg[:40]}",
                            f"run_all({c['req']}, column_ordering={c['ordering']!r}, mode {c['mode']}) [{c['cfg']}, hash seed {c['hashseed']}]: {pmsg}",
                            {"kind": "e2e", **replay_obj(c)})
    mode_ids = {id(c) for c in mode_runs}
    for c in raised:
        if id(c) not in mode_ids:
            continue
        if "env" in c and f"({env_term(c['env'])}, {cq_strs(c['req'])})" in orphan:
            per_mode[c["mode"]]["raised_in_orphan_filter_domain"] += 1
        elif mode_domain(c, cfg_by_id[c["cfg"]]) is not None:
            per_mode[c["mode"]]["known_defect_domain_failures"] += 1
    mts = list(mode_terms.values())
    badm, infom = vlib.run_cases("C03", "calls_mode", REQ, "chk_ident_mode", [t for t, _ in mts], case_type=IDENT_MODE_TY,
                                 extra_defs=EXTRA, shard=400) if mts else ([], {})
    for i in badm[:5]:
        c = mts[i][1]
        rep.finding(f"call-mode:{mts[i][0][:200]}", f"a selection call of run_all({c['req']}, mode {c['mode']}) [{c['cfg']}] differs from "
                    f"Model.identify over seen_cols: {mts[i][0][:400]}", {"kind": "e2e", **replay_obj(c)})
        found = True
    rep.add("modes", {"per_mode": per_mode, "requests_per_configuration": len(mode_jobs[0][0]["cases"]) // 3 if mode_jobs else 0,
                      "selection_calls_checked_with_seen_cols": {**infom, "distinct": len(mts), "disagreements": len(badm)},
                      "uploads_recorded_in_worker_processes": n_uploads, "max_worker_processes_per_run": max_procs,
                      "known_defect_domain_hits": mode_kf, "process_start_method": mp_obs.start_method(),
                      "plans_classified_by_conflict_free": len(sibs), "distinct_plan_terms": len(sib_terms), "domain_eval_s": t_dom})
    if mp_obs.start_method() != "fork":
        rep.finding("modes-start-method", f"worker processes start with {mp_obs.start_method()!r}: harness wrappers are not inherited",
                    {"kind": "e2e"}, found_input=False)
        found = True
    # ---------------- declared types: grouping -> steps -> result tables (Model/StepTables.v)
    found = typed_finish() or found
    rep.add("rule", "unit: PRNG name sets over 10 bases x 9 suffixes sharing prefixes and '~', 0-4 features, 0-7 columns, 4 ordering "
                    "values; e2e: 12 configurations (3 pools of 7 names over one 6-group graph with dependencies, a 2-level chain, a join, "
                    "multi-column features on a root and on a derived group, index columns, 0-2 links, 0-2 global filters, 3 compute "
                    "frameworks); quick = all ordered requests of <= 2 names + 36 sampled of 3-4 names, thorough = all 1099 ordered "
                    "requests of <= 4 names, each x 3 orderings x hash seeds. non-trivial = unit call with >= 2 names and >= 2 selected "
                    "columns / e2e request with >= 2 names (distinct by configuration, name set, ordering). modes: per configuration 8 "
                    "(quick) / 96 (thorough) ordered requests of 1-4 names x 3 orderings, each run in SYNC, THREADING and MULTIPROCESSING "
                    "(one hash seed per configuration, rotating); non-trivial = request with >= 2 names (distinct by configuration, "
                    "ordered request, ordering, mode); family typed: see typed_family.rule")
    for c in (ucases[:2] + [{k: v for k, v in r.items() if k in ("cfg", "hashseed", "req", "ordering", "tables", "trace")} for r in runs[100:400:100]]):
        rep.sample(c)
    from harness import srctie      # source-text tie (Props/SrcTie.v): definitions regenerated from the source text = the models
    found = (not srctie.check(rep)) or found
    rep.add("total_wall_s", round(time.time() - t_start, 1))
    if not pr.ok and not found:
        rep.finding("proof-broken", "Props/C03.v no longer checks",
                    {"failed_files": pr.failed_files, "forbidden": pr.forbidden, "log_tail": pr.log[-3000:]}, found_input=False)


def normalise(name: str) -> str:
    """What the engine calls the requested feature (python mirror of set_feature_name for the generated universes; only used
    to order names for the repaired-variant comparison and for the sub-column domain test)."""
    g = group_of_name(name)
    base = name.split("~")[0]
    return base if base != name and base in g.get("supported", []) else name


def classify(c: dict, f: dict) -> Optional[str]:
    """Known-finding key if the failure lies inside one of the narrowly defined known-defect domains, else None."""
    req, ordering = c["req"], c["ordering"]
    sub_reqs = [r for r in req if "~" in r and normalise(r) != r]
    # a missing feature (request flag lost: fixed by 069fedf) or a duplicated column (fixed by 990998a) is never tolerated
    if f["kind"] == "extra":
        # a sibling column of a requested sub-column whose base name is in feature_names_supported()
        if any(f["column"].startswith(normalise(r) + "~") for r in sub_reqs):
            return KF_SUBCOL
        return None
    if f["kind"] == "not-request-order":
        asked = [k for k in c["calls"] if set(k["res"]) == set(f["got"])]
        if ordering == "request_order" and any(len(k["iter"]) >= 2 for k in asked):
            return KF_ORDER
        # the position of a sub-column request is lost together with its name when it is rewritten to the base name
        if ordering == "request_order" and any(col.startswith(normalise(r) + "~") for r in sub_reqs for col in f["got"]):
            return KF_SUBCOL
        return None
    return None


def mode_domain(c: dict, cfg: dict) -> Optional[str]:
    """Known-finding key if a THREADING / MULTIPROCESSING run that RAISED lies in a mode-specific known-defect domain: its
    SYNC sibling succeeded and (a) the plan has two steps, not ordered by the wait-for relation, working on one object
    (THREADING: conflict_free false; MULTIPROCESSING: conflict_free_x false), or (b) kf_mp_join_after_upload."""
    sib = c.get("sync")
    if c.get("mode", "SYNC") == "SYNC" or sib is None or sib["exc"] is not None or "HANG" in (c["exc"] or ""):
        return None
    if c["mode"] == "THREADING" and sib.get("conflict"):
        return KF_RACE
    if c["mode"] == "MULTIPROCESSING":
        if kf_mp_join_after_upload(sib.get("plan"), cfg["fw"]):
            return KF_MPJOIN
        if sib.get("conflict_x"):
            return KF_RACE
    return None


def replay_obj(c: dict) -> dict:
    return {"cfg": c["cfg"], "hashseed": c["hashseed"], "req": c["req"], "ordering": c["ordering"], "mode": c.get("mode", "SYNC"),
            "tables": c.get("tables"), "exc": c.get("exc"), "trace": c.get("trace"),
            "sync_tables": (c.get("sync") or {}).get("tables"), "uploads": c.get("uploads")}


def replay(path: str) -> int:
    r = json.load(open(path))["replay"]
    print(json.dumps(r, indent=1)[:3000])
    if r.get("kind") == "typed":
        from harness import c03_typed
        return c03_typed.replay(r)
    if r.get("kind") == "srctie":
        from harness import srctie
        srctie.replay(r)
    if r.get("kind") == "e2e" and "cfg" in r:
        cfg = {c["id"]: c for c in CONFIGS}[r["cfg"]]
        job = {"universe": UNIVERSE, "config": {k: cfg[k] for k in ("fw", "links", "filters")}, "cases": [[r["req"], r["ordering"]]]}
        mode = r.get("mode", "SYNC")
        if mode != "SYNC":
            from harness.orch import flight_server, stop_flight_server
            job["modes"] = ["SYNC", mode]
            job["flight"] = flight_server().get_location()
        out = run_worker(job, int(r["hashseed"]), "replay")
        if mode != "SYNC":
            stop_flight_server()
        if out.get("error"):
            print(out["error"])
            return 1
        c = out["cases"][-1]
        if mode != "SYNC":
            print(f"mode {mode}; SYNC run now: tables =", out["cases"][0]["tables"], "exc =", out["cases"][0]["exc"])
        print("now: tables =", c["tables"], "exc =", c["exc"])
        print("recorded: tables =", r.get("tables"), "exc =", r.get("exc"))
        if c["exc"] is None:
            print("statement failures now:", evaluate_property(r["req"], r["ordering"], c["tables"]))
    elif r.get("kind") == "unit":
        from uuid import uuid4
        from mloda.user import FeatureName, ParallelizationMode
        from harness.c03_worker import fw_class
        cfw = fw_class("pandas")(mode=ParallelizationMode.SYNC, children_if_root=frozenset(), uuid=uuid4())
        o = r["ordering"]
        try:
            print("now:", cfw.identify_naming_convention({FeatureName(f) for f in r["iter"]}, set(r["cols"]), o))
        except Exception as e:  # noqa: BLE001
            print("now raises:", type(e).__name__, e)
        print("recorded:", r["kind"], r["res"])
    return 0
